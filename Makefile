# setup: builds the libTooling fact extractor (offline, ~25 s)
LLVM_CXXFLAGS := $(shell llvm-config-14 --cxxflags)
LLVM_LIBS := /usr/lib/llvm-14/lib/libclang-cpp.so.14 /usr/lib/llvm-14/lib/libLLVM-14.so

all: bin/lmfacts

bin/lmfacts: engine/lmfacts.cc
	mkdir -p bin
	clang++ $(LLVM_CXXFLAGS) -fno-rtti -O1 engine/lmfacts.cc -o bin/lmfacts $(LLVM_LIBS)

clean:
	rm -rf bin .cache
