"""C15 — names, deny flags, persist, reserved topics (DESIGN §4 C15)."""
import lm
import rules
from lm import S, strip, cval, walk
from props.common import Ctx, has, fmt_facts, guard_retvals, check_guarded_entry

LEVEL = "other"


def run(ck, P):
    X = Ctx(P)
    E = P.enums
    for n in ("M_MOD_ALLOW_REPLACE", "M_MOD_PERSIST", "M_MOD_DENY_CTX", "M_MOD_DENY_PUB", "M_MOD_DENY_SUB", "M_MAP_VAL_ALLOW_UPDATE", "M_CTX_LOOPING"):
        ck.need(n in E, "%s vanished" % n)

    # ------------------------------------------------------------------ 1. unique names
    ck.rule("C15.1-UNIQUE-NAMES", "R-GUARD: m_mod_register inserts into c->modules under a live name only after the existing module allowed "
            "replacement and mod_deregister(&old, false) succeeded, otherwise -EEXIST; the modules map is created without "
            "M_MAP_VAL_ALLOW_UPDATE", floor=2)
    mr = P.fn("m_mod_register")
    ck.analysed(mr)
    puts = [e for e in mr.calls("m_map_put") if S(e.args[0]).endswith("->modules")]
    ck.need(puts, "m_mod_register lost its insertion")
    lookup = [e for e in mr.events() if e.kind == "decl" and e.rhs is not None and strip(e.rhs).get("callee") == "m_map_get" and S(strip(e.rhs)["args"][0]).endswith("->modules")]
    ck.need(len(lookup) == 1 and S(strip(lookup[0].rhs)["args"][1]) == mr.params[0]["name"], "name lookup in m_mod_register changed")
    old = lookup[0].e["name"]
    AR = E["M_MOD_ALLOW_REPLACE"]
    bad = None
    n = 0
    for path in mr.paths(loop_fragments=True):
        evs = list(rules.path_events(mr, path))
        a = rules.path_assumes(path)
        if any(e in puts for e in evs):
            n += 1
            if a.get(old) is False:
                continue
            dr = [e for e in evs if e.kind == "call" and e.callee == "mod_deregister" and S(e.args[0]) == "&" + old and cval(e.args[1]) == 0]
            # the variable that holds the result of that deregistration, whatever it is called, tested after the call
            bind = [e for e in evs if e.kind in ("decl", "assign") and e.rhs is not None and strip(e.rhs).get("callee") == "mod_deregister"]
            rvn = S(bind[0].lhs) if bind else "ret"
            aft = rules.path_assumes_after(path, bind[0]) if bind else a
            succeeded = aft.get(rvn) is False or aft.get("(%s == 0)" % rvn) is True
            if not (a.get(old) is True and a.get("(%s->flags & %d)" % (old, AR)) is True and dr and succeeded):
                bad = ("insertion reachable while a module with that name is still registered", path)
                break
        elif a.get(old) is True and a.get("(%s->flags & %d)" % (old, AR)) is False:
            rets = [cval(e.e) for e in evs if e.kind == "ret"]
            effs = [e for e in evs if e.kind == "call" and e.callee in ("m_mem_new", "mod_deregister")]
            if rets != [-17] or effs:
                bad = ("live name without ALLOW_REPLACE: returns %s" % rets, path)
                break
    ck.ob("C15.1-UNIQUE-NAMES", mr.site("EEXIST / replace"), bad is None and n > 0, "%d inserting path(s): name free, or old module replaced after a successful deregistration" % n
          if bad is None else bad[0], path=rules.fmt_path(mr, bad[1]) if bad else None)
    cn = P.fn("ctx_new")
    ck.analysed(cn)
    mk = [e for e in cn.events() if e.kind == "assign" and S(e.lhs).endswith("->modules") and strip(e.rhs).get("callee") == "m_map_new"]
    okm = bool(mk) and all((cval(strip(e.rhs)["args"][0]) or 0) & E["M_MAP_VAL_ALLOW_UPDATE"] == 0 and cval(strip(e.rhs)["args"][0]) is not None for e in mk)
    ck.ob("C15.1-UNIQUE-NAMES", cn.site("modules map flags"), okm, "c->modules = %s" % [S(e.rhs) for e in mk])

    # ------------------------------------------------------------------ 2. deny bits
    ck.rule("C15.2-DENY-BITS", "R-GUARD-TABLE: M_MOD_DENY_PUB guards m_mod_ps_tell/publish/poisonpill and M_MOD_DENY_SUB guards "
            "m_mod_ps_subscribe/unsubscribe: the flag test fails with -EPERM before token consumption and every other effect", floor=5)
    table = [("m_mod_ps_tell", "M_MOD_DENY_PUB"), ("m_mod_ps_publish", "M_MOD_DENY_PUB"), ("m_mod_ps_poisonpill", "M_MOD_DENY_PUB"),
             ("m_mod_ps_subscribe", "M_MOD_DENY_SUB"), ("m_mod_ps_unsubscribe", "M_MOD_DENY_SUB")]
    for (name, flag) in table:
        f = P.fn(name, "Lib/core/ps.c")
        ck.analysed(f)
        check_guarded_entry(ck, X, f, "C15.2-DENY-BITS", [(("(mod->flags & %d)" % E[flag], False), -1)], "%s/%s" % (name, flag))
    # the two bits are distinct single bits in the permission byte
    ck.ob("C15.2-DENY-BITS", "Lib/core/public/module/mod.h:deny constants",
          len({E["M_MOD_DENY_CTX"], E["M_MOD_DENY_PUB"], E["M_MOD_DENY_SUB"]}) == 3 and all(E[k] & (E[k] - 1) == 0 and E[k] >= (1 << 16) for k in ("M_MOD_DENY_CTX", "M_MOD_DENY_PUB", "M_MOD_DENY_SUB")),
          "DENY_CTX=%#x DENY_PUB=%#x DENY_SUB=%#x" % (E["M_MOD_DENY_CTX"], E["M_MOD_DENY_PUB"], E["M_MOD_DENY_SUB"]), nontrivial=False)

    # ------------------------------------------------------------------ 3. deny context
    ck.rule("C15.3-DENY-CTX", "R-GUARD: m_ctx() returns NULL whenever the module whose callback is executing (c->curr_mod) carries "
            "M_MOD_DENY_CTX; every context entry point obtains its context through m_ctx() (C07.2) and curr_mod is set for the whole extent "
            "of every user callback (C01.5)", floor=2)
    mc = P.fn("m_ctx", "Lib/core/ctx.c")
    ck.analysed(mc)
    atom = "(c->curr_mod->flags & %d)" % E["M_MOD_DENY_CTX"]
    gs = guard_retvals(mc, atom, False)
    okg = bool(gs) and all(g.retval == 0 and not g.effects_in_bail for g in gs)
    # the test is reached whenever c and c->curr_mod are non-NULL: the guard block's facts
    okr = False
    for g in gs:
        blk = mc.blocks[g.block]
        IN, tr = rules.mustfacts(mc)
        st = mc.state_at_end(IN, g.block, tr)
        okr = st is not None and ("c", True) in st and ("c->curr_mod", True) in st
    # every other return returns the looked-up context
    rets = [e for e in mc.events() if e.kind == "ret" and cval(e.e) is None]
    okret = all(S(e.e) == "c" for e in rets) and bool(rets)
    ck.ob("C15.3-DENY-CTX", mc.site("NULL for denied module"), okg and okr and okret,
          "guard '%s' fails with NULL, reached whenever a callback is executing: %s" % (atom, okr), witness=[("drop_branch", mc.unit, mc.name, g.block) for g in gs])
    users = [f for f in P.funcs if f.unit == "Lib/core/ctx.c" and f.public and f.name.startswith("m_ctx_") and f.name != "m_ctx_register"]
    direct = [f.name for f in users if not any(e.callee == "m_ctx" for e in f.calls())]
    ck.ob("C15.3-DENY-CTX", "Lib/core/ctx.c:entry points use m_ctx()", not direct and len(users) >= 13, "%d entry points, bypassing m_ctx(): %s" % (len(users), direct))
    cw = list(P.writes_to_field("_ctx", "curr_mod"))
    ck.ob("C15.3-DENY-CTX", "Lib/core:_ctx.curr_mod writers", {w.fn.name for w in cw} <= {"optional_hook", "call_pubsub_cb"} and bool(cw),
          "curr_mod written by %s" % sorted({w.fn.name for w in cw}), nontrivial=False)

    # ------------------------------------------------------------------ 4. persist
    ck.rule("C15.4-PERSIST", "R-GUARD: in mod_deregister the test (flags & M_MOD_PERSIST) && ctx is LOOPING fails with -EPERM before the removal "
            "from the map, stop() and every other effect", floor=1)
    md = P.fn("mod_deregister")
    ck.analysed(md)
    eff = X.effects()
    targets = [e for e in md.events() if eff.is_effect(e) and not (e.kind == "call" and e.callee in ("m_ctx", "m_mod_is"))]
    pa, la = "(m->flags & %d)" % E["M_MOD_PERSIST"], "(c->state == %d)" % E["M_CTX_LOOPING"]
    bad = None
    n = 0
    for path in md.paths():
        evs = list(rules.path_events(md, path))
        a = rules.path_assumes(path)
        if a.get(pa) is True and a.get(la) is True:
            n += 1
            rets = [cval(e.e) for e in evs if e.kind == "ret"]
            effs = [e for e in evs if e in targets]
            if rets != [-1] or effs:
                bad = ("persistent module of a looping context: returns %s with effects %s" % (rets, [S(e.e)[:40] for e in effs]), path)
        elif any(e in targets for e in evs) and not (a.get(pa) is False or a.get(la) is False):
            bad = ("effect reachable without the persist test", path)
        if bad:
            break
    ck.ob("C15.4-PERSIST", md.site("EPERM while looping"), bad is None and n > 0, "%d refusing path(s), every effect behind the test" % n if bad is None else bad[0],
          path=rules.fmt_path(md, bad[1]) if bad else None)

    # ------------------------------------------------------------------ 5. reserved prefix
    ck.rule("C15.5-RESERVED", "R-GUARD + constants: m_mod_ps_publish reaches send_msg only under !is_system_message(topic) (-EPERM otherwise); "
            "is_system_message compares the first strlen(prefix) bytes with a prefix that every system topic the library emits starts with", floor=3)
    pb = P.fn("m_mod_ps_publish", "Lib/core/ps.c")
    ism = P.fn("is_system_message", "Lib/core/ps.c", required=False)
    prefix = None
    if ism is not None:
        check_guarded_entry(ck, X, pb, "C15.5-RESERVED", [(("is_system_message(topic)", False), -1)], "m_mod_ps_publish")
        ck.analysed(ism)
        sc = list(ism.calls("strncmp"))
        okp = len(sc) == 1
        if okp:
            a = sc[0].args

            def _strval(x):
                """the string a strncmp argument denotes: a literal, or a const char array (file- or function-scope static) initialised with one"""
                x = strip(x)
                if x["k"] == "str":
                    return x.get("v")
                if x["k"] == "var":
                    for g_ in P.globals:
                        if g_["name"] == x["name"] and g_.get("const") and g_.get("init") and strip(g_["init"])["k"] == "str" \
                                and (not g_.get("func") or g_["func"] == ism.name):
                            return strip(g_["init"]).get("v")
                return None
            prefix = _strval(a[1])
            ln = strip(a[2])
            okp = prefix is not None and S(a[0]) == ism.params[0]["name"] and \
                ((ln.get("callee") == "strlen" and _strval(ln["args"][0]) == prefix) or cval(a[2]) == len(prefix))
            rv = [e for e in ism.events() if e.kind == "ret"]
            pn0 = ism.params[0]["name"]
            okp = okp and len(rv) == 1 and "strncmp" in S(rv[0].e) and "== 0" in S(rv[0].e) and \
                (S(rv[0].e).startswith("(" + pn0 + " &&") or S(rv[0].e).startswith("((" + pn0 + " != NULL) &&"))
        ck.ob("C15.5-RESERVED", ism.site("prefix test"), okp, "prefix %r compared over its full length" % prefix)
    else:
        # the predicate written out in place (macro / by hand): every path of m_mod_ps_publish to an effect has refuted
        # `topic && strncmp(topic, PREFIX, strlen(PREFIX)) == 0`, and the refusing arm returns -EPERM
        ck.analysed(pb)
        tn = pb.params[1]["name"]
        sc = [e for e in pb.calls("strncmp") if S(e.args[0]) == tn]
        okp = len(sc) == 1
        atom = None
        if okp:
            a = sc[0].args
            prefix = strip(a[1]).get("v") if strip(a[1])["k"] == "str" else None
            ln = strip(a[2])
            okp = prefix is not None and ((ln.get("callee") == "strlen" and strip(ln["args"][0]).get("v") == prefix) or cval(a[2]) == len(prefix))
            atom = S(sc[0].e)
        ck.ob("C15.5-RESERVED", pb.site("prefix test"), okp, "prefix %r compared over its full length (predicate written out in m_mod_ps_publish)" % prefix)
        effs = [e for e in pb.events() if X.effects().is_effect(e) and not (e.kind == "call" and e.callee in ("m_ctx", "m_mod_is", "fetch_ms", "strncmp", "strlen"))]
        badp = None
        np_ = 0
        for path in pb.paths():
            evs = list(rules.path_events(pb, path))
            if not any(e in effs for e in evs):
                continue
            np_ += 1
            asm = rules.path_assumes(path)
            refuted = asm.get(tn) is False or (atom is not None and (
                asm.get(atom) is True or asm.get("(%s == 0)" % atom) is False or
                asm.get("(%s && (%s == 0))" % (tn, atom)) is False or asm.get("(%s && !%s)" % (tn, atom)) is False))
            if not refuted:
                badp = path
        ck.ob("C15.5-RESERVED", pb.site("!is_system_message(topic)"), okp and badp is None and np_ > 0,
              "%d acting path(s) of m_mod_ps_publish all refuted the reserved-prefix test" % np_ if badp is None else
              "m_mod_ps_publish can act on a topic without having refuted the reserved prefix", path=rules.fmt_path(pb, badp) if badp else None)
    topics = set()
    for ev in P.calls_to("tell_system_pubsub_msg"):
        t = strip(ev.args[3])
        if t["k"] == "str":
            topics.add(t["v"])
    for ev in P.calls_to("strcmp"):
        for a in ev.args:
            if strip(a)["k"] == "str" and strip(a)["v"].startswith("LIBMODULE"):
                topics.add(strip(a)["v"])
    ck.ob("C15.5-RESERVED", "Lib/core:system topics", len(topics) >= 6 and prefix is not None and all(t.startswith(prefix) for t in topics),
          "system topics %s all start with %r" % (sorted(topics), prefix))
    sm = [e for e in P.calls_to("send_msg")]
    ck.ob("C15.5-RESERVED", "Lib/core/ps.c:send_msg callers", {e.fn.name for e in sm} == {"m_mod_ps_tell", "m_mod_ps_publish"},
          "send_msg called by %s (tell passes a NULL topic)" % sorted({e.fn.name for e in sm}), nontrivial=False)

    ck.rule("C15.6-FLAG-BITS", "R-FLAG-BITS: m_mod_flags (deny / persist / replace / ownership bits) are single distinct bits", floor=1)
    from props.flags import flag_bits
    flag_bits(ck, P, "C15.6-FLAG-BITS", "m_mod_flags", "Lib/core")

    ck.not_decided += ["'at every nesting depth' as a dynamic statement (nested hook exits reset curr_mod to NULL rather than to the outer module; no history found "
                       "in which a denied call succeeds)"]
