"""C07 — context lifecycle: one per thread, teardown deregisters every module (DESIGN §4 C07)."""
import lm
import rules
from lm import S, strip, cval, atoms, Func
from props.common import Ctx, has, guard_retvals, fmt_facts, check_guarded_entry, EQ
from units import AnalysisBroken

LEVEL = "other"

KEY_FUNCS = ("pthread_getspecific", "pthread_setspecific")


def key_once_analysis(P):
    """Interprocedural must-analysis: is `pthread_once(&key_once, make_key)` certain to have run before each use of
    the thread-specific key?  entry[F] = AND over the call sites of F (public or uncalled functions: False)."""
    cg = P.callgraph()
    funcs = [f for f in P.funcs if f.unit.startswith("Lib/core/")]
    entry = {f.key: True for f in funcs}
    ensures = {f.key: True for f in funcs}       # on return, once has certainly run
    callers = {f.key: [] for f in funcs}
    for f in funcs:
        for ev in f.calls():
            for t in cg.callees_of_event(ev):
                if isinstance(t, Func) and t.key in callers:
                    callers[t.key].append(ev)

    def make_step(f):
        def step(st, ev):
            if ev.kind == "call":
                if ev.callee == "pthread_once" and ev.args and "key_once" in S(ev.args[0]):
                    return st | {"once"}
                for t in cg.callees_of_event(ev):
                    if isinstance(t, Func) and ensures.get(t.key) and len(cg.callees_of_event(ev)) == 1:
                        return st | {"once"}
            return st
        return step

    results = {}
    for _round in range(12):
        changed = False
        for f in funcs:
            step = make_step(f)
            init = frozenset({"once"}) if entry[f.key] else frozenset()
            IN = rules.tag_analysis(f, step, must=True, init=init)
            results[f.key] = (IN, step)
            ex = IN.get(f.exit)
            e_now = ex is not None and "once" in ex
            if f.exit not in IN:
                e_now = True
            if e_now != ensures[f.key]:
                ensures[f.key] = e_now
                changed = True
        for f in funcs:
            if f.public or not callers[f.key] or f.name == "main":
                new = False
            else:
                new = True
                for ev in callers[f.key]:
                    IN, step = results[ev.fn.key]
                    st = ev.fn.state_before(IN, ev, step)
                    if st is not None and "once" not in st:
                        new = False
            if new != entry[f.key]:
                entry[f.key] = new
                changed = True
        if not changed:
            break
    return results, entry, ensures



def ck_has_violation(ck, rule):
    """Has an obligation of `rule` already been decided as violated in this run?"""
    for o in getattr(ck, "obligations", getattr(ck, "obs", [])):
        r_ = o.get("rule") if isinstance(o, dict) else getattr(o, "rule", None)
        ok_ = o.get("ok", o.get("holds")) if isinstance(o, dict) else getattr(o, "ok", None)
        if r_ == rule and ok_ is False:
            return True
    return False

def run(ck, P):
    X = Ctx(P)
    cg = X.cg
    E = P.enums
    ck.need("M_CTX_IDLE" in E and "M_CTX_LOOPING" in E, "context state enum vanished")
    IDLE = E["M_CTX_IDLE"]

    # ------------------------------------------------------------------ 1. one context per thread
    ck.rule("C07.1-ONE-PER-THREAD", "R-GUARD: m_ctx_register creates a context (ctx_new) only when the thread-specific slot is "
            "empty and otherwise fails with -EEXIST without effect; ctx_new is called from nowhere else", floor=2)
    reg = P.fn("m_ctx_register")
    ck.analysed(reg)
    news = list(P.calls_to("ctx_new"))
    ck.need(news, "ctx_new is never called")
    for ev in news:
        ck.call_sites += 1
        facts = rules.resolve_atoms(ev.fn, X.facts(ev.fn, ev) or ())      # (the slot may be read in a helper / into a local first)
        ok = ev.fn is reg and has(facts, "pthread_getspecific(key)", False)
        ck.ob("C07.1-ONE-PER-THREAD", ev.fn.site("ctx_new"), ok,
              "ctx_new at line %d in %s under %s" % (ev.line, ev.fn.name, fmt_facts(facts)))
    gs = guard_retvals(reg, "pthread_getspecific(key)", False)
    if not gs:
        gs = [g for g in rules.bailouts(reg) if has(rules.resolve_atoms(reg, g.cont_atoms), "pthread_getspecific(key)", False)]
    ck.ob("C07.1-ONE-PER-THREAD", reg.site("EEXIST"), bool(gs) and all(g.retval == -17 and not g.effects_in_bail for g in gs),
          "second registration returns %s" % ([g.retval for g in gs] or "nothing"),
          witness=[("drop_branch", reg.unit, reg.name, g.block) for g in gs])
    # the slot is written only by ctx_new (attach) and m_ctx_deregister (detach)
    for ev in P.calls_to("pthread_setspecific"):
        ck.call_sites += 1
        ok = ev.fn.name in ("ctx_new", "m_ctx_deregister")
        if ev.fn.name == "ctx_new":
            ok = ok and S(ev.args[1]) == "new_ctx" or ok and strip(ev.args[1])["k"] == "var"
        if ev.fn.name == "m_ctx_deregister":
            ok = ok and strip(ev.args[1])["k"] == "null"
        ck.ob("C07.1-ONE-PER-THREAD", ev.fn.site("setspecific"), ok, "pthread_setspecific(%s) at line %d in %s" % (S(ev.args[1]), ev.line, ev.fn.name),
              nontrivial=False)

    # the thread's slot is set as the very last step of building a context: nothing that can fail comes after it (a registration that
    # fails later would release the context and leave the slot pointing at freed memory: context calls "succeed" on a thread without one).
    # What allocation failures before that point do to the half-built context is outside the property (DESIGN 10.7).
    cn = P.fn("ctx_new", "Lib/core/ctx.c")
    ck.analysed(cn)
    att = [e for e in cn.calls("pthread_setspecific") if strip(e.args[1])["k"] != "null"]
    ck.need(len(att) == 1, "ctx_new attaches the context %d time(s)" % len(att))
    FALLIBLE = {"poll_create", "m_map_new", "fs_create", "m_mem_new", "mem_strdup"}
    badc = None
    nc = 0
    for path in cn.paths():
        evs = list(rules.path_events(cn, path))
        rets_ = [e for e in evs if e.kind == "ret" and e.e is not None]
        if not rets_:
            continue
        asm = rules.path_assumes(path)
        if asm.get("new_ctx") is False:
            continue                                  # nothing was built
        nc += 1
        ai = [i for i, e in enumerate(evs) if e in att]
        late = [e.callee for e in evs[ai[0] + 1:] if e.kind == "call" and e.callee in FALLIBLE] if ai else []
        rel = [e for e in evs if e.kind == "call" and e.callee in ("m_mem_unref", "m_mem_unrefp") and S(e.args[0]).lstrip("&") == "new_ctx"]
        if late:
            badc = ("%s() can still fail after the context was attached to the thread" % late[0], path)
    ck.ob("C07.1-ONE-PER-THREAD", cn.site("attach is the last fallible step"), badc is None and nc > 0,
          "%d path(s): the slot is set after every fallible step" % nc if badc is None else badc[0],
          path=rules.fmt_path(cn, badc[1]) if badc else None)

    # ------------------------------------------------------------------ 2. no context => error before any effect
    ck.rule("C07.2-NOCTX", "R-GUARD-TABLE: every public m_ctx_* entry point except m_ctx_register obtains the context through "
            "m_ctx() and returns -EPIPE (NULL for pointer getters) before any effect when there is none; the thread-specific "
            "slot is read only by m_ctx() and m_ctx_register()", floor=14)
    entry_points = [f for f in P.funcs if f.unit == "Lib/core/ctx.c" and f.public and f.name.startswith("m_ctx_") and f.name != "m_ctx_register"]
    ck.need(len(entry_points) >= 13, "only %d public m_ctx_* entry points found" % len(entry_points))
    for f in entry_points:
        ck.analysed(f)
        decl = [ev for ev in f.events() if ev.kind == "decl" and ev.rhs is not None and S(ev.rhs) == "m_ctx()"]
        if not decl:
            ck.ob("C07.2-NOCTX", f.site("c=m_ctx()"), False, "%s does not obtain its context through m_ctx()" % f.name)
            continue
        var = decl[0].e["name"]
        rv = 0 if f.ret_t.endswith("*") else -32
        check_guarded_entry(ck, X, f, "C07.2-NOCTX", [((var, True), rv)], f.name,
                            effect_filter=lambda ev: not (ev.kind == "call" and ev.callee == "m_ctx"))
    for ev in P.calls_to("pthread_getspecific"):
        ck.call_sites += 1
        ck.ob("C07.2-NOCTX", ev.fn.site("getspecific"), ev.fn.name in ("m_ctx", "m_ctx_register"),
              "pthread_getspecific at line %d in %s" % (ev.line, ev.fn.name), nontrivial=False)

    # ------------------------------------------------------------------ 3. teardown
    dereg = P.fn("m_ctx_deregister")
    ck.analysed(dereg)
    ck.rule("C07.3-TEARDOWN-ATTACHED", "R-TYPESTATE-CTX: after pthread_setspecific(key, NULL) no call on any path may reach a function "
            "that looks up the calling thread's context (m_ctx()) — in particular the module pass of m_ctx_deregister runs while "
            "the thread is still attached", floor=1)
    needs_ctx = cg.may_reach_set(lambda n: isinstance(n, tuple) and n == ("Lib/core/ctx.c", "m_ctx"))
    for f in P.funcs:
        dets = [ev for ev in f.calls("pthread_setspecific") if len(ev.args) > 1 and strip(ev.args[1])["k"] == "null"]
        if not dets:
            continue

        def step(st, ev, dets=dets):
            if any(ev is d for d in dets):
                return st | {"detached"}
            if ev.kind == "call" and ev.callee == "pthread_setspecific":
                return st - {"detached"}
            return st
        IN = rules.tag_analysis(f, step, must=False)
        bad = []
        for ev in f.calls():
            st = f.state_before(IN, ev, step)
            if st and "detached" in st and cg.event_may_reach(ev, needs_ctx):
                tg = [t for t in cg.callees_of_event(ev) if isinstance(t, Func)]
                chain = None
                for t in tg:
                    if t.key in needs_ctx:
                        chain = cg.chain(t.key, lambda n: n == ("Lib/core/ctx.c", "m_ctx")) or [t.key]
                        break
                bad.append((ev, chain))
        ck.ob("C07.3-TEARDOWN-ATTACHED", f.site("after-detach"), not bad,
              "no context lookup is reachable after the detach" if not bad else
              "call '%s' at line %d runs after pthread_setspecific(key, NULL) and reaches m_ctx() via %s"
              % (S(bad[0][0].e)[:70], bad[0][0].line, " -> ".join(lm.fmt_key(k) for k in (bad[0][1] or []))),
              witness=[("del_event", f.unit, f.name, d.block.id, d.idx) for d in dets])

    ck.rule("C07.3-TEARDOWN-PASS", "R-MUST-PASS + R-ITER-ZERO: every path of m_ctx_deregister that returns success runs a pass over "
            "c->modules whose callback deregisters the module and returns 0 on all paths, then detaches the thread exactly once "
            "and drops the context reference exactly once, in this order", floor=2)
    passes = [ev for ev in dereg.calls("m_map_iterate") if ev.args and S(ev.args[0]).endswith("->modules")]
    if not passes:
        # the pass written as a loop over a map *iterator*: each mod_deregister removes its own map entry behind the iterator's back; the
        # entry the open-addressing map shifts into the vacated slot is then never visited (m_map_iterate re-examines the slot, the
        # iterator does not unless the removal goes through it)
        itn = [e for e in dereg.calls("m_map_itr_new") if e.args and S(e.args[0]).endswith("->modules")]
        rm_elsewhere = [e for e in dereg.calls() if e.block.id in dereg.in_loop_blocks() and e.callee != "m_map_itr_remove"
                        and cg.event_may_reach(e, cg.may_reach_set(lambda n_: n_ in {f_.key for f_ in P.funcs if f_.name == "m_map_remove"}))]
        if itn and rm_elsewhere:
            ck.ob("C07.3-TEARDOWN-PASS", dereg.site("pass over the modules"), False,
                  "m_ctx_deregister walks c->modules with a map iterator while '%s' (line %d) removes entries from that map by key: entries shifted into "
                  "a vacated slot are skipped, so with enough modules some are never deregistered (no on_stop, not ZOMBIE, leaked with the context)"
                  % (S(rm_elsewhere[0].e)[:60], rm_elsewhere[0].line))
            passes = None
    ck.need(passes is None or passes, "m_ctx_deregister has no pass over the modules")
    passes = passes or []
    cbs = set()
    for ev in passes:
        cbs |= cg.pt.vals(ev.args[1], dereg)
    for name in sorted(cbs):
        cb = P.resolve(dereg, name)
        ck.need(cb is not None, "teardown callback %s not found" % name)
        ck.analysed(cb)
        rv = rules.returned_values(P, cb)
        reaches = ("Lib/core/mod.c", "mod_deregister") in cg.closure([cb.key])
        ck.ob("C07.3-TEARDOWN-PASS", cb.site("return"), rv == {0} and reaches,
              "%s may return %s; reaches mod_deregister: %s" % (name, sorted(rv, key=str), reaches))
    dets = [ev for ev in dereg.calls("pthread_setspecific")]
    unrefs = [ev for ev in dereg.calls("m_mem_unref")] + [ev for ev in dereg.calls("m_mem_unrefp")]
    bad = None
    n = 0
    for path in dereg.paths():
        evs = list(rules.path_events(dereg, path))
        rets = [e for e in evs if e.kind == "ret"]
        if not rets:
            continue
        rv = cval(rets[-1].e)
        assumed = rules.path_assumes(path)
        succ = (rv == 0) or (rv is None and any(a.endswith("ret") and p is False for a, p in assumed.items())) \
            or (rv is None and assumed.get("(ret == 0)") is True)
        if rv is not None and rv != 0:
            continue
        if rv is None and not succ:
            # failure path of the detach itself
            continue
        n += 1
        ids = [id(e) for e in evs]
        npass = [ids.index(id(p)) for p in passes if id(p) in ids]
        ndet = [ids.index(id(d)) for d in dets if id(d) in ids]
        nunr = [ids.index(id(u)) for u in unrefs if id(u) in ids and S(u.args[0]).lstrip("&") == "c"]
        if len(npass) < 1:
            bad = ("successful path without a module pass", path)
        elif len(ndet) != 1:
            bad = ("successful path detaches the thread %d time(s)" % len(ndet), path)
        elif len(nunr) != 1:
            bad = ("successful path drops the context reference %d time(s)" % len(nunr), path)
        elif not (max(npass) < ndet[0] < nunr[0]):
            bad = ("order must be: module pass, detach, unref", path)
        if bad:
            break
    ck.need(n > 0, "m_ctx_deregister has no successful path")
    ck.ob("C07.3-TEARDOWN-PASS", dereg.site("pass;detach;unref"), bad is None,
          "all %d successful path(s): module pass, then one detach, then one unref" % n if bad is None else bad[0],
          path=rules.fmt_path(dereg, bad[1]) if bad else None,
          witness=[("del_event", dereg.unit, dereg.name, e.block.id, e.idx) for e in passes + dets + unrefs])

    # re-entrance of the auto-release during the pass
    ck.rule("C07.3-NO-REENTRY", "R-GUARD: the automatic release in mod_deregister (m_ctx_deregister() when the last module goes) is "
            "guarded by c->state == M_CTX_IDLE; the teardown pass of m_ctx_deregister therefore runs with the context state set "
            "to a non-IDLE constant so that deregistering the last module inside the pass cannot release the context a second time", floor=1)
    md = P.fn("mod_deregister")
    ck.analysed(md)
    autos = [ev for ev in md.calls("m_ctx_deregister")]
    ck.need(autos, "mod_deregister lost its automatic context release")
    idle_atom = None
    for ev in autos:
        facts = X.facts(md, ev)
        if has(facts, *EQ("c->state", IDLE)):
            idle_atom = EQ("c->state", IDLE)
    if idle_atom is None:
        # Is the decision still there, but taken too early?  A local that holds the test of the context (state / population) and is
        # defined before a call that can run a user callback (stop() -> on_stop()) describes the context as it was before that callback:
        # the hook may register a successor module, start a loop, ...  That is a violation, not a lost anchor.
        ucb = X.usercb_set()
        cd0 = md.control_deps()
        stale = None
        for ev in autos:
            for b_ in cd0.get(ev.block.id, ()):
                t_ = md.blocks[b_].term
                if not t_ or t_.get("cond") is None:
                    continue
                names = {a_ for (a_, _p) in atoms(t_["cond"], True)}
                for d in md.events():
                    if d.kind in ("decl", "assign") and d.lhs is not None and d.rhs is not None and S(d.lhs) in names \
                            and ("->state" in S(d.rhs) or "m_map_len(" in S(d.rhs) or "m_ctx_len(" in S(d.rhs)):
                        mid = [k for k in md.events() if k.kind == "call" and X.cg.event_may_reach(k, ucb)
                               and rules.may_precede(md, d, k) and rules.may_precede(md, k, ev)]
                        if mid:
                            stale = (S(d.lhs), d.line, mid[0])
        if stale:
            ck.ob("C07.3-NO-REENTRY", md.site("release decided after the last callback"), False,
                  "the automatic release at line %d is decided by '%s', computed at line %d BEFORE %s (line %d) can run the module's "
                  "on_stop() hook: a hook that registers a successor module (or starts a loop) leaves a context that is no longer empty "
                  "and idle, and it is released all the same — the new module becomes a ZOMBIE and the thread loses its context"
                  % (autos[0].line, stale[0], stale[1], stale[2].callee or "an indirect call", stale[2].line))
    ck.need(idle_atom is not None or ck_has_violation(ck, "C07.3-NO-REENTRY"),
            "auto-release in mod_deregister is no longer guarded by the context state (rule needs re-reading)")

    def step_state(st, ev):
        if ev.kind == "assign" and S(ev.lhs).endswith("->state") and strip(ev.lhs).get("rec") == "_ctx":
            v = cval(ev.rhs)
            if v is not None and v != IDLE:
                return st | {"nonidle"}
            return st - {"nonidle"}
        return st
    IN = rules.tag_analysis(dereg, step_state, must=True)
    for ev in passes:
        st = dereg.state_before(IN, ev, step_state)
        setters = [w for w in dereg.events() if w.kind == "assign" and S(w.lhs).endswith("->state")]
        ck.ob("C07.3-NO-REENTRY", dereg.site("state!=IDLE during pass"), st is not None and "nonidle" in st,
              "module pass at line %d runs with the context state %s" % (ev.line, "non-IDLE" if st and "nonidle" in st else
                                                                          "still IDLE: the last mod_deregister re-enters m_ctx_deregister"),
              witness=[("del_event", dereg.unit, dereg.name, w.block.id, w.idx) for w in setters])

    # the teardown marker must also close the registration gate: a module registered from a callback during the pass would survive it
    markers = sorted({cval(w.rhs) for w in dereg.events() if w.kind == "assign" and S(w.lhs).endswith("->state") and cval(w.rhs) not in (None, IDLE, E["M_CTX_LOOPING"])
                      and any(dereg.ev_dominates(w, pp) for pp in passes)})
    mr0 = P.fn("m_mod_register")
    puts0 = [e for e in mr0.calls("m_map_put") if S(e.args[0]).endswith("->modules")]
    okgate = bool(markers) and bool(puts0) and all(has(X.facts(mr0, e, passed=True), "(c->state == %d)" % markers[0], False) for e in puts0)
    ck.ob("C07.3-NO-REENTRY", mr0.site("no registration during teardown"), okgate,
          "m_mod_register refuses while the context carries the teardown marker (state == %s)" % markers if okgate else
          "m_mod_register inserts into c->modules without testing the teardown marker %s: a module registered from an on_stop() callback during "
          "m_ctx_deregister's pass is not deregistered and keeps the released context alive" % markers)

    # ------------------------------------------------------------------ 4. looping context refuses
    ck.rule("C07.4-LOOPING-REFUSES", "R-GUARD: c->state == M_CTX_IDLE dominates every effect of m_ctx_deregister; the failing edge "
            "returns a negative code without effect", floor=1)
    check_guarded_entry(ck, X, dereg, "C07.4-LOOPING-REFUSES", [(EQ("c->state", IDLE), None)], "m_ctx_deregister",
                        effect_filter=lambda ev: not (ev.kind == "call" and ev.callee == "m_ctx"))
    gs = guard_retvals(dereg, *EQ("c->state", IDLE))
    ck.ob("C07.4-LOOPING-REFUSES", dereg.site("negative"), bool(gs) and all(isinstance(g.retval, int) and g.retval < 0 for g in gs),
          "looping context: m_ctx_deregister returns %s" % [g.retval for g in gs], nontrivial=False)

    # ------------------------------------------------------------------ 5. auto-release sites agree
    ck.rule("C07.5-AUTORELEASE", "R-SIBLING: both automatic release sites (mod_deregister, loop_stop) call m_ctx_deregister() exactly "
            "under {m_map_len(c->modules) == 0, !(c->flags & M_CTX_PERSIST)}; mod_deregister additionally under state == IDLE, "
            "loop_stop after it stored IDLE; nobody else calls m_ctx_deregister", floor=2)
    ck.need("M_CTX_PERSIST" in E, "M_CTX_PERSIST vanished")
    PERS = E["M_CTX_PERSIST"]
    sites = list(P.calls_to("m_ctx_deregister"))
    for ev in sites:
        f = ev.fn
        if f.name == "main":
            continue
        ck.analysed(f)
        ck.call_sites += 1
        facts = X.facts(f, ev)
        want = [("m_map_len(c->modules)", False), ("(c->flags & %d)" % PERS, False)]
        ok = f.name in ("mod_deregister", "loop_stop") and all(has(facts, a, p) for a, p in want)
        if f.name == "mod_deregister":
            ok = ok and has(facts, *EQ("c->state", IDLE))
        if f.name == "loop_stop":
            stores = [w for w in f.events() if w.kind == "assign" and S(w.lhs) == "c->state"]
            ok = ok and stores and all(cval(w.rhs) == IDLE and f.ev_dominates(w, ev) for w in stores)
        ck.ob("C07.5-AUTORELEASE", f.site("m_ctx_deregister()"), bool(ok),
              "automatic release at line %d in %s under %s" % (ev.line, f.name, fmt_facts(facts)))
        if f.name == "mod_deregister":
            # "immediately if idle": the decision looks at the module map, the persist flag, the context state, who asked and whether the
            # deregistration went through — at nothing else (e.g. not at whether a hook is running)
            cd_ = f.control_deps()
            gb_ = {g.block for g in rules.bailouts(f)}
            KEYS = ("->flags", "m_map_len(", "->modules", "->state", "m_ctx_len(", "ret")
            extra = []
            for b_ in cd_.get(ev.block.id, ()):
                t_ = f.blocks[b_].term
                if b_ in gb_ or not t_ or t_.get("cond") is None:
                    continue
                for (a_, p_) in rules.resolve_atoms(f, atoms(t_["cond"], True)):
                    pass
                ats_ = rules.resolve_atoms(f, atoms(t_["cond"], True))
                fu_ = f.params[1]["name"] if len(f.params) > 1 else "from_user"
                if not any(any(k_ in a_ for k_ in KEYS) or a_ == fu_ for (a_, _p) in ats_):
                    extra.append((S(t_["cond"]), t_.get("line")))
            ck.ob("C07.5-AUTORELEASE", f.site("release decided by map, persist flag and state only"), not extra,
                  "the automatic release depends on nothing but the emptied module map, the persist flag, the idle state and the outcome of the "
                  "deregistration" if not extra else
                  "the automatic release additionally depends on '%s' (line %s): an idle, non-persistent context whose last module is deregistered "
                  "while that condition fails stays attached to the thread for good (m_ctx_register then reports -EEXIST)" % extra[0])
    ck.need(len([e for e in sites if e.fn.name != "main"]) >= 2, "an automatic release site vanished")
    # a context is not released under the feet of a caller that goes on using it: m_mod_register deregisters the module it replaces and
    # then registers the successor in the same context, so that internal deregistration must not be able to trigger the automatic release
    mdr = P.fn("mod_deregister", "Lib/core/mod.c")
    mreg = P.fn("m_mod_register", "Lib/core/mod.c")
    rel_sites = [e for e in sites if e.fn is mdr]
    inner = [e for e in mreg.calls("mod_deregister")]
    uses_after = bool(inner) and any(e.kind == "call" and e.callee == "m_map_put" and any(inner[0] in list(rules.path_events(mreg, p_)) and e in list(rules.path_events(mreg, p_))
                                                                                      for p_ in mreg.paths()) for e in mreg.events())
    fu = mdr.params[1]["name"] if len(mdr.params) > 1 else None
    okrep = bool(rel_sites) and bool(inner) and fu is not None and all(has(X.facts(mdr, e, passed=True), fu) for e in rel_sites) \
        and all(len(e.args) > 1 and cval(e.args[1]) == 0 for e in inner)
    ck.ob("C07.5-AUTORELEASE", mreg.site("replace keeps the context"), okrep or not uses_after,
          "the automatic release in mod_deregister is reserved to user deregistrations (%s); m_mod_register's internal one passes false" % fu if okrep else
          "m_mod_register deregisters the module it replaces through a call that can release the (now empty, idle, non-persistent) context, then registers the "
          "successor into that released context: the call reports success but the thread has no context any more")

    # ------------------------------------------------------------------ 6. finalize gate
    ck.rule("C07.6-FINALIZE", "R-GUARD: the insertion into c->modules in m_mod_register is dominated by !c->finalized (else a negative "
            "code, no effect); m_ctx_finalize sets the flag; nobody clears it", floor=2)
    mr = P.fn("m_mod_register")
    ck.analysed(mr)
    puts = [ev for ev in mr.calls("m_map_put") if S(ev.args[0]).endswith("->modules")]
    ck.need(puts, "m_mod_register no longer inserts into c->modules")
    for ev in puts:
        facts = X.facts(mr, ev)
        gs = guard_retvals(mr, "c->finalized", False)
        ok = has(facts, "c->finalized", False) and gs and all(isinstance(g.retval, int) and g.retval < 0 and not g.effects_in_bail for g in gs)
        ck.ob("C07.6-FINALIZE", mr.site("m_map_put(modules)"), bool(ok), "insertion at line %d under %s" % (ev.line, fmt_facts(facts)),
              witness=[("drop_branch", mr.unit, mr.name, g.block) for g in gs])
    # also: all effects of m_mod_register come after the gate
    check_guarded_entry(ck, X, mr, "C07.6-FINALIZE", [(("c->finalized", False), None)], "m_mod_register",
                        effect_filter=lambda ev: not (ev.kind == "call" and ev.callee == "m_ctx"))
    wr = list(P.writes_to_field("_ctx", "finalized"))
    ck.ob("C07.6-FINALIZE", "Lib/core/ctx.c:_ctx.finalized writers", bool(wr) and all(w.fn.name == "m_ctx_finalize" and cval(w.rhs) == 1 for w in wr),
          "writers of finalized: %s" % [(w.fn.name, S(w.rhs)) for w in wr], nontrivial=False)

    # ------------------------------------------------------------------ 7. key initialised before use
    ck.rule("C07.7-KEY-ONCE", "R-TYPESTATE-CTX: pthread_getspecific/pthread_setspecific(key) is reached only after "
            "pthread_once(&key_once, make_key) has certainly run (in the same function, in a callee that always runs it, or at every "
            "call site of the enclosing internal function); make_key creates the key", floor=3)
    results, entry, ensures = key_once_analysis(P)
    nuse = 0
    for ev in P.calls_to(KEY_FUNCS):
        f = ev.fn
        if not (ev.args and S(ev.args[0]) == "key"):
            continue
        nuse += 1
        ck.analysed(f)
        ck.call_sites += 1
        IN, step = results[f.key]
        st = f.state_before(IN, ev, step)
        ok = st is not None and "once" in st
        ck.ob("C07.7-KEY-ONCE", f.site("%s(key)" % ev.callee), ok,
              "%s(key) at line %d in %s: pthread_once %s" % (ev.callee, ev.line, f.name,
                                                            "certainly ran before" if ok else "may not have run yet (key is uninitialised: value 0 may belong to another library)"))
    ck.need(nuse >= 3, "uses of the thread-specific key vanished")
    mk = P.fn("make_key")
    ck.ob("C07.7-KEY-ONCE", mk.site("pthread_key_create"), any(S(e.args[0]) == "&key" for e in mk.calls("pthread_key_create")),
          "make_key creates the key", nontrivial=False)

    ck.rule("C07.8-FLAG-BITS", "R-FLAG-BITS: m_ctx_flags are single distinct bits", floor=1)
    from props.flags import flag_bits
    flag_bits(ck, P, "C07.8-FLAG-BITS", "m_ctx_flags", "Lib/core")

    ck.not_decided += ["that all modules become ZOMBIE and are released for every state mix at teardown (depends on C01/C04 as wholes)",
                       "module operations on a thread without context (decided under C14)"]
