"""R-CMP-NARROW: comparators must not return the implicit narrowing of a wide/unbounded subtraction."""
import lm
from lm import S, strip, cval, walk

WIDE = ("long", "unsigned long", "long double", "double", "float", "unsigned int", "unsigned long long", "long long",
        "uint64_t", "size_t", "ptrdiff_t", "ssize_t")


def _is_relational(e):
    e = strip(e)
    return e is not None and e["k"] == "bin" and e["op"] in ("<", ">", "<=", ">=", "==", "!=")


def narrowing_findings(f, bounded_int_fields=()):
    """List of (event, reason) for every return of f that narrows/overflows a subtraction.
    bounded_int_fields: field names whose values public guards keep in [0, INT_MAX] (int - int accepted for them)."""
    out = []
    # resolve `return x` with x a local defined by one expression
    defs = {}
    for ev in f.events():
        if ev.kind in ("decl", "assign") and ev.rhs is not None and ev.lhs is not None and strip(ev.lhs)["k"] == "var":
            defs.setdefault(strip(ev.lhs)["name"], []).append(ev.rhs)
    for ev in f.events():
        if ev.kind != "ret" or ev.e is None:
            continue
        cands = [ev.e]
        e0 = strip(ev.e)
        if e0 is not None and e0["k"] == "var" and e0["name"] in defs:
            cands = defs[e0["name"]]
        for e in cands:
            outer = e
            # peel numeric implicit casts, remembering the widest source type
            casts = []
            while outer is not None and outer.get("k") in ("icast", "cast"):
                casts.append(outer)
                outer = outer["e"]
            inner = outer
            if inner is None or inner.get("k") != "bin" or inner["op"] != "-":
                continue
            l, r = inner["l"], inner["r"]
            if _is_relational(l) and _is_relational(r):
                continue            # (a > b) - (a < b)
            t = inner.get("t", "")
            if casts:
                frm = casts[-1].get("from_ct", "")
                out.append((ev, "difference of type '%s' is implicitly converted to int (%s): values further apart than INT_MAX "
                                "compare with the wrong sign or as equal" % (frm or t, casts[-1].get("ck"))))
                continue
            if t == "int":
                names = set()
                for side in (l, r):
                    for n in walk(side):
                        if n.get("k") == "member":
                            names.add(n["field"])
                            break
                        if n.get("k") == "var" and n.get("vk") in ("local", "param"):
                            names.add(n["name"])
                            break
                if names and names <= set(bounded_int_fields):
                    continue
                out.append((ev, "int difference '%s' of unbounded operands can overflow" % S(inner)))
        # a three-way result derived from a full-width difference still wraps: (intptr_t)a - (intptr_t)b overflows for operands
    # more than half the range apart and the order becomes cyclic
    p0 = {p["name"] for p in f.params}
    for ev in f.events():
        e = ev.rhs if ev.kind in ("decl", "assign") else (ev.e if ev.kind == "ret" else None)
        if e is None:
            continue
        for n in walk(e):
            if n.get("k") == "bin" and n["op"] == "-" and not (_is_relational(n["l"]) and _is_relational(n["r"])):
                t = n.get("t", "")
                roots = set()
                for side in (n["l"], n["r"]):
                    for m in walk(side):
                        if m.get("k") == "var" and m.get("name") in p0:
                            roots.add(m["name"])
                wide = any(w in t for w in ("long", "intptr", "ptrdiff", "size_t", "uint64", "int64")) or t.endswith("*")
                if len(roots) >= 2 and wide and not any(x[0] is ev for x in out):
                    out.append((ev, "order derived from the full-width difference '%s' (%s): it wraps for operands more than half the range apart, "
                                    "the order becomes cyclic" % (S(n), t)))
    return out
