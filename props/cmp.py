"""R-CMP-NARROW: comparators must not return the implicit narrowing of a wide/unbounded subtraction."""
import lm
from lm import S, strip, cval, walk

WIDE = ("long", "unsigned long", "long double", "double", "float", "unsigned int", "unsigned long long", "long long",
        "uint64_t", "size_t", "ptrdiff_t", "ssize_t")


def _is_relational(e):
    e = strip(e)
    return e is not None and e["k"] == "bin" and e["op"] in ("<", ">", "<=", ">=", "==", "!=")


def narrowing_findings(f, bounded_int_fields=()):
    """List of (event, reason) for every return of f that narrows/overflows a subtraction.
    bounded_int_fields: field names whose values public guards keep in [0, INT_MAX] (int - int accepted for them)."""
    out = []
    # resolve `return x` with x a local defined by one expression
    defs = {}
    for ev in f.events():
        if ev.kind in ("decl", "assign") and ev.rhs is not None and ev.lhs is not None and strip(ev.lhs)["k"] == "var":
            defs.setdefault(strip(ev.lhs)["name"], []).append(ev.rhs)
    for ev in f.events():
        if ev.kind != "ret" or ev.e is None:
            continue
        cands = [ev.e]
        e0 = strip(ev.e)
        if e0 is not None and e0["k"] == "var" and e0["name"] in defs:
            cands = defs[e0["name"]]
        for e in cands:
            outer = e
            # peel numeric implicit casts, remembering the widest source type
            casts = []
            while outer is not None and outer.get("k") in ("icast", "cast"):
                casts.append(outer)
                outer = outer["e"]
            inner = outer
            if inner is None or inner.get("k") != "bin" or inner["op"] != "-":
                continue
            l, r = inner["l"], inner["r"]
            if _is_relational(l) and _is_relational(r):
                continue            # (a > b) - (a < b)
            t = inner.get("t", "")
            if casts:
                frm = casts[-1].get("from_ct", "")
                out.append((ev, "difference of type '%s' is implicitly converted to int (%s): values further apart than INT_MAX "
                                "compare with the wrong sign or as equal" % (frm or t, casts[-1].get("ck"))))
                continue
            if t == "int":
                names = set()
                for side in (l, r):
                    for n in walk(side):
                        if n.get("k") == "member":
                            names.add(n["field"])
                            break
                        if n.get("k") == "var" and n.get("vk") in ("local", "param"):
                            names.add(n["name"])
                            break
                if names and names <= set(bounded_int_fields):
                    continue
                out.append((ev, "int difference '%s' of unbounded operands can overflow" % S(inner)))
    return out
