"""Rules shared by the container properties (C05, C11, C12): node bookkeeping, destructor discipline."""
import lm
import rules
from lm import S, strip, cval, Func
from props.common import has, fmt_facts


def is_alloc_call(e):
    e = strip(e)
    if e is None or e["k"] != "call" or e.get("callee"):
        return False
    fe = strip(e["fn"])
    return fe is not None and fe["k"] == "member" and fe.get("rec") == "m_memhook_t" and fe["field"] in ("_calloc", "_malloc")


def is_free_call(ev):
    if ev.kind != "call" or ev.callee:
        return False
    fe = strip(ev.e["fn"])
    return fe is not None and fe["k"] == "member" and fe.get("rec") == "m_memhook_t" and fe["field"] == "_free"


def node_bookkeeping(ck, P, X, rule, unit, elem_types, len_rec, len_field="len"):
    """On every acyclic path of every function of `unit`: #node allocations that survive == #len++ and
    #node frees == #len--."""
    n = 0
    # a node type may be spelt by its typedef name or by its struct tag, with or without top-level const
    spell = set()
    for t_ in elem_types:
        spell.add(t_)
    spell.add("struct _elem *")      # every node typedef of Lib/structs names a `struct _elem` of its own unit

    def _is_elem(node_or_ev, decl=False):
        cands = [node_or_ev.get("t", ""), node_or_ev.get("ct", "")]
        for c in cands:
            c = (c or "").replace("const ", "").replace("*const", "*").replace("* const", "*").strip()
            if c in spell:
                return True
        return False
    for f in [f for f in P.funcs if f.unit == unit]:
        allocs, frees, incs, decs = [], [], [], []
        for ev in f.events():
            if ev.kind in ("decl", "assign") and ev.rhs is not None and is_alloc_call(ev.rhs):
                if _is_elem(ev.e if ev.kind == "decl" else (strip(ev.lhs) or {})):
                    allocs.append(ev)
            elif is_free_call(ev) and ev.args and _is_elem(strip(ev.args[0]) or {}):
                frees.append(ev)
            elif ev.kind == "incdec":
                l = strip(ev.lhs)
                if l["k"] == "member" and l["field"] == len_field and l["rec"] == len_rec:
                    (incs if ev.e["op"] == "++" else decs).append(ev)
            elif ev.kind == "assign" and ev.e["op"] in ("+=", "-=", "="):
                l = strip(ev.lhs)
                if l["k"] == "member" and l["field"] == len_field and l["rec"] == len_rec:
                    ck.ob(rule, f.site("len store"), False, "unmodelled store to %s.%s at line %d: %s" % (len_rec, len_field, ev.line, S(ev.e)))
        if not (allocs or frees or incs or decs):
            continue
        ck.analysed(f)
        n += 1
        bad = None
        npaths = 0
        for path in f.paths():
            evs = list(rules.path_events(f, path))
            ids = {id(e) for e in evs}
            assumed = rules.path_assumes(path)
            na = 0
            for a in allocs:
                if id(a) in ids:
                    var = a.e.get("name") if a.kind == "decl" else S(a.lhs)
                    if assumed.get(var) is False:
                        continue      # allocation failed on this path
                    na += 1
            nf = sum(1 for x in frees if id(x) in ids)
            ni = sum(1 for x in incs if id(x) in ids)
            nd = sum(1 for x in decs if id(x) in ids)
            npaths += 1
            if na != ni:
                bad = ("%d node allocation(s) but %d length increment(s)" % (na, ni), path)
            elif nf != nd:
                bad = ("%d node free(s) but %d length decrement(s)" % (nf, nd), path)
            if bad:
                break
        ck.ob(rule, f.site("len<->nodes"), bad is None,
              "%d path(s): node allocations pair with len++ and node frees with len--" % npaths if bad is None else bad[0],
              path=rules.fmt_path(f, bad[1]) if bad else None,
              witness=[("del_event", f.unit, f.name, e.block.id, e.idx) for e in incs + decs])
    return n


def dtor_discipline(ck, P, X, rule, unit, rec, allowed, handing_back, must_reach):
    """Element destructor (indirect call through <rec>.dtor): only in `allowed` functions, under a non-NULL test of the
    same pointer, never reachable from the handing-back operations, reachable from every op in must_reach."""
    cg = X.cg
    holders = set()
    for f in [f for f in P.funcs if f.unit == unit]:
        for ev in rules.dtor_calls(f, {rec}):
            holders.add(f.key)
            ck.analysed(f)
            ck.call_sites += 1
            facts = X.facts(f, ev)
            dt = S(ev.e["fn"])
            ok = f.name in allowed and has(facts, dt, True) and ev.block.id not in f.in_loop_blocks()
            ck.ob(rule, f.site("dtor call"), ok, "destructor '%s(%s)' at line %d in %s under %s"
                  % (dt, S(ev.args[0]) if ev.args else "", ev.line, f.name, fmt_facts(facts)))
    for name in handing_back:
        f = P.fn(name, unit)
        ck.analysed(f)
        reach = cg.closure([f.key]) & holders
        ck.ob(rule, f.site("no dtor"), not reach, "%s hands the element back to the caller and %s"
              % (name, "never reaches a destructor call" if not reach else "reaches the destructor via %s" % sorted(lm.fmt_key(k) for k in reach)))
    for name in must_reach:
        f = P.fn(name, unit)
        ck.analysed(f)
        reach = cg.closure([f.key]) & holders
        ck.ob(rule, f.site("dtor reached"), bool(reach), "%s drops elements and %s" %
              (name, "reaches the destructor call in %s" % sorted(lm.fmt_key(k) for k in reach) if reach else "NEVER reaches a destructor call"))
    return holders


def itr_removed_guards(ck, P, X, rule, unit, prefix):
    """Iterator operations on the current element refuse (negative code / NULL) once that element was removed through the
    iterator: <prefix>_itr_remove / _itr_get_data / _itr_set_data carry a bail-out guard on !itr->removed; _itr_remove sets the flag
    and _itr_next clears it."""
    import rules as _r
    n = 0
    for op in ("itr_remove", "itr_get_data", "itr_set_data", "itr_get_key"):
        f = P.fn("%s_%s" % (prefix, op), unit, required=False)
        if f is None:
            continue
        n += 1
        ck.analysed(f)
        gs = [g for g in _r.bailouts(f) if ("itr->removed", False) in g.cont_atoms]
        ok = bool(gs) and all((isinstance(g.retval, int) and g.retval <= 0) for g in gs)
        eff = [e for e in f.events() if e.kind in ("assign", "incdec", "call") and not (e.kind == "call" and e.callee is None and "m_logger" in str(e.e.get("fn")))
               and e.kind != "call" or (e.kind == "call" and e.callee in ("clear_elem", "remove_node"))]
        facts_ok = all(("itr->removed", False) in (X.facts(f, e, passed=True) or ()) for e in eff if e.kind != "call" or e.callee)
        ck.ob(rule, f.site("refuses after removal"), ok and facts_ok,
              "%s refuses when the current element was already removed (guard !itr->removed -> %s)" % (f.name, [g.retval for g in gs]) if ok and facts_ok else
              "%s no longer tests itr->removed before acting: a second call on the same position operates on whatever node the stale slot designates" % f.name,
              witness=[("drop_branch", f.unit, f.name, g.block) for g in gs])
    return n


def node_holders(ck, P, X, rule, unit, container_rec, node_typedef, structural):
    """R-WHO-HOLDS: the container struct keeps node pointers only in its structural fields; any further node-pointer field (a lookup
    cache, a "last" pointer) must be re-stored in every function that frees a node, on the way to or from the free."""
    rec = P.records_by_unit.get((unit, container_rec)) or P.record(container_rec)
    spell = {node_typedef + " *", "struct _elem *"}
    holders = [f_["name"] for f_ in rec["fields"] if f_["t"].replace("const ", "").strip() in spell]
    extra = [h for h in holders if h not in structural]
    if not extra:
        ck.ob(rule, "%s:%s node holders" % (unit, container_rec), set(structural) <= set(holders),
              "node pointers are held only in the structural field(s) %s" % sorted(holders), nontrivial=False)
        return
    for f in [f for f in P.funcs if f.unit == unit]:
        frees = [e for e in f.events() if is_free_call(e) and e.args and
                 ((strip(e.args[0]) or {}).get("t", "").replace("const ", "").strip() in spell or (strip(e.args[0]) or {}).get("ct", "") == "struct _elem *")]
        for fr in frees:
            for h in extra:
                st = [e for e in f.events() if e.kind == "assign" and strip(e.lhs)["k"] == "member" and strip(e.lhs)["field"] == h
                      and strip(e.lhs).get("rec") == container_rec]
                ok = any(f.ev_dominates(e, fr) or f.ev_dominates(fr, e) for e in st)
                ck.ob(rule, f.site("free keeps %s.%s valid" % (container_rec, h)), ok,
                      "%s re-stores %s.%s around the node free at line %d" % (f.name, container_rec, h, fr.line) if ok else
                      "%s frees a node (line %d) while %s.%s may still point to it: the extra node pointer kept in the container is not invalidated on "
                      "this removal path (iterator removal, clear and free reach it) — a later use dereferences freed memory or reports a removed element"
                      % (f.name, fr.line, container_rec, h))
