"""C12 — queue, stack, list: structural clauses (DESIGN §4 C12)."""
import re
import lm
import rules
from lm import S, strip, cval, walk
from props.common import Ctx, has, fmt_facts
from props.containers import node_holders, node_bookkeeping, dtor_discipline, is_free_call, itr_removed_guards

LEVEL = "other"
Q, ST, L = "Lib/structs/queue.c", "Lib/structs/stack.c", "Lib/structs/list.c"


def _mentions_field(s, names):
    return any(("->" + n) in s or ("." + n) in s for n in names)


def run(ck, P):
    X = Ctx(P)

    # ------------------------------------------------------------------ 1. tail discipline
    ck.rule("C12.1-TAIL", "R-SHAPE + R-WHO-WRITES: _queue.tail is written only by m_queue_enqueue, m_queue_dequeue and "
            "m_queue_itr_remove; whenever NULL may be stored into tail, that store (or that arm of a conditional expression) is "
            "control-dependent on a test that reads head or len — removing the tail empties the queue only if it is also the head", floor=3)
    writers = list(P.writes_to_field("_queue", "tail"))
    ck.need(len(writers) >= 3, "writers of _queue.tail vanished")
    for ev in writers:
        f = ev.fn
        ck.analysed(f)
        okw = f.name in ("m_queue_enqueue", "m_queue_dequeue", "m_queue_itr_remove")
        ex = rules.Expander(f)
        r = strip(ev.rhs)
        null_arms = []   # list of condition strings (None = unconditional) under which NULL is stored
        if r["k"] == "null":
            null_arms.append(None)
        elif r["k"] == "cond":
            if strip(r["a"])["k"] == "null":
                null_arms.append(ex.at(ev, r["c"]))
            if strip(r["b"])["k"] == "null":
                null_arms.append(ex.at(ev, r["c"]))
        ok = okw
        det = "store '%s' at line %d in %s" % (S(ev.e), ev.line, f.name)
        if okw and null_arms:
            facts = X.facts(f, ev)
            # expand local names inside the fact atoms
            fact_strs = [a for (a, p) in facts]
            # atoms generated at branches: re-expand their locals at the branch position is approximated by expanding at the store
            expanded = set(fact_strs)
            fact_atoms = {a for (a, p) in facts}
            for blk in f.blocks.values():
                if blk.term and blk.term.get("cond") is not None and blk.id in f.reachable():
                    if any(a in fact_atoms for (a, _p) in lm.atoms(blk.term["cond"], True)) and blk.id in f.dominators()[ev.block.id]:
                        anchor = blk.events[-1] if blk.events else ev
                        expanded.add(ex.at(anchor, blk.term["cond"]))
                        # the value a local holds at the test itself (`elem = q->head; … if (q->tail == elem)`), even if the field it
                        # was read from is re-assigned later
                        expanded.add(rules.Expander(f, stable=False).at(anchor, blk.term["cond"]))
                        expanded.add(rules.Expander(f, stable=False).at(ev, blk.term["cond"]))      # (the local may be defined by the block's last event)
            for c in null_arms:
                conds = set(expanded)
                if c is not None:
                    conds.add(c)
                if not any(_mentions_field(s, ("head", "len")) for s in conds):
                    ok = False
                    det = ("NULL is stored into tail at line %d in %s under conditions %s, none of which looks at head/len: "
                           "the queue loses its tail although elements may remain" % (ev.line, f.name, sorted(conds)))
        ck.ob("C12.1-TAIL", f.site("tail store@%s" % ("NULL" if null_arms else "node")), ok, det)

    ck.rule("C12.1-TAIL-DANGLING", "R-PAIR: on every path of queue.c that frees a node, q->tail is re-assigned or the path has tested that the freed "
            "node is not the tail — the tail never keeps pointing at freed memory", floor=2)
    for fname in ("m_queue_itr_remove", "m_queue_dequeue"):
        f = P.fn(fname, Q)
        ex = rules.Expander(f, stable=False)
        frees = [e for e in f.events() if is_free_call(e) and strip(e.args[0]).get("t") == "queue_elem *"]
        ck.need(frees, "%s no longer frees a node" % fname)
        bad = None
        n = 0
        for path in f.paths():
            evs = list(rules.path_events(f, path))
            for fr in frees:
                if fr not in evs:
                    continue
                n += 1
                node = S(fr.args[0])
                names = {node, ex.at(fr, fr.args[0])}
                # the node may have been read through another name before the links changed (elem = q->head)
                for d in f.events():
                    if d.kind == "decl" and d.e.get("name") == node and d.rhs is not None:
                        names.add(S(d.rhs))
                stores = [e for e in evs if e.kind == "assign" and S(e.lhs).endswith("->tail")]
                a = rules.path_assumes(path)
                excluded = any(v is False and "tail" in k and any(nm in k for nm in names) for k, v in a.items())
                if not stores and not excluded:
                    bad = (fr, path)
        ck.ob("C12.1-TAIL-DANGLING", f.site("tail after free"), bad is None and n > 0,
              "%d freeing path(s): tail re-assigned or known not to be the freed node" % n if bad is None else
              "node freed at line %d while q->tail may still point at it (no store to tail, no test that the node is not the tail on this path)" % bad[0].line,
              path=rules.fmt_path(f, bad[1]) if bad else None)

    ck.rule("C12.4-LIST-ITR-STEP", "R-RESET-ALL: every path through m_list_itr_next on which the iterator still designates an element resets the "
            "insert/remove compensation (itr->diff = 0): the compensation is per step and must not leak into the next one; the cursor advances "
            "exactly when diff >= 0", floor=2)
    ln = P.fn("m_list_itr_next", L)
    ck.analysed(ln)
    bad = None
    n = 0
    for path in ln.paths():
        a = rules.path_assumes(path)
        if a.get("*i->elem") is not True:
            continue
        evs = list(rules.path_events(ln, path))
        n += 1
        resets = [e for e in evs if e.kind == "assign" and S(e.lhs) == "i->diff" and cval(e.rhs) == 0]
        if not resets:
            bad = path
    ck.ob("C12.4-LIST-ITR-STEP", ln.site("diff reset"), bad is None and n > 0, "%d path(s) with a current element all reset diff" % n if bad is None else
          "a step of the list iterator leaves diff unchanged: a +1 from an earlier insert later cancels the -1 of a remove and the element after "
          "the removed one is skipped", path=rules.fmt_path(ln, bad) if bad else None)

    # ... and the step moves on exactly when no removal is outstanding: diff is -1 after a removal through the iterator (the cursor already
    # designates the successor), 0 after nothing, positive after insertions before the cursor (the cursor still designates the element the
    # caller has seen).  Decided per path for the representative values of diff.
    import re as _re
    OPS = {"==": lambda a_, b_: a_ == b_, "!=": lambda a_, b_: a_ != b_, "<": lambda a_, b_: a_ < b_, "<=": lambda a_, b_: a_ <= b_,
           ">": lambda a_, b_: a_ > b_, ">=": lambda a_, b_: a_ >= b_}

    def _consistent(asm, v):
        for atom, pol in asm.items():
            if pol is None or "i->diff" not in atom:
                continue
            m_ = _re.match(r"^\(i->diff (==|!=|<=|>=|<|>) (-?\d+)\)$", atom)
            if m_:
                if OPS[m_.group(1)](v, int(m_.group(2))) != pol:
                    return False
            elif atom == "i->diff":
                if (v != 0) != pol:
                    return False
        return True
    nstep = 0
    bad_step = None
    for path in ln.paths():
        a = rules.path_assumes(path)
        if a.get("*i->elem") is not True:
            continue
        evs = list(rules.path_events(ln, path))
        adv = [e for e in evs if e.kind == "assign" and S(e.lhs) == "i->elem" and "->next" in S(e.rhs)]
        for v in (-2, -1, 0, 1, 2):
            if not _consistent(a, v):
                continue
            nstep += 1
            if bool(adv) != (v >= 0) and bad_step is None:
                bad_step = (path, v, bool(adv))
    ck.ob("C12.4-LIST-ITR-STEP", ln.site("advance unless a removal is outstanding"), nstep >= 3 and bad_step is None,
          "%d (path, diff) cases: the cursor moves to the next node exactly when diff >= 0" % nstep if bad_step is None else
          "with diff == %d the step %s: %s" % (bad_step[1], "advances" if bad_step[2] else "does not advance",
          "after an insertion before the cursor the next step stays on the element the caller has already seen (it is visited twice)" if bad_step[1] > 0 and not bad_step[2]
          else "after a removal through the iterator the cursor already designates the successor, advancing skips it" if bad_step[1] < 0
          else "an ordinary step does not move: the iteration never ends"),
          path=rules.fmt_path(ln, bad_step[0]) if bad_step else None)

    # ------------------------------------------------------------------ 2. length and destructor pairing
    ck.rule("C12.2-LEN", "R-PAIR: per container, on every path a node allocation that succeeds pairs with len++ and a node free "
            "with len--", floor=8)
    node_bookkeeping(ck, P, X, "C12.2-LEN", Q, {"queue_elem *"}, "_queue")
    node_bookkeeping(ck, P, X, "C12.2-LEN", ST, {"stack_elem *"}, "_stack")
    node_bookkeeping(ck, P, X, "C12.2-LEN", L, {"list_node *"}, "_list")
    node_holders(ck, P, X, "C12.2-LEN", Q, "_queue", "queue_elem", {"head", "tail"})
    node_holders(ck, P, X, "C12.2-LEN", ST, "_stack", "stack_elem", {"data"})
    node_holders(ck, P, X, "C12.2-LEN", L, "_list", "list_node", {"data"})

    # lengths are exact for every number of elements: the counters are as wide as the number of elements that can exist
    for (rec_, fld_) in (("_queue", "len"), ("_stack", "len"), ("_list", "len")):
        fd_ = P.field(rec_, fld_)
        ck.ob("C12.2-LEN", "Lib/structs:%s.%s width" % (rec_, fld_), fd_.get("size", 0) >= 8,
              "%s.%s is %d bytes wide" % (rec_, fld_, fd_.get("size", 0)) + ("" if fd_.get("size", 0) >= 8 else
              ": the length wraps to 0 after %d elements — the container then looks empty although it holds them (peek/pop refuse, clear stops early, "
              "nodes leak)" % (1 << (8 * fd_.get("size", 0)))), nontrivial=False)
    ck.rule("C12.2-DTOR", "R-WHO-CALLS: the element destructor is invoked only by the removing operations, once (not in a loop), under "
            "a non-NULL test; operations handing the element back (dequeue/pop/peek/find/itr_get_data) never reach it; "
            "remove/clear/free/itr_remove always can", floor=18)
    dtor_discipline(ck, P, X, "C12.2-DTOR", Q, "_queue", {"m_queue_itr_remove", "m_queue_remove"},
                    ["m_queue_dequeue", "m_queue_peek", "m_queue_itr_get_data", "m_queue_enqueue", "m_queue_len"],
                    ["m_queue_remove", "m_queue_clear", "m_queue_free", "m_queue_itr_remove"])
    dtor_discipline(ck, P, X, "C12.2-DTOR", ST, "_stack", {"m_stack_itr_remove", "m_stack_remove"},
                    ["m_stack_pop", "m_stack_peek", "m_stack_itr_get_data", "m_stack_push", "m_stack_len"],
                    ["m_stack_remove", "m_stack_clear", "m_stack_free", "m_stack_itr_remove"])
    dtor_discipline(ck, P, X, "C12.2-DTOR", L, "_list", {"remove_node"},
                    ["m_list_find", "m_list_itr_get_data", "m_list_insert", "m_list_len", "m_list_itr_insert"],
                    ["m_list_remove", "m_list_clear", "m_list_free", "m_list_itr_remove"])
    # destructor target: the payload of the node that is freed
    for (unit, names) in ((Q, ["m_queue_itr_remove"]), (ST, ["m_stack_itr_remove"]), (L, ["remove_node"])):
        for n in names:
            f = P.fn(n, unit)
            ex = rules.Expander(f)
            dts = rules.dtor_calls(f)
            frees = [ev for ev in f.events() if is_free_call(ev)]
            ok = bool(dts) and bool(frees)
            det = ""
            for d in dts:
                arg = ex.at(d, d.args[0])
                freed = [ex.at(x, x.args[0]) for x in frees]
                ok = ok and any(arg == fr + "->userptr" for fr in freed)
                det = "destructor receives '%s', freed node is %s" % (arg, freed)
            ck.ob("C12.2-DTOR", f.site("dtor target"), ok, det or "no destructor/free pair found")

    ck.rule("C12.5-ITR-REMOVED", "R-GUARD: queue/stack iterator remove/get/set refuse once the current element was removed through the iterator; the step functions refuse only an invalid iterator", floor=6)
    itr_removed_guards(ck, P, X, "C12.5-ITR-REMOVED", Q, "m_queue")
    itr_removed_guards(ck, P, X, "C12.5-ITR-REMOVED", ST, "m_stack")
    # the step is total: it refuses an invalid iterator and nothing else — at the end of the container (also one emptied through the
    # iterator) it must get as far as releasing the iterator and clearing the caller's pointer, or a foreach loop never ends
    for (unit_, pre_) in ((Q, "m_queue"), (ST, "m_stack"), (L, "m_list")):
        f = P.fn(pre_ + "_itr_next", unit_)
        ck.analysed(f)
        pn_ = f.params[0]["name"]
        extra = [(a_, p_, g_.retval, g_.line) for g_ in rules.bailouts(f) if isinstance(g_.retval, int) and g_.retval < 0
                 for (a_, p_) in g_.cont_atoms if not re.match(r"^\*?%s$" % re.escape(pn_), a_)
                 and not re.match(r"^[\w>.*\-\[\]&]+$", a_)]
        ck.ob("C12.5-ITR-REMOVED", f.site("step refuses only an invalid iterator"), not extra,
              "%s_itr_next has no refusal beyond the iterator's own validity" % pre_ if not extra else
              "%s_itr_next returns %d unless %s%s (line %d): when that fails at the end of the walk the iterator is neither released nor set to NULL — "
              "m_itr_foreach over a container emptied through the iterator never terminates" % (pre_, extra[0][2], "" if extra[0][1] else "!", extra[0][0], extra[0][3]))

    # ------------------------------------------------------------------ 3. order primitives
    ck.rule("C12.3-ORDER", "R-SHAPE: enqueue links the new node behind tail and makes it the tail, dequeue/peek take from head and "
            "advance head along prev; push makes the new node the top with prev = old top, pop/peek take the top; list "
            "iterate/find/remove walk next starting at data", floor=9)

    def stores(f):
        ex = rules.Expander(f, stable=False)   # values at definition time; ordering is checked below
        out = []
        for ev in f.events():
            if ev.kind == "assign" and ev.e["op"] == "=":
                out.append((ex.at(ev, ev.lhs), ex.at(ev, ev.rhs), ev))
        return out, ex

    def rets(f, ex):
        return [ex.at(ev, ev.e) for ev in f.events() if ev.kind == "ret" and ev.e is not None]

    f = P.fn("m_queue_enqueue", Q)
    ck.analysed(f)
    st, ex = stores(f)
    new = [r for (l, r, ev) in st if l == "q->tail"]
    ok = any(l == "q->tail->prev" and new and r == new[0] for (l, r, ev) in st) and bool(new)
    ok_head = any(l == "q->head" and has(X.facts(f, ev), "q->head", False) for (l, r, ev) in st)
    ck.ob("C12.3-ORDER", f.site("link at tail"), ok and ok_head,
          "enqueue stores %s" % [(l, r) for (l, r, e) in st if "tail" in l or "head" in l])
    f = P.fn("m_queue_dequeue", Q)
    ck.analysed(f)
    st, ex = stores(f)
    ok = any(l == "q->head" and r == "q->head->prev" for (l, r, ev) in st)
    # the node handed back must have been read from head before head is advanced
    reads = [ev for ev in f.events() if ev.kind == "decl" and ev.rhs is not None and S(ev.rhs) == "q->head"]
    adv = [ev for (l, r, ev) in st if l == "q->head"]
    ok = ok and bool(reads) and all(f.ev_dominates(reads[0], a) for a in adv)
    rv = rets(f, ex)
    ck.ob("C12.3-ORDER", f.site("take from head"), ok and "q->head->userptr" in rv, "dequeue: head stores %s, returns %s"
          % ([(l, r) for (l, r, e) in st if l == "q->head"], rv))
    f = P.fn("m_queue_peek", Q)
    ck.analysed(f)
    _s, ex = stores(f)
    rv = rets(f, ex)
    ck.ob("C12.3-ORDER", f.site("peek head"), "q->head->userptr" in rv, "peek returns %s" % rv, nontrivial=False)
    f = P.fn("m_stack_push", ST)
    ck.analysed(f)
    st, ex = stores(f)
    new = [r for (l, r, ev) in st if l == "s->data"]
    ok = bool(new) and any(r == "s->data" and l.endswith("->prev") for (l, r, ev) in st)
    # order: prev must be saved before the top is overwritten
    if ok:
        e_prev = [ev for (l, r, ev) in st if r == "s->data" and l.endswith("->prev")][0]
        e_top = [ev for (l, r, ev) in st if l == "s->data"][0]
        ok = f.ev_dominates(e_prev, e_top)
    ck.ob("C12.3-ORDER", f.site("push on top"), ok, "push stores %s" % [(l, r) for (l, r, e) in st])
    f = P.fn("m_stack_pop", ST)
    ck.analysed(f)
    st, ex = stores(f)
    rv = rets(f, ex)
    reads = [ev for ev in f.events() if ev.kind == "decl" and ev.rhs is not None and S(ev.rhs) == "s->data"]
    adv = [ev for (l, r, ev) in st if l == "s->data"]
    okr = bool(reads) and all(f.ev_dominates(reads[0], a) for a in adv)
    ck.ob("C12.3-ORDER", f.site("pop top"), okr and any(l == "s->data" and r == "s->data->prev" for (l, r, ev) in st) and "s->data->userptr" in rv,
          "pop: %s returns %s" % ([(l, r) for (l, r, e) in st], rv))
    f = P.fn("m_stack_peek", ST)
    ck.analysed(f)
    _s, ex = stores(f)
    rv = rets(f, ex)
    ck.ob("C12.3-ORDER", f.site("peek top"), "s->data->userptr" in rv, "peek returns %s" % rv, nontrivial=False)
    for n in ("m_list_iterate", "m_list_find", "m_list_remove", "m_list_insert"):
        f = P.fn(n, L)
        ck.analysed(f)
        starts = [ev for ev in f.events() if ev.kind == "decl" and ev.rhs is not None and S(ev.rhs) in ("l->data", "&l->data")]
        steps = [ev for ev in f.events() if ev.kind == "assign" and S(ev.rhs).endswith("->next") and ev.block.id in f.in_loop_blocks()]
        ck.ob("C12.3-ORDER", f.site("walk next from data"), bool(starts) and bool(steps),
              "%s starts at %s and advances by %s" % (n, [S(e.rhs) for e in starts], [S(e.e) for e in steps]))

    # "the first element matching the comparator or the pointer": one pass in which each node is tested with both criteria before the
    # walk moves on — not a pass per criterion
    for n in ("m_list_find", "m_list_remove"):
        f = P.fn(n, L)
        loops_ = [(t_, h_, f.natural_loop(t_, h_)) for (t_, h_) in f.back_edges()]
        walks = [l_ for l_ in loops_ if any(ev.kind == "assign" and S(ev.rhs).endswith("->next") for b_ in l_[2] for ev in f.blocks[b_].events)]
        pd_ = rules.pure_local_defs(f)

        def _through(fn_expr, pd_=pd_):
            # the comparator may be called through a local that caches l->comp
            s_ = S(fn_expr)
            x_ = strip(fn_expr)
            if x_ is not None and x_.get("k") == "var" and x_.get("name") in pd_:
                s_ = S(pd_[x_["name"]])
            return s_
        cmpc = [e for e in f.calls() if e.callee is None and _through(e.e["fn"]).endswith("->comp")]
        idt = [b_.id for b_ in f.blocks.values() if b_.term and b_.term.get("cond") is not None and
               re.search(r"->userptr == %s\b|\b%s == \S*->userptr" % (f.params[1]["name"], f.params[1]["name"]), S(b_.term["cond"]))]
        ok1 = len(walks) == 1 and bool(cmpc) and bool(idt) and all(e.block.id in walks[0][2] for e in cmpc) and all(b_ in walks[0][2] for b_ in idt)
        ck.ob("C12.3-ORDER", f.site("first match in one pass"), ok1,
              "%s walks the list once, testing comparator and pointer identity on each node" % n if ok1 else
              "%s walks the list %d time(s) / tests the two criteria in different passes: with two comparator-equal elements the one returned (or removed, "
              "and destroyed) is not the first match in list order" % (n, len(walks)))
    # find and remove agree on what "matches" means (R-SIBLING): the same set of per-node test conditions
    def _tests(fn):
        out = set()
        for b_ in fn.blocks.values():
            if b_.term and b_.term.get("cond") is not None and b_.id in fn.in_loop_blocks():
                c_ = S(b_.term["cond"])
                for n_, d_ in rules.pure_local_defs(fn).items():        # a local caching l->comp
                    if lm._mentions(c_, n_) and S(d_).endswith("->comp"):
                        c_ = rules._subst(c_, n_, S(d_))
                c_ = c_.replace("(l->comp)(", "l->comp(")
                if "->userptr" in c_ or "->comp" in c_:
                    # the node is named however the walk names it (`*tmp`, `cur`): only what is tested of it matters
                    c_ = re.sub(r"[*\w]+->userptr", "NODE->userptr", c_)
                    out.add(re.sub(r"\b%s\b" % re.escape(fn.params[1]["name"]), "KEY", c_))
        return out
    tf, tr = _tests(P.fn("m_list_find", L)), _tests(P.fn("m_list_remove", L))
    ck.ob("C12.3-ORDER", "%s:m_list_find/m_list_remove:same match predicate" % L, tf == tr and bool(tf),
          "find and remove test each node with %s" % sorted(tf) if tf == tr else
          "m_list_find tests %s but m_list_remove tests %s: remove takes out (and destroys) an element find would not have returned" % (sorted(tf), sorted(tr)))
    # clear empties the container: the loop runs until it is empty, not for a count that shrinks while it is compared
    for (unit_, fname, lenf) in ((ST, "m_stack_clear", "s->len"), (Q, "m_queue_clear", "q->len")):
        f = P.fn(fname, unit_, required=False)
        if f is None:
            continue
        ck.analysed(f)
        loops_ = [(t_, h_, f.natural_loop(t_, h_)) for (t_, h_) in f.back_edges()]
        conds = [S(f.blocks[b_].term["cond"]) for (_t, _h, body_) in loops_ for b_ in body_ if f.blocks[b_].term and f.blocks[b_].term.get("cond") is not None
                 and any(s_ not in body_ for s_ in f.blocks[b_].succs if s_ is not None)]
        ivs = {S(e.lhs) for (_t, _h, body_) in loops_ for b_ in body_ for e in f.blocks[b_].events if e.kind == "incdec" and strip(e.lhs)["k"] == "var"}
        okc = bool(conds) and not any(re.search(r"\b%s\b" % re.escape(v), c_) for v in ivs for c_ in conds)
        ck.ob("C12.3-ORDER", f.site("clear runs until empty"), okc or not loops_,
              "%s loops while %s" % (fname, conds) if okc or not loops_ else
              "%s counts with %s against a length that shrinks with every removal (%s): only part of the elements is removed" % (fname, sorted(ivs), conds))

    # iterator removal marks the position as removed on every path that removed something
    for (unit_, pre_) in ((Q, "m_queue"), (ST, "m_stack")):
        f = P.fn(pre_ + "_itr_remove", unit_)
        badm = None
        nrm = 0
        for path in f.paths():
            evs = list(rules.path_events(f, path))
            rets_ = [e for e in evs if e.kind == "ret" and e.e is not None]
            if not rets_ or (cval(rets_[-1].e) is not None and cval(rets_[-1].e) < 0):
                continue
            rv0_ = strip(rets_[-1].e)
            if rv0_["k"] == "var" and rv0_.get("vk") == "local":
                # a result variable: the constant it holds at the end of this path (single-exit style)
                _st, _val = rules.path_final_const(f, path, rv0_["name"])
                if _val is not None and _val < 0:
                    continue
            nrm += 1
            if not any(e.kind == "assign" and S(e.lhs) == "itr->removed" and cval(e.rhs) == 1 for e in evs):
                badm = path
        ck.ob("C12.5-ITR-REMOVED", f.site("removal marks the position"), badm is None and nrm > 0,
              "%d succeeding path(s) of %s all set itr->removed" % (nrm, f.name) if badm is None else
              "%s can report a removal without setting itr->removed: the following next() skips the element that slid into the position, get_data() "
              "returns an element that was never visited" % f.name, path=rules.fmt_path(f, badm) if badm else None)

    ck.not_decided += ["behaviour of arbitrary operation/iterator sequences (the list iterator's diff compensation in particular)",
                       "that a non-NULL value stored into tail by the iterator is the right predecessor node"]
