"""C11 — ordered set (BST): structural clauses (DESIGN §4 C11)."""
import lm
import rules
from lm import S, strip, cval
from props.common import Ctx, has, fmt_facts, guard_retvals
from props.containers import node_holders, node_bookkeeping, dtor_discipline, is_free_call, itr_removed_guards
from props.cmp import narrowing_findings

LEVEL = "other"
B = "Lib/structs/bst.c"


def run(ck, P):
    X = Ctx(P)
    cg = X.cg

    # ------------------------------------------------------------------ 1. default comparator
    ck.rule("C11.1-PTRCMP", "R-CMP-NARROW: the default comparator (bound to _bst.comp when the user passes none) does not return the "
            "narrowing of a pointer difference", floor=1)
    newf = P.fn("m_bst_new", B)
    ck.analysed(newf)
    defaults = set()
    for ev in rules.field_stores(newf, "_bst", "comp"):
        for n in lm.walk(ev.rhs):
            if n.get("k") == "var" and n.get("vk") == "func":
                defaults.add(n["name"])
    ck.need(defaults, "no default comparator bound in m_bst_new")
    for name in sorted(defaults):
        f = P.fn(name, B)
        ck.analysed(f)
        fnd = narrowing_findings(f)
        ck.ob("C11.1-PTRCMP", f.site("return"), not fnd, "default comparator %s: %s" % (name, fnd[0][1] if fnd else "three-way result"))

    # ------------------------------------------------------------------ 2. destructor target in remove_node
    ck.rule("C11.2-DTOR-TARGET", "R-SHAPE: in remove_node the payload handed to the destructor is the payload of the node that is freed, "
            "and a payload copied into a surviving node is swapped with that node's old payload (never duplicated)", floor=2)
    rn = P.fn("remove_node", B)
    ck.analysed(rn)
    ex = rules.Expander(rn)
    dts = rules.dtor_calls(rn, {"_bst"})
    frees = [ev for ev in rn.events() if is_free_call(ev)]
    ck.need(dts and frees, "remove_node lost its destructor call or its node free")
    for d in dts:
        arg = ex.at(d, d.args[0])
        freed = [ex.at(x, x.args[0]) for x in frees]
        ck.ob("C11.2-DTOR-TARGET", rn.site("dtor arg"), any(arg == fr + "->userptr" for fr in freed),
              "destructor receives '%s'; node freed afterwards: %s" % (arg, freed))
    # the node leaves the tree before its payload is destroyed: a destructor that re-enters the set must not find (or hang a new
    # node under) the element that is going away, and nothing read before the callback may be written into the slot after it
    slot = rn.params[1]["name"]
    slot_ct = (rn.params[1].get("ct") or rn.params[1].get("t") or "?").replace(" ", "")

    def _slot_store(ev):
        if ev.kind != "assign" or ev.lhs is None:
            return False
        l_ = strip(ev.lhs)
        return l_ is not None and l_["k"] == "un" and l_.get("op") == "*" and strip(l_["e"]) is not None \
            and strip(l_["e"])["k"] == "var" and (strip(l_["e"]).get("name") == slot or
                                                   (strip(l_["e"]).get("ct") or "").replace(" ", "") == slot_ct)   # a helper's copy of the slot
    stores = [ev for ev in rn.events() if _slot_store(ev)]
    ck.need(stores, "remove_node no longer stores through its slot parameter")
    INu = rules.tag_analysis(rn, lambda st, ev: (st | {"unlinked"}) if _slot_store(ev) else st, must=True)
    for d in dts:
        before = rn.state_before(INu, d, lambda st, ev: (st | {"unlinked"}) if _slot_store(ev) else st)
        late = [x for x in stores if rules.may_precede(rn, d, x)]
        ck.ob("C11.2-DTOR-TARGET", rn.site("unlinked before destroyed"), before is not None and "unlinked" in before and not late,
              "the slot '*%s' is re-pointed on every path before the destructor runs and never after it" % slot
              if (before is not None and "unlinked" in before and not late) else
              ("the destructor at line %d runs while the node is still linked through '*%s'%s: a destructor that re-enters the set finds the "
               "dying element, and a node it inserts below it is overwritten by the late splice"
               % (d.line, slot, (" (slot written after it at line %d)" % late[0].line) if late else "")))
    copies = []
    exd = rules.Expander(rn, stable=False)    # values at definition time; the ordering is checked explicitly below
    for ev in rules.field_stores(rn, "_elem", "userptr"):
        lhs, rhs = exd.at(ev, ev.lhs), exd.at(ev, ev.rhs)
        copies.append((lhs, rhs, ev))
    okswap = True
    det = "no payload is copied between nodes"
    matched = set()
    for (lhs, rhs, ev) in copies:
        for (l2, r2, ev2) in copies:
            if ev2 is ev or not (l2 == rhs and r2 == lhs):
                continue
            # ev2 must restore the old payload of `lhs` through a temporary saved before ev overwrote it
            r = strip(ev2.rhs)
            if r["k"] == "var" and r.get("vk") == "local":
                saved = [d for d in rn.events() if d.kind in ("decl", "assign") and d.lhs is not None
                         and S(d.lhs) == r["name"] and d.rhs is not None]
                if saved and all(rn.ev_dominates(d, ev) for d in saved) and rn.ev_dominates(ev, ev2):
                    matched.add(id(ev))
                    matched.add(id(ev2))
                    det = "payloads of '%s' and '%s' are swapped through '%s'" % (lhs[:-9], rhs[:-9], r["name"])
    for (lhs, rhs, ev) in copies:
        if rhs.endswith("->userptr") and id(ev) not in matched:
            okswap = False
            det = ("payload of '%s' is copied into surviving node '%s' at line %d without the old payload taking its place: the "
                   "copied payload is destroyed with the spliced node while the removed element's payload leaks" % (rhs[:-9], lhs[:-9], ev.line))
    ck.ob("C11.2-DTOR-TARGET", rn.site("payload swap"), okswap, det)

    # ------------------------------------------------------------------ 3. traversal shape
    ck.rule("C11.3-TRAVERSE", "R-SHAPE: in-order = left, visit, right; pre-order = visit, left, right; post-order = left, right, "
            "visit; each later step runs only while the result so far is 0", floor=3)
    for (name, order) in (("traverse_inorder", ["left", "cb", "right"]), ("traverse_preorder", ["cb", "left", "right"]),
                          ("traverse_postorder", ["left", "right", "cb"])):
        f = P.fn(name, B)
        ck.analysed(f)
        steps = {}
        for ev in f.calls():
            if ev.callee == name and ev.args:
                a = S(ev.args[0])
                if a.endswith("->left"):
                    steps["left"] = ev
                elif a.endswith("->right"):
                    steps["right"] = ev
            elif ev.callee is None and S(ev.e["fn"]) == "cb":
                steps["cb"] = ev
        ok = set(steps) == {"left", "right", "cb"}
        det = "steps found: %s" % sorted(steps)
        if ok:
            seq = [steps[o] for o in order]
            ok = f.ev_dominates(seq[0], seq[1]) and f.ev_dominates(seq[1], seq[2])
            zero = all(has(X.facts(f, e), "ret", False) for e in seq[1:])
            visit_arg = S(steps["cb"].args[1]) if len(steps["cb"].args) > 1 else ""
            ok = ok and zero and visit_arg.endswith("->userptr")
            det = "%s: order %s, later steps guarded by ret == 0: %s, visits %s" % (name, order, zero, visit_arg)
        ck.ob("C11.3-TRAVERSE", f.site("order"), ok, det)
        # the walk itself never gives up: it stops only on what the callback returned (a depth or count limit of its own cuts the
        # traversal of a degenerate — unbalanced — tree short)
        own = [e for e in f.events() if e.kind == "ret" and e.e is not None and cval(e.e) is not None and cval(e.e) != 0]
        ck.ob("C11.3-TRAVERSE", f.site("stops only on the callback's result"), not own,
              "%s returns 0 or what the callback / the recursion returned" % name if not own else
              "%s returns %d of its own accord at line %d: a traversal can end before every element was visited although no callback asked for it "
              "(the tree is not balanced: any depth is legitimate)" % (name, cval(own[0].e), own[0].line))
    tv = P.fn("m_bst_traverse", B)
    ck.analysed(tv)
    E = P.enums
    want = {E.get("M_BST_PRE"): "traverse_preorder", E.get("M_BST_POST"): "traverse_postorder", E.get("M_BST_IN"): "traverse_inorder"}
    okd = True
    for ev in tv.calls():
        if ev.callee in want.values():
            facts = X.facts(tv, ev)
            k = [k for k, v in want.items() if v == ev.callee][0]
            okd = okd and has(facts, "(type == %s)" % k)
    ck.ob("C11.3-TRAVERSE", tv.site("dispatch"), okd, "m_bst_traverse dispatches each order constant to its traversal", nontrivial=False)

    # ------------------------------------------------------------------ 4. set semantics at the API edge
    ck.rule("C11.4-SET", "R-GUARD/R-PAIR: m_bst_insert returns -EEXIST exactly when the search ended on an existing node, otherwise links "
            "one new node where the search ended; nodes and len move together (allocation <-> len++, free <-> len--)", floor=3)
    ins = P.fn("m_bst_insert", B)
    ck.analysed(ins)
    gs = [g for g in rules.bailouts(ins) if g.retval == -17]
    links = list(ins.calls("insert_node"))
    ok = bool(gs) and bool(links)
    det = "no -EEXIST guard / no insert_node call"
    if ok:
        atom = gs[0].cont_atoms[0]
        exn = rules.Expander(ins)
        ok = atom[1] is False and all(has(X.facts(ins, ev), atom[0], False) for ev in links)
        finds = [ev for ev in ins.events() if ev.kind == "decl" and ev.rhs is not None and strip(ev.rhs).get("callee") == "bst_find"]
        ok = ok and bool(finds) and atom[0] == "*" + finds[0].e["name"]
        ok = ok and all(S(ev.args[1]) == finds[0].e["name"] for ev in links)
        det = "duplicate test '%s' on the slot bst_find returned; new node linked into that slot" % atom[0]
    ck.ob("C11.4-SET", ins.site("EEXIST<->found"), ok, det, witness=[("drop_branch", ins.unit, ins.name, g.block) for g in gs])
    node_bookkeeping(ck, P, X, "C11.4-SET", B, {"bst_node *"}, "_bst")
    node_holders(ck, P, X, "C11.4-SET", B, "_bst", "bst_node", {"root"})

    # ------------------------------------------------------------------ 5. destructor runs in remove_node and only there
    ck.rule("C11.5-DTOR-SITES", "R-WHO-CALLS: the element destructor is invoked only in remove_node (under a non-NULL test); "
            "remove/itr_remove/clear/free reach it, find/insert/itr_get_data/len never do", floor=9)
    dtor_discipline(ck, P, X, "C11.5-DTOR-SITES", B, "_bst", {"remove_node"},
                    ["m_bst_find", "m_bst_insert", "m_bst_itr_get_data", "m_bst_len", "m_bst_traverse"],
                    ["m_bst_remove", "m_bst_itr_remove", "m_bst_clear", "m_bst_free"])

    ck.rule("C11.6-ITR-REMOVED", "R-GUARD: m_bst_itr_remove / m_bst_itr_get_data refuse once the current element was removed through the iterator "
            "(guard on !itr->removed before any effect)", floor=2)
    itr_removed_guards(ck, P, X, "C11.6-ITR-REMOVED", B, "m_bst")

    ck.rule("C11.7-REMOVE-SLOT", "R-SHAPE: the slot m_bst_itr_remove hands to remove_node is, on every path, the one through which the tree owns "
            "the node — a parent's left/right field or the tree's root field — never the iterator's own cursor (which may be a child's "
            "`parent` back-pointer: remove_node rewrites the slot it is given, and rewriting a back-pointer leaves the tree pointing at "
            "the freed node)", floor=1)
    ir = P.fn("m_bst_itr_remove", B)
    ck.analysed(ir)
    rcalls = list(ir.calls("remove_node"))
    ck.need(rcalls, "m_bst_itr_remove no longer calls remove_node")

    def _owning_slot(e):
        e = strip(e)
        if e is None:
            return False
        if e.get("k") == "cond":
            return _owning_slot(e.get("t") or e.get("then")) and _owning_slot(e.get("f") or e.get("else"))
        if e.get("k") == "un" and e.get("op") == "&":
            m = strip(e["e"])
            return m.get("k") == "member" and m.get("field") in ("left", "right", "root")
        return False
    npaths = 0
    badp = None
    for path in ir.paths(prune=False):
        feas, _env, _a, evs = rules.simulate(ir, path)
        if not feas:
            continue
        for rc in rcalls:
            if rc not in evs:
                continue
            npaths += 1
            arg = strip(rc.args[1])
            if arg.get("k") != "var":
                if not _owning_slot(arg):
                    badp = (path, S(arg), rc)
                continue
            last = None
            for ev in evs:
                if ev is rc:
                    break
                if ev.kind in ("decl", "assign") and ev.lhs is not None and S(ev.lhs) == arg["name"] and ev.rhs is not None:
                    last = ev
            if last is None or not _owning_slot(last.rhs):
                badp = (path, S(last.rhs) if last is not None else "<unset>", rc)
    ck.ob("C11.7-REMOVE-SLOT", ir.site("slot is owned by the tree"), npaths >= 3 and badp is None,
          "%d path(s) to remove_node, each handing over &parent->left, &parent->right or &tree->root" % npaths if badp is None else
          "on a path to remove_node (line %d) the slot is '%s': not a parent's child field nor the root field — when the cursor reached the node "
          "through a child's parent pointer, remove_node rewrites that back-pointer and the tree keeps the freed node" % (badp[2].line, badp[1]),
          path=rules.fmt_path(ir, badp[0]) if badp else None)

    ck.not_decided += ["sortedness / tree consistency for all insertion orders", "iterator survival across removals (shape dependent)"]
