"""Slots shared by several properties: enum constants, kill sets, standard guard atoms."""
import lm
import rules
from lm import S, strip, cval, Func
from units import AnalysisBroken


class Ctx:
    """Per-Program cache of derived information."""

    def __init__(self, P):
        self.P = P
        self.cg = P.callgraph()
        self.E = P.enums
        for n in ("M_MOD_IDLE", "M_MOD_RUNNING", "M_MOD_PAUSED", "M_MOD_STOPPED", "M_MOD_ZOMBIE"):
            if n not in self.E:
                raise AnalysisBroken("anchor enum constant %s not found" % n)
        self.IDLE, self.RUNNING, self.PAUSED = self.E["M_MOD_IDLE"], self.E["M_MOD_RUNNING"], self.E["M_MOD_PAUSED"]
        self.STOPPED, self.ZOMBIE = self.E["M_MOD_STOPPED"], self.E["M_MOD_ZOMBIE"]
        self._usercb = None
        self._statewr = None
        self._eff = None
        self.cache = {}

    # functions whose execution may run a user callback of a module
    def usercb_set(self):
        if self._usercb is None:
            self._usercb = self.cg.may_reach_set(lambda n: n == ("pseudo", "USERCB"))
        return self._usercb

    # functions that may (transitively) store to _mod.state
    def state_writer_set(self):
        if self._statewr is None:
            direct = {ev.fn.key for ev in self.P.writes_to_field("_mod", "state")}
            self._statewr = self.cg.may_reach_set(lambda n: n in direct)
        return self._statewr

    def effects(self):
        if self._eff is None:
            self._eff = rules.Effects(self.P)
        return self._eff

    def kills_state(self, ev):
        """May this event change a module's state (user callbacks may call any setter)?"""
        if ev.kind != "call":
            return False
        ks = self.usercb_set() | self.state_writer_set()
        return self.cg.event_may_reach(ev, ks)

    def state_kill(self):
        """kill(fact, ev) for must-facts about module state."""
        def kill(fact, ev):
            a = fact[0]
            if ("m_mod_is(" in a or "->state" in a) and self.kills_state(ev):
                return True
            return False
        return kill

    def facts(self, fn, ev, kill=None):
        key = (fn.key, "k" if kill else "n")
        if key not in self.cache:
            self.cache[key] = rules.mustfacts(fn, kill)
        IN, tr = self.cache[key]
        return fn.state_before(IN, ev, tr)

    def mod_assert_atoms(self, var="mod"):
        """Atoms M_MOD_ASSERT(var) establishes, with the errno each failing edge must return."""
        return [
            ((var, True), -22),                                   # non-NULL       -EINVAL
            (("m_mod_is(%s, %d)" % (var, self.ZOMBIE), False), -13),  # not a ZOMBIE   -EACCES
            (("(%s->ctx == m_ctx())" % var, True), -1),           # same thread    -EPERM
        ]


def has(facts, atom, pol=True):
    return facts is not None and (atom, pol) in facts


def guard_retvals(fn, atom, pol):
    """Return values of the bail-out guards of fn whose continue-edge establishes (atom, pol)."""
    out = []
    for g in rules.bailouts(fn):
        if (atom, pol) in g.cont_atoms:
            out.append(g)
    return out


def fmt_facts(facts):
    if facts is None:
        return "<unreachable>"
    return "{" + ", ".join(("" if p else "!") + a for a, p in sorted(facts)) + "}"
