"""Slots shared by several properties: enum constants, kill sets, standard guard atoms."""
import lm
import rules
from lm import S, strip, cval, Func
from units import AnalysisBroken


class Ctx:
    """Per-Program cache of derived information."""

    def __init__(self, P):
        self.P = P
        self.cg = P.callgraph()
        self.E = P.enums
        for n in ("M_MOD_IDLE", "M_MOD_RUNNING", "M_MOD_PAUSED", "M_MOD_STOPPED", "M_MOD_ZOMBIE"):
            if n not in self.E:
                raise AnalysisBroken("anchor enum constant %s not found" % n)
        self.IDLE, self.RUNNING, self.PAUSED = self.E["M_MOD_IDLE"], self.E["M_MOD_RUNNING"], self.E["M_MOD_PAUSED"]
        self.STOPPED, self.ZOMBIE = self.E["M_MOD_STOPPED"], self.E["M_MOD_ZOMBIE"]
        self._usercb = None
        self._statewr = None
        self._eff = None
        self.cache = {}

    # functions whose execution may run a user callback of a module
    def usercb_set(self):
        if self._usercb is None:
            self._usercb = self.cg.may_reach_set(lambda n: n == ("pseudo", "USERCB"))
        return self._usercb

    # functions that may (transitively) store to _mod.state
    def state_writer_set(self):
        if self._statewr is None:
            direct = {ev.fn.key for ev in self.P.writes_to_field("_mod", "state")}
            self._statewr = self.cg.may_reach_set(lambda n: n in direct)
        return self._statewr

    def effects(self):
        if self._eff is None:
            self._eff = rules.Effects(self.P)
        return self._eff

    def kills_state(self, ev):
        """May this event change a module's state (user callbacks may call any setter)?"""
        if ev.kind != "call":
            return False
        ks = self.usercb_set() | self.state_writer_set()
        return self.cg.event_may_reach(ev, ks)

    def state_kill(self):
        """kill(fact, ev) for must-facts about module state."""
        def kill(fact, ev):
            a = fact[0]
            if ("m_mod_is(" in a or "->state" in a):
                if self.kills_state(ev):
                    return True
                if ev.kind == "assign":
                    l = strip(ev.lhs)
                    if l is not None and l["k"] == "member" and l["field"] == "state" and l.get("rec") == "_mod":
                        return True
            return False
        return kill

    def facts(self, fn, ev, kill=None, passed=False):
        key = (fn.key, "k" if kill else "n", passed)
        if key not in self.cache:
            self.cache[key] = rules.mustfacts(fn, kill, passed=passed)
        IN, tr = self.cache[key]
        return fn.state_before(IN, ev, tr)

    def mod_assert_atoms(self, var="mod"):
        """Atoms M_MOD_ASSERT(var) establishes, with the errno each failing edge must return."""
        return [
            ((var, True), -22),                                   # non-NULL       -EINVAL
            (("m_mod_is(%s, %d)" % (var, self.ZOMBIE), False), -13),  # not a ZOMBIE   -EACCES
            (("(%s->ctx == m_ctx())" % var, True), -1),           # same thread    -EPERM
        ]


def EQ(expr, value):
    """(atom, polarity) the normaliser produces for `expr == value`."""
    if value == 0:
        return (expr, False)
    return ("(%s == %d)" % (expr, value), True)


def has(facts, atom, pol=True):
    """(atom, pol) is among the facts; `(x == 0)` true and `x` false are the same fact (the normaliser writes the first for a switch
    case and the second for an if)."""
    if facts is None:
        return False
    if (atom, pol) in facts:
        return True
    if atom.startswith("(") and atom.endswith(" == 0)") and (atom[1:-6], not pol) in facts:
        return True
    if ("(%s == 0)" % atom, not pol) in facts:
        return True
    # a relational atom is the same fact written with its operands swapped, or as the negation of the complementary relation:
    # (a < b)  ==  (b > a)  ==  !(a >= b)  ==  !(b <= a)
    sp = _split_rel(atom)
    if sp:
        l, op, r = sp
        for (a2, p2) in (("(%s %s %s)" % (r, _MIRROR[op], l), pol), ("(%s %s %s)" % (l, _NEG[op], r), not pol),
                         ("(%s %s %s)" % (r, _MIRROR[_NEG[op]], l), not pol)):
            if (a2, p2) in facts:
                return True
    return False


_MIRROR = {"==": "==", "!=": "!=", "<": ">", ">": "<", "<=": ">=", ">=": "<="}
_NEG = {"==": "!=", "!=": "==", "<": ">=", ">": "<=", "<=": ">", ">=": "<"}


def _split_rel(atom):
    """'(L op R)' with a relational op at the top level -> (L, op, R); None otherwise."""
    if not (atom.startswith("(") and atom.endswith(")")):
        return None
    body = atom[1:-1]
    depth = 0
    toks = body.split(" ")
    pos = 0
    for i, t in enumerate(toks):
        if depth == 0 and t in _MIRROR and 0 < i < len(toks) - 1:
            l = " ".join(toks[:i])
            r = " ".join(toks[i + 1:])
            if l.count("(") == l.count(")") and r.count("(") == r.count(")"):
                return (l, t, r)
            return None
        depth += t.count("(") - t.count(")")
    return None


def guard_retvals(fn, atom, pol):
    """Return values of the bail-out guards of fn whose continue-edge establishes (atom, pol)."""
    out = []
    for g in rules.bailouts(fn):
        if (atom, pol) in g.cont_atoms:
            out.append(g)
    return out


def fmt_facts(facts):
    if facts is None:
        return "<unreachable>"
    return "{" + ", ".join(("" if p else "!") + a for a, p in sorted(facts) if not a.startswith("@cond|")) + "}"


def check_guarded_entry(ck, X, fn, rule, needed, what, effect_filter=None):
    """Every effect event of fn has the `needed` atoms [(atom,pol),retval] as must-facts (assignment kills only),
    and each atom's bail-out returns the stated value."""
    eff = X.effects()
    evs = [ev for ev in fn.events() if eff.is_effect(ev) and (effect_filter is None or effect_filter(ev))]
    ok = True
    for (atom, pol), rv in needed:
        site = fn.site("%s%s" % ("" if pol else "!", atom))
        gs = guard_retvals(fn, atom, pol)
        if not gs:
            ck.ob(rule, site, False, "%s: no bail-out guard establishes %s%s" % (what, "" if pol else "!", atom))
            ok = False
            continue
        bad_rv = [g for g in gs if rv is not None and g.retval != rv]
        missing = [ev for ev in evs if not has(X.facts(fn, ev, passed=True), atom, pol)]
        # effects inside the bail-out arm itself are not allowed either
        dirty = [g for g in gs if g.effects_in_bail]
        if missing:
            ev = missing[0]
            ck.ob(rule, site, False, "%s: effect '%s' at line %d is reachable without the guard (facts %s)"
                  % (what, S(ev.e) if ev.kind != "decl" else ev.e.get("name"), ev.line, fmt_facts(X.facts(fn, ev, passed=True))))
            ok = False
        elif bad_rv:
            ck.ob(rule, site, False, "%s: failing edge at line %d returns %s, documented %s" % (what, bad_rv[0].line, bad_rv[0].retval, rv))
            ok = False
        elif dirty:
            ck.ob(rule, site, False, "%s: failing edge at line %d performs an effect before returning" % (what, dirty[0].line))
            ok = False
        else:
            ck.ob(rule, site, True, "%s: guard at line %d dominates all %d effect(s), fails with %s" % (what, gs[0].line, len(evs), gs[0].retval),
                  witness=[("drop_branch", fn.unit, fn.name, g.block) for g in gs])
    return ok




# calls that remove a timer source of a module by key: name -> index of the key argument
TMR_REMOVERS = {"m_mod_src_deregister_tmr": 1, "deregister_internal_tmr": 1}
TMR_CHARGED = ("m_mod_src_deregister_tmr", "deregister_internal_tmr", "m_mod_src_register_tmr")   # each charges one token


def expand_assumes(f, assumes):
    """Path assumptions with single-definition locals replaced by their defining expression (textual, word-bounded): the atoms of a
    path over `const bool a = x & F;` locals become atoms over the expressions themselves."""
    import re as _re
    from lm import S as _S, strip as _strip
    defs = {}
    for ev in f.events():
        if ev.kind in ("decl", "assign") and ev.rhs is not None and ev.lhs is not None and _strip(ev.lhs)["k"] == "var":
            defs.setdefault(_S(ev.lhs), []).append(_S(ev.rhs))
    single = {n: v[0] for n, v in defs.items() if len(v) == 1}
    out = {}
    for a, pol in assumes.items():
        for _i in range(4):
            b = a
            for n, v in single.items():
                b = _re.sub(r"(?<![\w>.])%s(?![\w(])" % _re.escape(n), v, b)
            if b == a:
                break
            a = b
        out[a] = pol
    return out


INT_WIDTH = {"_Bool": 1, "bool": 1, "char": 1, "signed char": 1, "unsigned char": 1, "short": 2, "unsigned short": 2, "int": 4, "unsigned int": 4,
             "long": 8, "unsigned long": 8, "long long": 8, "unsigned long long": 8}


def int_width(ct):
    """Width in bytes of a canonical integer type spelling (None for anything else)."""
    ct = (ct or "").replace("const ", "").replace("volatile ", "").strip()
    return INT_WIDTH.get(ct)


def narrowing_casts(expr, explicit=False):
    """Integral conversions inside expr that drop bits (implicit ones; explicit casts too on request):
    [(from_ct, to_ct, sub-expression string)]."""
    from lm import walk as _walk, S as _S
    out = []
    for n in _walk(expr):
        if (n.get("k") == "icast" or (explicit and n.get("k") == "cast")) and n.get("ck") == "IntegralCast":
            fw, tw = int_width(n.get("from_ct")), int_width(n.get("ct"))
            inner = n.get("e") or {}
            if fw and tw and fw > tw and inner.get("cv") is None:
                out.append((n.get("from_ct"), n.get("ct"), _S(inner)))
    return out


def flag_forced_for_type(fn, type_value, flag_const, flags_suffix="->flags", type_param="type"):
    """Specialise fn to `type == type_value` (constant propagation along every enumerated path) and look at the `|= flag_const` stores into a
    flags field: returns (paths that return normally, paths among them that set the flag).  However the dispatch on the type is written —
    switch, if chain, shared tails — the question is the same: is the flag set for that kind."""
    total = setting = 0
    for path in fn.paths(prune=False):
        feas, _env, _a, evs = rules.simulate(fn, path, preset={type_param: type_value})
        if not feas:
            continue
        # paths that end in the refusal of an unknown type / a failed allocation do not create a source
        rets = [e for e in evs if e.kind == "ret"]
        if rets and rets[-1].e is not None and (cval(rets[-1].e) == 0 or strip(rets[-1].e).get("k") == "null"):
            continue
        if any(e.kind == "call" and e.callee in ("m_mem_unrefp", "m_mem_unref", "__assert_fail", "abort", "exit", "_exit") for e in evs):
            continue          # (released again, or the process aborts on this path: assert in the -UNDEBUG configuration)
        if not rets:
            continue
        total += 1
        if any(e.kind == "assign" and e.e.get("op") == "|=" and S(e.lhs).endswith(flags_suffix) and cval(e.rhs) is not None
               and (cval(e.rhs) & flag_const) == flag_const for e in evs):
            setting += 1
    return total, setting
