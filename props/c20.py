"""C20 — descriptor hygiene (DESIGN §4 C20)."""
import lm
import re
import rules
from lm import S, strip, cval, walk
from props.common import Ctx, has, fmt_facts, EQ

LEVEL = "other"

OPENERS = {"epoll_create1", "epoll_create", "pipe", "pipe2", "timerfd_create", "signalfd", "inotify_init1", "inotify_init", "eventfd", "dup",
           "dup2", "dup3", "open", "openat", "socket", "accept", "accept4", "creat", "fopen", "memfd_create", "pidfd_open", "syscall",
           "kqueue", "io_uring_queue_init", "socketpair", "fdopen"}


value_sources = rules.value_sources



def _fresh_record(fn, path):
    """The poll record is created on this path (an allocation stored into `->ev`) and, read from the branch conditions *before* that
    store — through the definitions of boolean locals, and through `(A == B)` with one side known —, no record existed."""
    import re as _re
    idx = None
    for i_, (b_, _at) in enumerate(path):
        for e in fn.blocks[b_].events:
            if e.kind == "assign" and e.lhs is not None and S(e.lhs).endswith("->ev") and e.rhs is not None and strip(e.rhs) is not None \
                    and strip(e.rhs)["k"] != "null" and any(isinstance(x_, dict) and x_.get("k") == "call" for x_ in lm.walk(e.rhs)):
                idx = i_
                break
        if idx is not None:
            break
    if idx is None:
        return False
    slot = None
    for e in fn.blocks[path[idx][0]].events:
        if e.kind == "assign" and e.lhs is not None and S(e.lhs).endswith("->ev"):
            slot = S(e.lhs)
    items = []
    for (_b, at) in path[:idx]:
        for ap in at:
            if ap[0] not in [x_[0] for x_ in items]:
                items.append(ap)
    facts = set(rules.resolve_atoms(fn, items))
    for _round in range(3):
        add = set()
        for (a_, p_) in facts:
            m_ = _split_eq(a_)
            if not m_ or p_ not in (True, False):
                continue
            l_, op_, r_ = m_
            same = p_ if op_ == "==" else (not p_)
            for x_, y_ in ((l_, r_), (r_, l_)):
                for v_ in (True, False):
                    if has(facts, x_, v_) and not (has(facts, y_, True) or has(facts, y_, False)):
                        add.add((y_, v_ if same else (not v_)))
        if not add - facts:
            break
        facts |= add
    for form, pol in ((slot, False), ("(%s != NULL)" % slot, False), ("(%s != 0)" % slot, False), ("(%s == NULL)" % slot, True)):
        if has(facts, form, pol):
            return True
    return False


def _split_eq(atom):
    """'(L == R)' / '(L != R)' with both operands themselves boolean-valued (parenthesised tests) -> (L, op, R)."""
    if not (atom.startswith("((") and atom.endswith("))")):
        return None
    body = atom[1:-1]
    depth = 0
    for i_, ch in enumerate(body):
        if ch == "(":
            depth += 1
        elif ch == ")":
            depth -= 1
            if depth == 0:
                rest = body[i_ + 1:]
                for op_ in (" == ", " != "):
                    if rest.startswith(op_):
                        l_, r_ = body[:i_ + 1], rest[len(op_):]
                        if r_.startswith("(") and r_.endswith(")"):
                            return (l_, op_.strip(), r_)
                return None
    return None

def run(ck, P):
    X = Ctx(P)
    cg = X.cg
    E = P.enums
    for n in ("M_SRC_FD_AUTOCLOSE", "M_SRC_TYPE_FD", "M_SRC_TYPE_PS", "M_SRC_DUP"):
        ck.need(n in E, "%s vanished" % n)
    AC = E["M_SRC_FD_AUTOCLOSE"]

    # ------------------------------------------------------------------ 1. who closes, and what
    ck.rule("C20.1-WHO-CLOSES", "R-WHO-CALLS + provenance: close() is called only on (a) the module's own pipe ends (init_pubsub_fd failure path, "
            "reset_module), (b) the context's epoll handle (poll_destroy), (c) an internal descriptor of a non-fd source (poll_set_new_evt, "
            "under tmp->type > M_SRC_TYPE_FD, RM only), (d) the descriptor of a PS/FD source carrying M_SRC_FD_AUTOCLOSE (src_priv_dtor); no "
            "other path can close a user descriptor", floor=6)
    closes = list(P.calls_to("close"))
    ck.need(len(closes) >= 3, "close() call sites shrank to %d" % len(closes))
    required = {("init_pubsub_fd", "mod->pubsub_fd[0]"): "read end of the module pipe on the failure path of init_pubsub_fd",
                ("init_pubsub_fd", "mod->pubsub_fd[1]"): "write end of the module pipe on the failure path of init_pubsub_fd",
                ("reset_module", "mod->pubsub_fd[1]"): "write end of the module pipe when the module stops",
                ("poll_destroy", "fd"): "the context's epoll handle", ("poll_set_new_evt", "tmp->fd_src.fd"): "internal descriptors on RM",
                ("src_priv_dtor", "fd"): "auto-close descriptors of PS/FD sources"}
    have = set()
    for ev in closes:
        exq = rules.Expander(ev.fn, stable=False)
        have.add((ev.fn.name, exq.at(ev, ev.args[0])))
        have.add((ev.fn.name, S(ev.args[0])))
    for (fnn, arg_), what_ in sorted(required.items()):
        present = any(h[0] == fnn and (h[1] == arg_ or h[1].endswith("->" + arg_) or h[1].endswith(arg_)) for h in have)
        ck.ob("C20.1-WHO-CLOSES", "%s:%s:must close %s" % ("Lib/core", fnn, arg_), present,
              "%s is closed in %s" % (what_, fnn) if present else "%s is no longer closed in %s: the descriptor leaks on that path" % (what_, fnn), nontrivial=False)
    for ev in closes:
        f = ev.fn
        ck.analysed(f)
        ck.call_sites += 1
        ex = rules.Expander(f, stable=False)
        arg = ex.at(ev, ev.args[0])
        facts = X.facts(f, ev)
        ok = False
        why = "unlisted close site"
        if f.name in ("init_pubsub_fd", "reset_module") and arg.startswith("mod->pubsub_fd["):
            ok, why = True, "module's own pipe end"
            if f.name == "reset_module":
                ok = has(facts, "(mod->pubsub_fd[1] == -1)", False)
        elif f.name == "poll_destroy" and arg in ("ep->fd", "priv->data->fd"):
            ok, why = True, "context's epoll handle"
        elif f.name == "poll_set_new_evt" and arg == "tmp->fd_src.fd":
            ok = has(facts, "(tmp->type > %d)" % E["M_SRC_TYPE_FD"]) and has(facts, "(flag == %d)" % E["RM"])
            why = "internal descriptor of a non-fd source on removal" if ok else "descriptor closed without the type > FD / RM tests: a user descriptor could be closed"
        elif f.name == "src_priv_dtor":
            # the closed value is a local: every non-constant definition must be the source's own descriptor, and every path to the
            # close must have taken the AUTOCLOSE branch and a PS/FD case of the type switch
            a0 = strip(ev.args[0])
            srcs = value_sources(f, S(a0)) if a0["k"] == "var" else {S(a0)}
            srcs = {x for x in srcs if not re.match(r"^-?\d+$", x)}
            ok = srcs == {"t->fd_src.fd"} or arg == "t->fd_src.fd"
            n = 0
            for path in f.paths(prune=False):
                feas, _env, a, evs = rules.simulate(f, path)
                if not feas or ev not in evs:
                    continue
                n += 1
                def is_(tv):
                    at_, pol_ = EQ("t->type", tv)
                    return a.get(at_) is pol_ or a.get("(t->type == %d)" % tv) is True
                if a.get("(t->flags & %d)" % AC) is not True or not (is_(E["M_SRC_TYPE_FD"]) or is_(E["M_SRC_TYPE_PS"]) or
                                                                     rules.assumed_one_of(a, "t->type", (E["M_SRC_TYPE_FD"], E["M_SRC_TYPE_PS"]))):
                    ok = False
            ok = ok and n > 0
            why = "auto-close descriptor of a PS/FD source (%d path(s))" % n if ok else "user descriptor closed without the AUTOCLOSE / PS|FD tests"
            # every valid descriptor is closed — 0 included: the only value excluded is the "none" marker -1
            vn = S(a0)
            extra = [(a_, p_) for (a_, p_) in (facts or ()) if re.search(r"\b%s\b" % re.escape(vn), a_) and (a_, p_) != ("(%s == -1)" % vn, False)
                     and not a_.startswith("(%s =" % vn)]
            if ok and extra:
                ok = False
                why = "the auto-close is additionally conditioned on %s: a valid descriptor outside that range (0, when stdin was closed) is never closed" % fmt_facts(frozenset(extra))
        ck.ob("C20.1-WHO-CLOSES", f.site("close(%s)" % arg), ok, "%s at line %d: %s" % (S(ev.e), ev.line, why))
    fc = list(P.calls_to({"fclose"}))
    ck.ob("C20.1-WHO-CLOSES", "Lib:fclose sites", all(e.fn.raw.get("ctor") for e in fc), "fclose only in the logging destructor: %s" % [e.fn.name for e in fc], nontrivial=False)

    # a refused registration leaves no trace: the source created for it must not close a descriptor the user passed in
    rms = P.fn("register_mod_src")
    ck.analysed(rms)
    ins_ = [e for e in rms.events() if e.kind == "decl" and e.rhs is not None and strip(e.rhs).get("callee") == "m_bst_insert"]
    ck.need(len(ins_) == 1, "register_mod_src insertion changed shape")
    rvn = ins_[0].e["name"]
    srcn = S(strip(ins_[0].rhs)["args"][1])
    ck.need("M_SRC_DUP" in E, "M_SRC_DUP vanished")
    badr = None
    nr = 0
    for path in rms.paths():
        evs = list(rules.path_events(rms, path))
        if ins_[0] not in evs:
            continue
        a = rules.path_assumes_after(path, ins_[0])
        if not (a.get(rvn) is True or a.get("(%s == 0)" % rvn) is False):
            continue
        rel = [e for e in evs if e.kind == "call" and e.callee in ("m_mem_unref", "m_mem_unrefp") and S(e.args[0]).lstrip("&") == srcn]
        if not rel:
            continue
        nr += 1
        clr = [e for e in evs if e.kind == "assign" and S(e.lhs) == "%s->flags" % srcn and e.e["op"] == "&=" and cval(e.rhs) is not None
               and (cval(e.rhs) & AC) == 0 and evs.index(e) < evs.index(rel[0])]
        owned = a.get("(flags & %d)" % E["M_SRC_DUP"])
        if owned is not True and not clr:
            badr = path
    ck.ob("C20.1-WHO-CLOSES", rms.site("refused registration keeps the user's descriptor open"), badr is None and nr > 0,
          "%d refusing path(s): M_SRC_FD_AUTOCLOSE is cleared before the rejected source is released unless the descriptor is the library's own duplicate" % nr
          if badr is None else "a refused registration (-EEXIST) releases its source with M_SRC_FD_AUTOCLOSE still set: the destructor closes the user's "
          "descriptor, which the existing registration still polls", path=rules.fmt_path(rms, badr) if badr else None)

    # ------------------------------------------------------------------ 2. who opens, and the closing counterpart
    ck.rule("C20.2-WHO-OPENS", "pairing table: epoll_create1 only in poll_create (closed by poll_destroy from ctx_dtor); pipe only in _pipe (read end: "
            "AUTOCLOSE PS source, write end: reset_module); timerfd/signalfd/inotify/pidfd/eventfd only in the create_* helpers, reached only "
            "through create_priv_fd from poll_set_new_evt on ADD (closed on RM); dup in create_src forces AUTOCLOSE; dup in m_ctx_fd is handed to "
            "the user.  Any other descriptor-creating call in Lib/ is reported", floor=8)
    table = {
        "epoll_create1": {"poll_create"}, "pipe": {"_pipe"}, "timerfd_create": {"create_timerfd"}, "signalfd": {"create_signalfd"},
        "inotify_init1": {"create_inotifyfd"}, "syscall": {"create_pidfd"}, "eventfd": {"create_eventfd"}, "dup": {"create_src", "m_ctx_fd"},
        "fopen": {"libmodule_log_init"},
    }
    # the small creating helpers may be folded into their only caller without changing who opens what
    FOLD = {"_pipe": "init_pubsub_fd", "create_timerfd": "create_priv_fd", "create_signalfd": "create_priv_fd", "create_inotifyfd": "create_priv_fd",
            "create_pidfd": "create_priv_fd", "create_eventfd": "create_priv_fd"}
    for op_, fs_ in table.items():
        for h_ in list(fs_):
            if h_ in FOLD and not P.by_name.get(h_):
                fs_.add(FOLD[h_])
    nop = 0
    for ev in P.calls_to(OPENERS):
        f = ev.fn
        nop += 1
        ck.analysed(f)
        ck.call_sites += 1
        ok = f.name in table.get(ev.callee, set())
        ck.ob("C20.2-WHO-OPENS", f.site("%s()" % ev.callee), ok, "%s at line %d in %s" % (ev.callee, ev.line, f.name) + ("" if ok else ": descriptor created outside the pairing table (who closes it?)"))
    ck.need(nop >= 8, "descriptor-creating call sites shrank to %d" % nop)
    cf = P.fn("m_ctx_fd")
    dfd = [e for e in cf.calls("dup")]
    exf = rules.Expander(cf, stable=False)
    rets = [exf.at(e, e.e) for e in cf.events() if e.kind == "ret" and cval(e.e) is None]
    ck.ob("C20.2-WHO-OPENS", cf.site("dup handed to the user"), len(dfd) == 1 and len(rets) == 1 and rets[0].startswith("dup(poll_get_fd("),
          "m_ctx_fd duplicates the poll handle %d time(s) and returns %s" % (len(dfd), rets))
    cp = P.fn("create_priv_fd")
    helpers = {"create_timerfd", "create_signalfd", "create_inotifyfd", "create_pidfd", "create_eventfd"}
    # each creating helper is reached through create_priv_fd only — called there directly, or listed in a table of function pointers that
    # only create_priv_fd reads (a switch and a lookup table are the same dispatch)
    def _users(h):
        out = set()
        for f_ in P.funcs:
            for ev_ in f_.events():
                for x_ in lm.walk(ev_.e):
                    if isinstance(x_, dict) and ((x_.get("k") == "call" and x_.get("callee") == h) or
                                                 (x_.get("k") == "var" and x_.get("vk") == "func" and x_.get("name") == h)):
                        out.add(f_.name)
        for g_ in P.globals:
            if g_.get("init") is not None and any(isinstance(x_, dict) and x_.get("k") == "var" and x_.get("vk") == "func" and x_.get("name") == h
                                                    for x_ in lm.walk(g_["init"])):
                readers = {f_.name for f_ in P.funcs for ev_ in f_.events() for x_ in lm.walk(ev_.e)
                           if isinstance(x_, dict) and x_.get("k") == "var" and x_.get("vk") in ("global", "slocal") and x_.get("name") == g_["name"]}
                out |= readers or {"<table %s>" % g_["name"]}
        return out
    okc = all(_users(h) == {"create_priv_fd"} for h in helpers if P.by_name.get(h))   # (a helper folded into create_priv_fd is covered by the table above)
    cps = list(P.calls_to("create_priv_fd"))
    okc = okc and {e.fn.name for e in cps} == {"poll_set_new_evt"} and all(has(X.facts(e.fn, e), "(flag == %d)" % E["ADD"], True) or has(X.facts(e.fn, e), "flag", False) for e in cps)
    ck.ob("C20.2-WHO-OPENS", cp.site("only on ADD"), okc, "internal descriptors are created only by poll_set_new_evt(ADD): %s" % okc)
    # an internal descriptor is created only together with the poll record (first ADD): ADD must be idempotent
    ps_ = P.fn("poll_set_new_evt")
    bad_p = None
    n_ = 0
    for path in ps_.paths():
        evs = list(rules.path_events(ps_, path))
        if any(e in cps for e in evs):
            n_ += 1
            if rules.path_assumes_aliased(ps_, path).get("tmp->ev") is not False and not _fresh_record(ps_, path):
                bad_p = path
    ck.ob("C20.2-WHO-OPENS", ps_.site("descriptor only with a fresh poll record"), bad_p is None and n_ > 0,
          "%d path(s) reach create_priv_fd, all for a source that had no poll record yet" % n_ if bad_p is None else
          "create_priv_fd() is reachable for a source that is already registered (tmp->ev set): a second ADD (tick set from on_start during loop start, "
          "registration while paused followed by resume) overwrites and leaks the first descriptor", path=rules.fmt_path(ps_, bad_p) if bad_p else None)
    cs = P.fn("create_src")
    dups = [e for e in cs.calls("dup")]
    okd = bool(dups)
    for e in dups:
        follow = [x for x in e.block.events[e.idx:] if x.kind == "assign" and S(x.lhs) == "src->flags" and x.e["op"] == "|=" and cval(x.rhs) == AC]
        okd = okd and bool(follow) and has(X.facts(cs, e), "(flags & %d)" % E["M_SRC_DUP"])
    ck.ob("C20.2-WHO-OPENS", cs.site("dup forces AUTOCLOSE"), okd, "a duplicated descriptor is marked auto-close in the same block: %s" % okd,
          witness=[("del_event", cs.unit, cs.name, x.block.id, x.idx) for e in dups for x in e.block.events[e.idx:] if x.kind == "assign" and S(x.lhs) == "src->flags"])
    ip = P.fn("init_pubsub_fd")
    regs = [e for e in ip.calls("register_mod_src")]
    okp = bool(regs) and all((cval(e.args[3]) or 0) & AC and cval(e.args[1]) == E["M_SRC_TYPE_PS"] for e in regs)
    ck.ob("C20.2-WHO-OPENS", ip.site("pipe read end auto-close"), okp, "the pipe's read end is registered as an AUTOCLOSE PS source: %s" % okp)

    # ------------------------------------------------------------------ 3. aliasing assumption
    ck.rule("C20.3-FD-ALIAS", "R-LAYOUT: fd_src.fd and the f.fd of tmr/sgn/path/pid/task/thresh sources all live at offset 0 of ev_src_t (the code "
            "closes and resets internal descriptors through fd_src.fd)", floor=7)
    ev_rec = P.record("_ev_src")
    for member in ("fd_src", "tmr_src", "sgn_src", "path_src", "pid_src", "task_src", "thresh_src"):
        fl = [f for f in ev_rec["fields"] if f["name"] == member]
        ok = bool(fl) and fl[0]["off"] == 0
        det = "ev_src_t.%s at offset %s" % (member, fl[0]["off"] if fl else "?")
        if ok and member != "fd_src":
            sub = P.record(fl[0]["rec"])
            ff = [f for f in sub["fields"] if f["name"] == "f"]
            ok = bool(ff) and ff[0]["off"] == 0 and ff[0]["rec"] == "fd_src_t"
            det += ", .f (fd_src_t) at offset %s" % (ff[0]["off"] if ff else "missing")
        if ok:
            fdrec = P.record("fd_src_t")
            ok = fdrec["fields"][0]["name"] == "fd" and fdrec["fields"][0]["off"] == 0
        ck.ob("C20.3-FD-ALIAS", "Lib/core/src.h:ev_src_t.%s" % member, ok, det)

    # ------------------------------------------------------------------ 4. release is unconditional; no double close
    ck.rule("C20.4-RELEASE", "R-MUST-PASS/R-PAIR: every path through src_priv_dtor reaches poll_set_new_evt(…, RM) — which closes internal "
            "descriptors and frees the poll record, and is a no-op for a source that was never added — independently of the owner's current "
            "state; after a close the descriptor field is reset to -1 unless the holder is being destroyed", floor=4)
    sd = P.fn("src_priv_dtor")
    ck.analysed(sd)
    rm = [e for e in sd.calls("poll_set_new_evt") if cval(e.args[2]) == E["RM"]]
    ck.need(rm, "src_priv_dtor no longer removes the source from the poll set")

    def step(st, ev):
        if any(ev is r for r in rm):
            return st | {"removed"}
        return st
    IN = rules.tag_analysis(sd, step, must=True)
    ok = sd.exit in IN and "removed" in IN[sd.exit]
    facts = X.facts(sd, rm[0])
    ck.ob("C20.4-RELEASE", sd.site("poll removal on every path"), ok,
          "every path through the source destructor removes it from the poll set" if ok else
          "poll removal (close of the internal timerfd/eventfd/…, free of the epoll record) happens only under %s: a source destroyed while its "
          "owner is not RUNNING (one-shot source kept alive by a user-held event past stop) leaks its descriptor" % fmt_facts(frozenset(x for x in facts if "m_mod_is" in x[0])))
    # context-owned sources (the tick) have no module: the destructor's removal (guarded by the owner module's state) never applies to
    # them, so deregister_ctx_src must take them out of the poll set itself before it drops the reference
    dc = P.fn("deregister_ctx_src")
    ck.analysed(dc)
    rel = [e for e in dc.calls() if e.callee in ("m_mem_unrefp", "m_mem_unref")]
    ck.need(rel, "deregister_ctx_src no longer releases the source")
    badd = None
    nd = 0
    for path in dc.paths():
        evs = list(rules.path_events(dc, path))
        r_ = [e for e in evs if e in rel]
        if not r_:
            continue
        nd += 1
        ri = evs.index(r_[0])
        if not any(e.kind == "call" and e.callee == "poll_set_new_evt" and cval(e.args[2]) == E["RM"] and S(e.args[1]).lstrip("*") in S(r_[0].args[0])
                   for e in evs[:ri]):
            badd = path
    ck.ob("C20.4-RELEASE", dc.site("poll removal before release"), badd is None and nd > 0,
          "%d releasing path(s) of deregister_ctx_src remove the source from the poll set first" % nd if badd is None else
          "deregister_ctx_src drops a context source without poll_set_new_evt(…, RM): nothing else removes a module-less source, its timer descriptor "
          "and poll record leak and the poll set keeps a pointer to freed memory", path=rules.fmt_path(dc, badd) if badd else None)
    # a descriptor the library just obtained is not forgotten: in the creating helpers, nothing overwrites the field that holds it
    # (with -1 or anything else) without closing it first
    for f in P.funcs:
        if not f.name.startswith("create_") or f.unit != "Lib/core/poll/cmn_linux.c":
            continue
        opens = [e for e in f.events() if e.kind == "assign" and e.rhs is not None and strip(e.rhs)["k"] == "call" and strip(e.rhs).get("callee") in OPENERS]
        for op_ in opens:
            lv = S(op_.lhs)
            bado = None
            for path in f.paths():
                evs = list(rules.path_events(f, path))
                if op_ not in evs:
                    continue
                after_ = evs[evs.index(op_) + 1:]
                for i_, e in enumerate(after_):
                    if e.kind == "assign" and S(e.lhs) == lv:
                        if not any(x.kind == "call" and x.callee == "close" and S(x.args[0]) == lv for x in after_[:i_]):
                            bado = (e, path)
                        break
            ck.ob("C20.4-RELEASE", f.site("%s kept or closed" % lv), bado is None,
                  "the descriptor stored in %s is never overwritten without being closed" % lv if bado is None else
                  "%s overwrites %s (line %d) while it still holds the descriptor just obtained from %s(): that descriptor is leaked — every later removal only "
                  "sees the new value" % (f.name, lv, bado[0].line, strip(op_.rhs)["callee"]), path=rules.fmt_path(f, bado[1]) if bado else None)
    dtor_like = {"src_priv_dtor", "poll_destroy"}
    for ev in closes:
        f = ev.fn
        if f.name in dtor_like:
            continue
        a = S(ev.args[0])
        ex = rules.Expander(f, stable=False)
        arg = ex.at(ev, ev.args[0])
        after = rules.events_between(f, ev, _exit_ev(f)) if False else [e for b in f.blocks.values() for e in b.events]
        resets = [e for e in f.events() if e.kind == "assign" and S(e.lhs) == arg and cval(e.rhs) == -1 and _after(f, ev, e)]
        ck.ob("C20.4-RELEASE", f.site("reset after close(%s)" % arg), bool(resets), "'%s' is set to -1 after being closed: %s" % (arg, bool(resets)),
              witness=[("del_event", f.unit, f.name, e.block.id, e.idx) for e in resets])

    ck.not_decided += ["counts of open descriptors over histories", "kernel-side effects"]


def _after(f, a, b):
    if a.block.id == b.block.id:
        return a.idx < b.idx
    seen, st = set(), [s for s in a.block.succs if s is not None]
    while st:
        n = st.pop()
        if n == b.block.id:
            return True
        if n in seen:
            continue
        seen.add(n)
        st.extend(s for s in f.blocks[n].succs if s is not None)
    return False


def _exit_ev(f):
    return None
