"""C05 — map as dictionary: structural clauses (DESIGN §4 C05)."""
import re
import lm
import rules
from lm import S, strip, cval, walk
from props.common import Ctx, has, fmt_facts
from props.containers import is_free_call, dtor_discipline, itr_removed_guards

LEVEL = "other"
M = "Lib/structs/map.c"



def slot_zeroing(P, ce, moves):
    """{base: [events]} — whole-slot zeroing written as stores of NULL/0 to *every* field of map_elem through one base pointer, outside
    any loop and after the back-shift loop (reachable from a move inside it): the field-by-field spelling of memset(base, 0, sizeof)."""
    if not moves:
        return {}
    fields = {f["name"] for f in P.record("map_elem")["fields"]}
    loopb = ce.in_loop_blocks()
    by = {}
    for e in ce.events():
        if e.kind != "assign" or e.lhs is None or e.rhs is None or e.block.id in loopb:
            continue
        l_ = strip(e.lhs)
        r_ = strip(e.rhs)
        if l_ is None or l_["k"] != "member" or l_.get("field", l_.get("name")) not in fields or r_ is None:
            continue
        if not (r_["k"] == "null" or cval(e.rhs) == 0):
            continue
        if not rules.may_precede(ce, moves[0], e):
            continue
        by.setdefault(S(l_["base"]) if "base" in l_ else S(l_["e"]), {})[l_.get("field", l_.get("name"))] = e
    return {b: list(d.values()) for b, d in by.items() if set(d) == fields}

def _is_strdup(e):
    e = strip(e)
    return e is not None and e["k"] == "call" and e.get("callee") == "mem_strdup"


def own_paths(ck, f, var, start_ev, store_field, rule, what):
    """Every path from start_ev (None: function entry, `var` is a parameter) to the exit stores `var` into a
    <x>.<store_field> or frees it; paths on which `var` is known NULL are exempt."""
    bad = None
    n = 0
    for path in f.paths():
        evs = list(rules.path_events(f, path))
        if start_ev is not None:
            ids = [id(e) for e in evs]
            if id(start_ev) not in ids:
                continue
            evs = evs[ids.index(id(start_ev)) + 1:]
        assumed = rules.path_assumes_after(path, start_ev) if start_ev is not None else rules.path_assumes(path)
        if assumed.get(var) is False:
            continue
        n += 1
        done = False
        for e in evs:
            if e.kind == "assign" and e.e["op"] == "=":
                l = strip(e.lhs)
                if l["k"] == "member" and l["field"] == store_field and S(e.rhs) == var:
                    done = True
            if is_free_call(e) and e.args and S(e.args[0]) == var:
                done = True
        if not done:
            bad = path
            break
    wit = [e for e in f.events() if e.kind == "assign" and strip(e.lhs)["k"] == "member" and strip(e.lhs)["field"] == store_field and S(e.rhs) == var]
    ck.ob(rule, f.site(what), bad is None and n > 0,
          "%d path(s): the duplicated key is stored into an entry or released" % n if bad is None else
          "on this path the duplicated key is neither stored into an entry nor released (leak)",
          path=rules.fmt_path(f, bad) if bad else None, witness=[("del_event", f.unit, f.name, e.block.id, e.idx) for e in wit])


def run(ck, P):
    X = Ctx(P)
    E = P.enums
    for n in ("M_MAP_KEY_DUP", "M_MAP_KEY_AUTOFREE", "M_MAP_VAL_ALLOW_UPDATE"):
        ck.need(n in E, "map flag %s vanished" % n)
    hp = P.fn("hashmap_put", M)
    ce = P.fn("clear_elem", M)
    mp = P.fn("m_map_put", M)
    ck.analysed(hp, ce, mp)

    # ------------------------------------------------------------------ 1. duplicated keys are owned
    ck.rule("C05.1-DUPKEY-OWNED", "R-OWN: every key duplicated by the map (mem_strdup in map.c) is, on every path from the duplication "
            "to the function exit — following it into the callee it is handed to — stored into an entry's key field or released", floor=1)
    nsite = 0
    for f in [f for f in P.funcs if f.unit == M]:
        for ev in f.events():
            # (a) result bound to a local
            if ev.kind in ("decl", "assign") and ev.rhs is not None and any(_is_strdup(n) for n in walk(ev.rhs)) and ev.kind != "call":
                var = S(ev.lhs)
                if strip(ev.lhs)["k"] == "member":
                    # stored straight into the entry (possibly through ?:) — owned at once
                    nsite += 1
                    ck.ob("C05.1-DUPKEY-OWNED", f.site("dup->" + var), strip(ev.lhs)["field"] == "key",
                          "duplicate stored directly into %s at line %d" % (var, ev.line))
                    continue
                nsite += 1
                own_paths(ck, f, var, ev, "key", "C05.1-DUPKEY-OWNED", "dup@%s" % var)
            # (b) passed directly as an argument
            if ev.kind == "call" and ev.callee and ev.callee != "mem_strdup":
                for i, a in enumerate(ev.args):
                    if any(_is_strdup(n) for n in walk(a)):
                        tf = P.resolve(f, ev.callee)
                        ck.need(tf is not None and i < len(tf.params), "duplicated key passed to unknown callee %s" % ev.callee)
                        nsite += 1
                        ck.analysed(tf)
                        own_paths(ck, tf, tf.params[i]["name"], None, "key", "C05.1-DUPKEY-OWNED",
                                  "param %s (dup from %s)" % (tf.params[i]["name"], f.name))
    ck.need(nsite >= 1, "key duplication site (mem_strdup) vanished from map.c")
    # the caller's key stays the caller's when the map duplicates keys: a put may release the pointer it was handed only where the
    # map is known not to be a KEY_DUP map (m_map_new forces AUTOFREE on DUP maps, so an AUTOFREE test alone proves nothing)
    badk = None
    nrel = 0
    for f in (hp, mp):
        kname = f.params[1]["name"]
        for path in f.paths():
            asm = rules.path_assumes(path)
            own = False
            for e in rules.path_events(f, path):
                if e.kind in ("assign", "decl") and e.lhs is not None and S(e.lhs) == kname:
                    own = True          # from here on the name holds the map's own copy (C05.1 follows that one)
                if is_free_call(e) and e.args and strip(e.args[0]) is not None and strip(e.args[0])["k"] == "var" \
                        and strip(e.args[0]).get("name") == kname and not own:
                    nrel += 1
                    if asm.get("(m->flags & %d)" % E["M_MAP_KEY_DUP"]) is not False and badk is None:
                        badk = (f, e, path)
    ck.ob("C05.1-DUPKEY-OWNED", hp.site("caller's key"), badk is None,
          "%d release(s) of the key handed to a put, none on a path where the map may be duplicating keys" % nrel if badk is None else
          "%s releases the key it was handed at line %d on a path that does not exclude M_MAP_KEY_DUP: on a duplicating map that pointer "
          "belongs to the caller (the entry keeps its private copy)" % (badk[0].name, badk[1].line),
          path=rules.fmt_path(badk[0], badk[2]) if badk else None, nontrivial=False)

    # ------------------------------------------------------------------ 2. destructor before overwrite / clear
    ck.rule("C05.2-DTOR-BEFORE-DROP", "R-PAIR: a store that replaces the value of a live entry (hashmap_put) or clears an entry "
            "(clear_elem) is preceded, on every path with a destructor set, by m->dtor(old value); with no destructor nothing is called; "
            "the key is released exactly when the map owns keys; the destructor is called nowhere else", floor=4)
    # hashmap_put update path
    bad = None
    n = 0
    for path in hp.paths():
        assumed = rules.path_assumes(path)
        if assumed.get("entry->key") is not True:
            continue
        evs = list(rules.path_events(hp, path))
        stores = [i for i, e in enumerate(evs) if e.kind == "assign" and S(e.lhs) == "entry->data"]
        if not stores:
            continue
        n += 1
        dts = [i for i, e in enumerate(evs) if e.kind == "call" and e.callee is None and S(e.e["fn"]) == "m->dtor"]
        want = assumed.get("m->dtor") is not False and assumed.get("(entry->data == value)") is not True
        if want and not (len(dts) == 1 and dts[0] < stores[0] and S(evs[dts[0]].args[0]) == "entry->data"):
            bad = ("update path replaces the value of a live entry without destroying the old one (destructor %s)"
                   % ("set" if assumed.get("m->dtor") else "never consulted"), path)
        if assumed.get("m->dtor") is False and dts:
            bad = ("destructor called although none is set", path)
        if dts and assumed.get("(entry->data == value)") is not False:
            bad = ("the destructor runs on the stored value although the put may be storing that very same pointer again "
                   "(no test that the new value differs): a live value is destroyed", path)
        if bad:
            break
    ck.ob("C05.2-DTOR-BEFORE-DROP", hp.site("update"), bad is None and n > 0,
          "%d update path(s): old value destroyed before being replaced" % n if bad is None else bad[0],
          path=rules.fmt_path(hp, bad[1]) if bad else None,
          witness=[("del_event", hp.unit, hp.name, e.block.id, e.idx) for e in rules.dtor_calls(hp, {"_map"})])
    # clear_elem
    bad = None
    n = 0
    for path in ce.paths():
        assumed = rules.path_assumes(path)
        evs = list(rules.path_events(ce, path))
        n += 1
        dts = [i for i, e in enumerate(evs) if e.kind == "call" and e.callee is None and S(e.e["fn"]) == "m->dtor"]
        clr = [i for i, e in enumerate(evs) if e.kind == "assign" and S(e.lhs).endswith("->data") and strip(e.rhs)["k"] == "null"]
        kfree = [i for i, e in enumerate(evs) if is_free_call(e) and e.args and S(e.args[0]).endswith("->key")]
        if assumed.get("m->dtor") is True and not (len(dts) == 1 and clr and dts[0] < clr[0] and S(evs[dts[0]].args[0]).endswith("->data")):
            bad = ("entry cleared without destroying its value", path)
        elif assumed.get("m->dtor") is False and dts:
            bad = ("destructor called although none is set", path)
        elif assumed.get("(m->flags & %d)" % E["M_MAP_KEY_AUTOFREE"]) is True and len(kfree) != 1:
            bad = ("owned key released %d time(s)" % len(kfree), path)
        elif assumed.get("(m->flags & %d)" % E["M_MAP_KEY_AUTOFREE"]) is False and kfree:
            bad = ("foreign key released", path)
        if bad:
            break
    ck.ob("C05.2-DTOR-BEFORE-DROP", ce.site("clear"), bad is None and n > 0,
          "%d path(s): value destroyed once, key released iff owned" % n if bad is None else bad[0],
          path=rules.fmt_path(ce, bad[1]) if bad else None,
          witness=[("del_event", ce.unit, ce.name, e.block.id, e.idx) for e in rules.dtor_calls(ce, {"_map"})])
    dtor_discipline(ck, P, X, "C05.2-DTOR-BEFORE-DROP", M, "_map", {"hashmap_put", "clear_elem"},
                    ["m_map_get", "m_map_contains", "m_map_len", "m_map_itr_get_data", "m_map_itr_get_key", "hashmap_rehash"],
                    ["m_map_remove", "m_map_itr_remove", "m_map_clear", "m_map_free"])
    # moves, not copies
    ck.rule("C05.2-MOVES", "R-SHAPE: whole-entry memcpy in back-shift deletion and rehash is a move: in clear_elem the source slot becomes "
            "the next slot to fill and the last one is zeroed; in hashmap_rehash the old table is freed on success and the new one on revert", floor=2)
    mc = [ev for ev in ce.calls("memcpy")]
    okm = bool(mc)
    for ev in mc:
        dst, src = S(ev.args[0]), S(ev.args[1])
        follow = [e for e in ev.block.events[ev.idx + 1:] if e.kind == "assign" and S(e.lhs) == dst and S(e.rhs) == src]
        okm = okm and bool(follow)
    ms = [ev for ev in ce.calls("memset") if ev.block.id not in ce.in_loop_blocks()]
    zs = slot_zeroing(P, ce, mc)            # the same thing spelt as a compound-literal / field-by-field zeroing after the loop
    okm = okm and (bool(ms) or bool(zs)) and all(mc and S(e.args[0]) == S(mc[0].args[0]) and cval(e.args[1]) == 0 for e in ms) \
        and all(mc and b_ == S(mc[0].args[0]) for b_ in zs)
    ck.ob("C05.2-MOVES", ce.site("back-shift"), okm, "back-shift moves entries and zeroes the last vacated slot: %s" % okm)
    rh = P.fn("hashmap_rehash", M)
    ck.analysed(rh)
    frees = [S(e.args[0]) for e in rh.events() if is_free_call(e)]
    # what is freed, whatever the locals are called: the table the map had (a copy of m->table) and the freshly allocated one
    fsrc = set()
    for e in rh.events():
        if is_free_call(e):
            a0 = strip(e.args[0])
            fsrc |= rules.value_sources(rh, a0["name"]) if a0["k"] == "var" else {S(a0)}
    old_freed = any(x_ == "m->table" for x_ in fsrc)
    new_freed = any("_calloc" in x_ or "_malloc" in x_ for x_ in fsrc)
    ck.ob("C05.2-MOVES", rh.site("rehash"), old_freed and new_freed and list(rh.calls("memcpy")) != [],
          "rehash frees %s (values: %s)" % (frees, sorted(fsrc)))

    # ------------------------------------------------------------------ 3. bookkeeping
    ck.rule("C05.3-LENGTH", "R-PAIR: a key becomes non-NULL exactly with length++ (hashmap_put), clear_elem clears the key and does "
            "length-- exactly once per call; m_map_len returns that field; nobody else writes length", floor=4)
    bad = None
    n = 0
    for path in hp.paths():
        evs = list(rules.path_events(hp, path))
        ks = [e for e in evs if e.kind == "assign" and S(e.lhs) == "entry->key"]
        inc = [e for e in evs if e.kind == "incdec" and S(e.lhs) == "m->length" and e.e["op"] == "++"]
        n += 1
        if len(ks) != len(inc):
            bad = ("%d key store(s) but %d length++" % (len(ks), len(inc)), path)
            break
        assumed = rules.path_assumes(path)
        if ks and assumed.get("entry->key") is not False:
            bad = ("key stored into a slot that is not known to be empty", path)
            break
    ck.ob("C05.3-LENGTH", hp.site("key<->length++"), bad is None, "%d path(s) agree" % n if bad is None else bad[0],
          path=rules.fmt_path(hp, bad[1]) if bad else None,
          witness=[("del_event", hp.unit, hp.name, e.block.id, e.idx) for e in hp.events() if e.kind == "incdec" and S(e.lhs) == "m->length"])
    bad = None
    for path in ce.paths():
        evs = list(rules.path_events(ce, path))
        dec = [e for e in evs if e.kind == "incdec" and S(e.lhs) == "m->length" and e.e["op"] == "--"]
        zero_evs = {id(z) for grp in slot_zeroing(P, ce, [ev for ev in ce.calls("memcpy")]).values() for z in grp}
        kz = [e for e in evs if e.kind == "assign" and S(e.lhs).endswith("->key") and strip(e.rhs)["k"] == "null" and id(e) not in zero_evs]
        if len(dec) != 1 or len(kz) != 1:
            bad = ("clear_elem does length-- %d time(s), clears the key %d time(s)" % (len(dec), len(kz)), path)
            break
    ck.ob("C05.3-LENGTH", ce.site("clear<->length--"), bad is None, "each call clears one key and decrements once" if bad is None else bad[0],
          path=rules.fmt_path(ce, bad[1]) if bad else None,
          witness=[("del_event", ce.unit, ce.name, e.block.id, e.idx) for e in ce.events() if e.kind == "incdec" and S(e.lhs) == "m->length"])
    wr = list(P.writes_to_field("_map", "length"))
    ck.ob("C05.3-LENGTH", "Lib/structs/map.c:_map.length writers", {w.fn.name for w in wr} <= {"hashmap_put", "clear_elem"},
          "writers: %s" % sorted({w.fn.name for w in wr}), nontrivial=False)
    ml = P.fn("m_map_len", M)
    rv = [S(e.e) for e in ml.events() if e.kind == "ret" and cval(e.e) is None]
    ck.ob("C05.3-LENGTH", ml.site("return"), rv == ["m->length"], "m_map_len returns %s" % rv, nontrivial=False)

    # ------------------------------------------------------------------ 4. table size stays a power of two
    ck.rule("C05.4-POW2", "R-WHO-WRITES + constants: table_size is written only with a power-of-two constant, table_size << k, or a value "
            "saved from table_size (MAP_SIZE_MOD is a mask, so every lookup depends on it)", floor=3)
    ws = list(P.writes_to_field("_map", "table_size"))
    ck.need(len(ws) >= 3, "stores to _map.table_size vanished")
    for ev in ws:
        f = ev.fn
        r = strip(ev.rhs)
        v = cval(ev.rhs)
        ok = False
        if ev.kind == "assign" and ev.e["op"] == "=":
            if v is not None:
                ok = v > 0 and (v & (v - 1)) == 0
            elif r["k"] == "bin" and r["op"] == "<<" and (cval(r["r"]) or 0) >= 1 and \
                    (S(r["l"]).endswith("->table_size") or rules.Expander(f, stable=False).at(ev, r["l"]).endswith("->table_size")):
                ok = True           # table_size << k, possibly through a local that saved table_size
            elif r["k"] == "var" and r.get("vk") == "local":
                ds = [d for d in f.events() if d.kind in ("decl", "assign") and d.lhs is not None and S(d.lhs) == r["name"] and d.rhs is not None]
                ok = bool(ds) and all(S(d.rhs).endswith("->table_size") for d in ds)
        ck.ob("C05.4-POW2", f.site("table_size=%s" % S(ev.rhs)), ok, "store '%s' at line %d" % (S(ev.e), ev.line))
    # the table allocated for a size matches that size
    for f in (P.fn("m_map_new", M), rh):
        ck.analysed(f)
        allocs = [ev for ev in f.events() if ev.kind in ("decl", "assign") and ev.rhs is not None and strip(ev.rhs)["k"] == "call"
                  and not strip(ev.rhs).get("callee") and S(strip(ev.rhs)["fn"]).endswith("_calloc")
                  and len(strip(ev.rhs)["args"]) > 1 and "map_elem" in (strip(strip(ev.rhs)["args"][1]) or {}).get("of", "")]
        exf = rules.Expander(f, stable=False)       # values at definition time: `old_size << 1` is `m->table_size << 1`
        sizes = [exf.at(a, strip(a.rhs)["args"][0]) for a in allocs]
        stores = [exf.at(w, w.rhs) for w in ws if w.fn is f and not (strip(w.rhs)["k"] == "var" and strip(w.rhs).get("vk") == "local")]
        ck.ob("C05.4-POW2", f.site("alloc==size"), bool(sizes) and all(s in stores for s in sizes),
              "table allocated with %s entries, table_size set to %s" % (sizes, stores), nontrivial=False)

    # ------------------------------------------------------------------ 5. growth precedes insertion; probing is bounded
    ck.rule("C05.5-GROW-PROBE", "R-SHAPE: hashmap_put grows the table (load bound) before it looks for the slot; the probe loops of "
            "hashmap_entry_find and clear_elem are bounded by table_size >> 1", floor=3)
    reh = list(hp.calls("hashmap_rehash"))
    finds = list(hp.calls("hashmap_entry_find"))
    ok = bool(reh) and bool(finds)
    if ok:
        first_find = finds[0]
        # the growth that happens under a comparison of the table size with the length (however the comparison is written)
        load = [e for e in reh if any("->table_size" in a_ and "->length" in a_ for (a_, _p) in (X.facts(hp, e) or ()))]
        ok = bool(load) and all(hp.ev_dominates(e, first_find) or e.block.id in hp.dominators()[first_find.block.id] or
                                _precedes(hp, e, first_find) for e in load)
    ck.ob("C05.5-GROW-PROBE", hp.site("rehash<find"), ok, "load-factor rehash precedes the slot search: %s" % ok)
    for f in (P.fn("hashmap_entry_find", M), ce):
        pl = [ev for ev in f.events() if ev.kind == "decl" and ev.e.get("name") == "probe_len"]
        okp = bool(pl) and all(S(d.rhs) in ("(m->table_size >> 1)",) for d in pl)
        loops = [b for b in f.blocks.values() if b.id in f.in_loop_blocks() and b.term and b.term.get("cond") is not None
                 and "probe_len" in S(b.term["cond"])]
        ck.ob("C05.5-GROW-PROBE", f.site("probe bound"), okp and bool(loops), "probe_len = %s bounds the loop: %s"
              % ([S(d.rhs) for d in pl], bool(loops)))

    # back-shift deletion: the decision to move an entry into the vacated slot compares slot positions on a *circular* table; whatever
    # the formula, it cannot be right for clusters that wrap past the last slot unless it involves the table size (mask)
    shifts = [e for e in ce.calls("memcpy") if e.block.id in ce.in_loop_blocks()]
    ck.need(shifts, "clear_elem lost its back-shift move")
    cdm = ce.control_deps()
    okc = True
    detc = []
    for e in shifts:
        conds = [S(ce.blocks[b].term["cond"]) for b in cdm.get(e.block.id, set()) if ce.blocks[b].term and ce.blocks[b].term.get("cond") is not None]
        deciding = [c for c in conds if "removed_index" in c or "entry_index" in c]
        detc += deciding
        if not deciding or not any("table_size" in c for c in deciding):
            okc = False
    # a difference of two slot indices means something only modulo the table size: it must be reduced (`& mask`, `% size`) before it is
    # compared — the unsigned difference of a cluster that wraps past the last slot is huge
    def _unreduced(e, parent=None):
        e0 = strip(e)
        if e0 is None:
            return []
        out = []
        if e0.get("k") == "bin" and e0.get("op") == "-" and cval(e0["l"]) is None and cval(e0["r"]) is None:
            par = strip(parent) if parent is not None else None
            reduced = par is not None and par.get("k") == "bin" and par.get("op") in ("&", "%") and \
                "table_size" in S(par["r"] if strip(par["l"]) is e0 else par["l"])
            if not reduced:
                out.append(S(e0))
        for k_ in ("l", "r", "e", "c", "a", "b"):
            if isinstance(e0.get(k_), dict):
                out += _unreduced(e0[k_], e0)
        for a_ in e0.get("args", []) or []:
            out += _unreduced(a_, e0)
        return out
    raw = []
    for e in shifts:
        for b in cdm.get(e.block.id, set()):
            t_ = ce.blocks[b].term
            if t_ and t_.get("cond") is not None and ("removed_index" in S(t_["cond"]) or "entry_index" in S(t_["cond"])):
                raw += _unreduced(t_["cond"])
    ck.ob("C05.5-GROW-PROBE", ce.site("index differences are reduced modulo the table size"), not raw,
          "every difference of slot indices in the shift decision is masked with the table size before it is compared" if not raw else
          "the shift decision compares the plain difference '%s': for a probe cluster that wraps past the last slot the unsigned difference is huge, the "
          "entry is not shifted back and sits behind an empty slot — a live key is no longer found, removed or updated" % raw[0])
    ck.ob("C05.5-GROW-PROBE", ce.site("circular index comparison"), okc,
          "the shift decision compares slot indices modulo the table size: %s" % detc if okc else
          "the back-shift decision %s compares slot indices without the table size: for a probe cluster that wraps past the last slot the order is wrong — "
          "entries become unreachable after a removal" % (detc or "(not found)"))

    # ------------------------------------------------------------------ 6. no-update maps refuse
    ck.rule("C05.6-NO-UPDATE", "R-GUARD: with M_MAP_VAL_ALLOW_UPDATE clear, putting an existing key returns -EPERM and neither stores a "
            "value nor calls the destructor", floor=1)
    AU = E["M_MAP_VAL_ALLOW_UPDATE"]
    bad = None
    n = 0
    for path in hp.paths():
        assumed = rules.path_assumes(path)
        if assumed.get("entry->key") is True and assumed.get("(m->flags & %d)" % AU) is False:
            n += 1
            evs = list(rules.path_events(hp, path))
            after = False
            rets = [cval(e.e) for e in evs if e.kind == "ret"]
            eff = [e for e in evs if (e.kind == "assign" and S(e.lhs).startswith("entry->")) or
                   (e.kind == "call" and e.callee is None and S(e.e["fn"]) == "m->dtor")]
            if rets != [-1] or eff:
                bad = ("existing key in a no-update map: returns %s, effects %s" % (rets, [S(e.e) for e in eff]), path)
                break
        if assumed.get("entry->key") is True and "(m->flags & %d)" % AU not in assumed:
            evs = list(rules.path_events(hp, path))
            if any(e.kind == "assign" and S(e.lhs) == "entry->data" for e in evs):
                bad = ("value of an existing key replaced without testing M_MAP_VAL_ALLOW_UPDATE", path)
                break
    ck.ob("C05.6-NO-UPDATE", hp.site("EPERM"), bad is None and n > 0, "%d refusing path(s) return -EPERM without effect" % n if bad is None else bad[0],
          path=rules.fmt_path(hp, bad[1]) if bad else None)

    ck.rule("C05.7-ITR-REMOVED", "R-GUARD: map iterator remove/get/set refuse once the current entry was removed through the iterator", floor=4)
    itr_removed_guards(ck, P, X, "C05.7-ITR-REMOVED", M, "m_map")

    # callback iteration with removal of the current entry: back-shift deletion moves the next entry of the cluster into the slot just
    # visited, so the slot must be visited again — the rewind has to act on the very variable the loop advances
    ck.rule("C05.8-ITERATE-REWIND", "R-PAIR: in m_map_iterate, when the callback removed the current entry (the slot's key changed) the loop position is "
            "stepped back once, on the variable the loop step advances (so that step + rewind revisit the slot); any other change of the "
            "length ends the iteration with an error", floor=1)
    mi = P.fn("m_map_iterate", M)
    ck.analysed(mi)
    loops_ = [(t_, h_, mi.natural_loop(t_, h_)) for (t_, h_) in mi.back_edges()]
    cbs = [e for e in mi.calls() if e.callee is None and S(e.e["fn"]) == mi.params[1]["name"]]
    ck.need(len(cbs) == 1 and loops_, "m_map_iterate: callback invocation / loop not found")
    body_ = [l for l in loops_ if cbs[0].block.id in l[2]]
    ck.need(len(body_) == 1, "m_map_iterate: callback is not inside exactly one loop")
    tail_, head_, blocks_ = body_[0]
    # Decided on the iterations themselves (every path once round the loop that runs the callback), not on how the stepping is spelt
    # (`--entry` undone by the loop's `++entry`, or simply not advancing): the position advances by one slot when the callback left the
    # entry and the length alone, and by nothing when the callback removed the entry (the slot's key changed) — whatever else holds.
    def _rel(asm, pat):
        """polarity of an == test matching pat among the path's assumptions (a != test counts with its polarity flipped)"""
        for k_, v_ in asm.items():
            m_ = re.match(r"^\((.+) (==|!=) (.+)\)$", k_)
            if m_ and pat(m_.group(1), m_.group(3)) and v_ in (True, False):
                return v_ if m_.group(2) == "==" else (not v_)
        return None
    is_keycmp = lambda l_, r_: (l_.endswith("->key") and "->" not in r_) or (r_.endswith("->key") and "->" not in l_)
    is_lencmp = lambda l_, r_: l_.endswith("->length") or r_.endswith("->length")
    kept_, removed_ = [], []
    for path in mi.paths(loop_fragments=True):
        evs_ = list(rules.path_events(mi, path))
        if cbs[0] not in evs_ or any(e.kind == "ret" for e in evs_[evs_.index(cbs[0]):]):
            continue
        asm_ = rules.path_assumes_after(path, cbs[0]) if hasattr(rules, "path_assumes_after") else rules.path_assumes(path)
        asm_ = dict(rules.path_assumes(path), **(asm_ or {}))
        net_ = {}
        for e in evs_[evs_.index(cbs[0]):]:
            if e.kind == "incdec" and strip(e.lhs)["k"] == "var":
                net_[S(e.lhs)] = net_.get(S(e.lhs), 0) + (1 if e.e["op"] == "++" else -1)
            elif e.kind == "assign" and strip(e.lhs)["k"] == "var" and S(e.lhs) in net_:
                net_[S(e.lhs)] = None
        kc_, lc_ = _rel(asm_, is_keycmp), _rel(asm_, is_lencmp)
        if kc_ is False:
            removed_.append((net_, path))
        elif kc_ is True and lc_ is True:
            kept_.append((net_, path))
    ck.need(kept_ and removed_, "m_map_iterate: no iteration path that keeps / that loses the current entry was recognised")
    posv = sorted({v_ for (n_, _p) in kept_ for v_, d_ in n_.items() if d_ == 1})
    okk = len(posv) == 1 and all(n_.get(posv[0]) == 1 for (n_, _p) in kept_)
    badr_ = [(n_, p_) for (n_, p_) in removed_ if not okk or n_.get(posv[0], 0) != 0]
    ck.ob("C05.8-ITERATE-REWIND", mi.site("rewind whenever the entry was removed"), okk and not badr_,
          "on all %d iteration path(s) where the callback removed the current entry the position '%s' does not move (the slot is examined again)"
          % (len(removed_), posv[0] if posv else "?") if okk and not badr_ else
          "an iteration in which the callback removed the current entry moves the position by %s: the entry that back-shift deletion moved into "
          "the visited slot is skipped — it is never shown to the callback"
          % (badr_[0][0] if badr_ else "?"), path=rules.fmt_path(mi, badr_[0][1]) if badr_ else None)
    okw = okk
    ck.ob("C05.8-ITERATE-REWIND", mi.site("rewind acts on the loop position"), okw,
          "an iteration that leaves the entry and the length alone advances exactly one position variable ('%s') by one" % (posv[0] if posv else "?") if okw else
          "iterations that keep the entry advance %s: the position is not a single variable stepped once per kept entry" % posv)

    # remove deletes the named entry or nothing: the slot handed to the removal is occupied — known from a test of its key, or because the
    # lookup was asked for entries only (find_empty == false) and keeps that promise
    mr_ = P.fn("m_map_remove", M)
    ck.analysed(mr_)
    hef = P.fn("hashmap_entry_find", M)
    entries_only = False
    if any(p_["name"] == "find_empty" for p_ in hef.params):
        entries_only = True
        for path in hef.paths(prune=False):
            feas, _env, a_, evs_ = rules.simulate(hef, path, preset={"find_empty": 0})
            if not feas:
                continue
            rets_ = [e for e in evs_ if e.kind == "ret" and e.e is not None]
            if rets_ and strip(rets_[-1].e).get("k") != "null" and cval(rets_[-1].e) != 0 and rules.const_eval(rets_[-1].e, {"find_empty": 0}, a_) != 0 and \
                    any(v_ is False and k_.endswith("->key") for k_, v_ in a_.items()) and not any(k_.startswith("(strcmp(") and v_ is True or
                                                                                              k_.startswith("strcmp(") and v_ is False for k_, v_ in a_.items()):
                entries_only = False          # a slot known to be empty is handed back although entries only were asked for
    badr = []
    for e in mr_.calls():
        if e.callee not in ("clear_elem",) or len(e.args) < 2:
            continue
        slot = S(e.args[1])
        fct = X.facts(mr_, e)
        srcs_ = rules.value_sources(mr_, slot) if strip(e.args[1])["k"] == "var" else {slot}
        from_find = entries_only and srcs_ and all(x_.startswith("hashmap_entry_find(") and x_.rstrip(")").endswith(", 0") for x_ in srcs_) and has(fct, slot)
        if not (has(fct, "%s->key" % slot) or from_find):
            badr.append((slot, e.line, sorted(srcs_)))
    ck.ob("C05.3-LENGTH", mr_.site("removes an occupied slot only"), not badr,
          "m_map_remove hands clear_elem a slot known to hold an entry" if not badr else
          "m_map_remove calls clear_elem(%s) at line %d without knowing that the slot holds an entry (it comes from %s): removing an absent key clears an "
          "empty slot — it reports success, decrements the length and calls the value destructor with NULL" % badr[0])

    ck.rule("C05.9-FLAG-BITS", "R-FLAG-BITS: m_map_flags are single distinct bits (every flag combination means what its parts mean)", floor=1)
    from props.flags import flag_bits
    flag_bits(ck, P, "C05.9-FLAG-BITS", "m_map_flags", M)

    ck.not_decided += ["correctness of probing/back-shift for colliding and wrapping clusters", "iteration visits every live entry exactly once",
                       "growth preserves all entries (depends on hash values)"]


def _precedes(f, a, b):
    """a's block can reach b's block and not vice versa (a is earlier on every path that contains both)."""
    def reach(x, y):
        seen, st = set(), [x]
        while st:
            n = st.pop()
            if n == y:
                return True
            if n in seen:
                continue
            seen.add(n)
            st.extend(s for s in f.blocks[n].succs if s is not None)
        return False
    return reach(a.block.id, b.block.id) and not reach(b.block.id, a.block.id)
