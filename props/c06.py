"""C06 — thread pool: lock discipline and hand-off shape (DESIGN §4 C06, A.9)."""
import re
import lm
import rules
from lm import S, strip, cval, walk, Func
from props.common import Ctx, has, fmt_facts
from props.containers import is_free_call

LEVEL = "other"
T = "Lib/thpool/thpool.c"
LOCK = "&pool->lock"
PROTECTED = ("tasks", "threads", "shutdown")


def lock_expr_ok(e):
    s = S(e)
    return s.endswith("->lock") and s.startswith("&")


def make_lock_step():
    def step(st, ev):
        if ev.kind == "call":
            c = ev.callee
            if c == "pthread_mutex_lock" and ev.args and lock_expr_ok(ev.args[0]):
                return st | {"held"}
            if c == "pthread_mutex_unlock" and ev.args and lock_expr_ok(ev.args[0]):
                return st - {"held"}
        return st
    return step


def lock_edge(fn):
    """A failed pthread_mutex_lock (`ret = lock(); if (ret) return ret;`) leaves the lock not held."""
    lockvars = set()
    for ev in fn.events():
        if ev.kind in ("decl", "assign") and ev.rhs is not None and strip(ev.rhs).get("callee") == "pthread_mutex_lock":
            lockvars.add(S(ev.lhs))

    def edge(st, cond, br, blk):
        if cond is not None and br in (True, False):
            for (a, p) in lm.atoms(cond, br):
                if a in lockvars and p is True and blk.events and blk.events[-1].kind in ("decl", "assign") \
                        and S(blk.events[-1].lhs) == a and strip(blk.events[-1].rhs).get("callee") == "pthread_mutex_lock":
                    return st - {"held"}
        return st
    return edge


def accesses(f):
    """(event-or-block, field, is_write, position) for every mention of a protected _thpool field; branch conditions included."""
    out = []

    def scan(e, where, write_target=None):
        for n in walk(e):
            if n.get("k") == "member" and n.get("rec") == "_thpool" and n["field"] in PROTECTED:
                out.append((where, n["field"], n is write_target))
    for ev in f.events():
        if ev.kind == "assign":
            l = strip(ev.lhs)
            scan(ev.e["r"], ev)
            scan(ev.e["l"], ev, l if l.get("k") == "member" else None)
        elif ev.kind == "call":
            # a container call on the field both reads and (for mutators) writes the container
            mut = ev.callee in ("m_queue_enqueue", "m_queue_dequeue", "m_queue_clear", "m_queue_free", "m_list_insert",
                                "m_list_free", "m_list_remove", "m_queue_remove")
            for a in ev.args:
                for n in walk(a):
                    if n.get("k") == "member" and n.get("rec") == "_thpool" and n["field"] in PROTECTED:
                        out.append((ev, n["field"], mut))
        elif ev.kind == "decl" and ev.rhs is not None and strip(ev.rhs)["k"] != "call":
            scan(ev.rhs, ev)
        elif ev.kind == "incdec":
            scan(ev.e, ev, strip(ev.lhs))
    for b in f.blocks.values():
        if b.id in f.reachable() and b.term and b.term.get("cond") is not None:
            c = b.term["cond"]
            if strip(c)["k"] != "call":
                for n in walk(c):
                    if n.get("k") == "member" and n.get("rec") == "_thpool" and n["field"] in PROTECTED and strip(c)["k"] != "call":
                        # the condition's own sub-calls are events already; plain field reads are not
                        out.append((b, n["field"], False))
    return out


def run(ck, P):
    X = Ctx(P)
    cg = X.cg
    fns = {f.name: f for f in P.funcs if f.unit == T}
    for n in ("thpool_thread", "wait_pool", "m_thpool_add", "m_thpool_free", "m_thpool_new", "m_thpool_length", "m_thpool_clear"):
        ck.need(n in fns, "anchor function %s vanished from thpool.c" % n)
    ck.analysed(*fns.values())

    # ------------------------------------------------------------------ 1. lock pairing
    ck.rule("C06.1-LOCK-PAIR", "R-PAIR: in every function of thpool.c a successfully taken pool->lock is released on every path to the "
            "exit, never taken twice and never released when not held", floor=5)
    lockstate = {}
    for f in fns.values():
        step = make_lock_step()
        edge = lock_edge(f)
        locks = [ev for ev in f.calls("pthread_mutex_lock")]
        INy = rules.tag_analysis(f, step, must=False, edge=edge)
        INm = rules.tag_analysis(f, step, must=True, edge=edge)
        lockstate[f.name] = (INy, INm, step)
        if not locks:
            continue
        ck.call_sites += len(locks)
        atexit = INy.get(f.exit, frozenset())
        leak = None
        if "held" in atexit:
            # find a returning block that is reached with the lock held
            for b in f.blocks.values():
                for ev in b.events:
                    if ev.kind == "ret":
                        st = f.state_before(INy, ev, step)
                        if st and "held" in st:
                            leak = ev
        ck.ob("C06.1-LOCK-PAIR", f.site("unlock on every exit"), "held" not in atexit,
              "every path releases the lock" if "held" not in atexit else
              "return at line %d is reachable with pool->lock still held (next lock attempt deadlocks)" % (leak.line if leak else -1),
              witness=[("del_event", f.unit, f.name, e.block.id, e.idx) for e in f.calls("pthread_mutex_unlock")])
        bad = []
        for ev in locks:
            st = f.state_before(INy, ev, step)
            if st and "held" in st:
                bad.append(ev)
        for ev in f.calls("pthread_mutex_unlock"):
            st = f.state_before(INm, ev, step)
            if st is not None and "held" not in st:
                bad.append(ev)
        ck.ob("C06.1-LOCK-PAIR", f.site("no double lock/unlock"), not bad,
              "lock/unlock calls alternate" if not bad else "%s at line %d with wrong lock state" % (bad[0].callee, bad[0].line), nontrivial=False)

    # ------------------------------------------------------------------ 2. lockset by thread role
    ck.rule("C06.2-LOCKSET", "R-LOCKSET: roles W (thpool_thread), S (m_thpool_add/length/clear + helpers called from them), F (m_thpool_free, "
            "wait_pool), N (m_thpool_new).  For each field the struct declares lock protected (tasks, threads, shutdown): whenever two roles "
            "that may run concurrently (W-W, W-S, S-S, W-F) both access it and one writes, every access in both roles holds pool->lock. "
            "running_tasks is _Atomic; max_threads/flags/init_state are written only by N and F", floor=6)
    role = {"thpool_thread": "W", "m_thpool_add": "S", "m_thpool_length": "S", "m_thpool_clear": "S", "m_thpool_free": "F",
            "wait_pool": "F", "m_thpool_new": "N"}
    # helpers inherit roles (and the lock state) of their call sites
    helper_roles = {}
    helper_locked = {}
    for f in fns.values():
        if f.name in role:
            continue
        rs, locked = set(), True
        sites = [ev for g in fns.values() for ev in g.calls(f.name)]
        for ev in sites:
            r = role.get(ev.fn.name) or "+".join(sorted(helper_roles.get(ev.fn.name, set())))
            rs.add(r)
            if r in ("S", "W"):
                INy, INm, step = lockstate[ev.fn.name]
                st = ev.fn.state_before(INm, ev, step)
                if st is None or "held" not in st:
                    locked = False
        helper_roles[f.name] = rs
        helper_locked[f.name] = locked
    acc = {}   # (role, field) -> list of (locked, write, where)
    for f in fns.values():
        roles = {role[f.name]} if f.name in role else helper_roles.get(f.name, set())
        INy, INm, step = lockstate[f.name]
        for (where, field, wr) in accesses(f):
            if isinstance(where, lm.Block):
                st = f.state_at_end(INm, where.id, step)
                line = where.term["line"]
            else:
                st = f.state_before(INm, where, step)
                line = where.line
            held = st is not None and "held" in st
            if f.name == "m_thpool_free":
                # stages after INITED_STARTED run once wait_pool() has returned (order: C06.5): the workers are gone
                fct = X.facts(f, where) if not isinstance(where, lm.Block) else frozenset()
                svs_ = {S(e_.lhs) for e_ in f.events() if e_.kind == "assign" and e_.e.get("op") == ">>=" and strip(e_.lhs)["k"] == "var"} or {"i"}
                if any(a.startswith("(%s == " % sv_) and p and a != "(%s == %d)" % (sv_, P.enums.get("INITED_STARTED", -1)) for (a, p) in fct for sv_ in svs_):
                    continue
            for r in roles:
                h = held
                if f.name not in role and r in ("S", "W"):
                    h = held or helper_locked.get(f.name, False)
                acc.setdefault((r, field), []).append((h, wr, "%s:%d" % (f.name, line)))
    concurrent = [("W", "W"), ("W", "S"), ("S", "S"), ("W", "F")]
    for field in PROTECTED:
        for (r1, r2) in concurrent:
            a1, a2 = acc.get((r1, field), []), acc.get((r2, field), [])
            if not a1 or not a2:
                continue
            if not any(w for (_h, w, _l) in a1 + a2):
                continue
            unl = [l for (h, w, l) in a1 + a2 if not h]
            # W-F: the freeing thread may read a field the workers never write without the lock
            if (r1, r2) == ("W", "F"):
                wW = any(w for (_h, w, _l) in a1)
                wF = any(w for (_h, w, _l) in a2)
                unl = [l for (h, w, l) in a1 if not h and (wF or w)] + [l for (h, w, l) in a2 if not h and (wW or w)]
            if (r1, r2) == ("S", "S") or (r1, r2) == ("W", "S"):
                # the unlocked pre-check of `shutdown` in M_THREADS_ASSERT is not concurrent with its only writer (F)
                pass
            ck.ob("C06.2-LOCKSET", "%s:_thpool.%s:%s-%s" % (T, field, r1, r2), not unl,
                  "%d+%d accesses, all under pool->lock" % (len(a1), len(a2)) if not unl else "unlocked access(es) at %s" % sorted(set(unl))[:4])
    fld = P.field("_thpool", "running_tasks")
    ck.ob("C06.2-LOCKSET", "%s:_thpool.running_tasks:_Atomic" % T, "_Atomic" in fld["ct"], "running_tasks has type %s" % fld["ct"], nontrivial=False)
    for field in ("max_threads", "flags", "init_state"):
        ws = [w for w in P.writes_to_field("_thpool", field)]
        okw = all(role.get(w.fn.name) in ("N", "F") for w in ws)
        ck.ob("C06.2-LOCKSET", "%s:_thpool.%s:writers" % (T, field), okw and bool(ws), "written by %s" % sorted({w.fn.name for w in ws}), nontrivial=False)

    # ------------------------------------------------------------------ 3. condition variable
    ck.rule("C06.3-COND", "R-COND: pthread_cond_wait sits in a loop whose condition re-reads both the queue length and the shutdown flag, with "
            "the lock held; enqueue+signal and shutdown store+broadcast happen under the lock", floor=3)
    w = fns["thpool_thread"]
    INy, INm, step = lockstate["thpool_thread"]
    waits = list(w.calls("pthread_cond_wait"))
    ck.need(waits, "worker no longer waits on the condition variable")
    for ev in waits:
        st = w.state_before(INm, ev, step)
        held = st is not None and "held" in st
        inloop = ev.block.id in w.in_loop_blocks()
        # innermost loop containing the wait: smallest natural loop
        best = None
        for (t, h) in w.back_edges():
            body = w.natural_loop(t, h)
            if ev.block.id in body and (best is None or len(body) < len(best)):
                best = body
        conds = " ".join(S(w.blocks[b].term["cond"]) for b in (best or ()) if w.blocks[b].term and w.blocks[b].term.get("cond") is not None)
        # after the wait control must go straight back to the predicate test: the wait's block ends in a back edge of that loop
        chain = [ev.block.id]
        for _ in range(3):      # clang puts an empty transition block on the back edge
            nx = [x for x in w.blocks[chain[-1]].succs if x is not None]
            if len(nx) == 1 and not w.blocks[chain[-1]].term:
                chain.append(nx[0])
            else:
                break
        back = []
        bes = w.back_edges()
        for i in range(len(chain) - 1):
            if (chain[i], chain[i + 1]) in bes and not [e for bb in chain[1:i + 1] for e in w.blocks[bb].events]:
                back = [(chain[i], chain[i + 1])]
                break
        if back:
            body = w.natural_loop(*back[0])
            conds = " ".join(S(w.blocks[b].term["cond"]) for b in body if w.blocks[b].term and w.blocks[b].term.get("cond") is not None)
        retest = bool(back)
        ok = held and inloop and retest and "pool->tasks" in conds and "pool->shutdown" in conds and S(ev.args[1]) == LOCK
        ck.ob("C06.3-COND", w.site("cond_wait"), ok, "wait at line %d: lock held=%s, jumps back to re-test=%s, predicate: %s" % (ev.line, held, retest, conds))
    add = fns["m_thpool_add"]
    INy, INm, step = lockstate["m_thpool_add"]
    sig = list(add.calls("pthread_cond_signal"))
    enq = [e for e in add.calls("m_queue_enqueue") if S(e.args[0]) == "pool->tasks"]
    ok = bool(sig) and bool(enq)
    for e in sig + enq:
        st = add.state_before(INm, e, step)
        ok = ok and st is not None and "held" in st
    ok = ok and all(add.ev_dominates(enq[0], s) for s in sig) if enq else False
    ck.ob("C06.3-COND", add.site("enqueue;signal under lock"), ok, "enqueue at %s then signal at %s, both under the lock: %s"
          % ([e.line for e in enq], [e.line for e in sig], ok),
          witness=[("del_event", add.unit, add.name, e.block.id, e.idx) for e in sig])
    wp = fns["wait_pool"]
    INy, INm, step = lockstate["wait_pool"]
    bc = list(wp.calls("pthread_cond_broadcast"))
    sd = [e for e in wp.events() if e.kind == "assign" and S(e.lhs) == "pool->shutdown"]
    ok = bool(bc) and bool(sd)
    for e in bc + sd:
        st = wp.state_before(INm, e, step)
        ok = ok and st is not None and "held" in st
    ok = ok and all(wp.ev_dominates(sd[0], b) for b in bc) if sd else False
    ck.ob("C06.3-COND", wp.site("shutdown;broadcast under lock"), ok, "shutdown store at %s then broadcast at %s under the lock: %s"
          % ([e.line for e in sd], [e.line for e in bc], ok),
          witness=[("del_event", wp.unit, wp.name, e.block.id, e.idx) for e in bc])
    sdw = list(P.writes_to_field("_thpool", "shutdown"))
    ck.ob("C06.3-COND", "%s:_thpool.shutdown:writers" % T, {x.fn.name for x in sdw} == {"wait_pool"}, "shutdown written by %s" % sorted({x.fn.name for x in sdw}),
          nontrivial=False)

    # ------------------------------------------------------------------ 4. hand-off: at most once, right argument
    ck.rule("C06.4-HANDOFF", "R-PAIR in the worker: a task is obtained only by m_queue_dequeue(pool->tasks) under the lock, never when the "
            "queue is empty or shutdown is WAITCURR; then exactly one call task->fn(task->arg) with the lock released, then the task record "
            "is freed; fn/arg are written once, in m_thpool_add, from its parameters", floor=4)
    INy, INm, step = lockstate["thpool_thread"]
    deq = [e for e in w.calls("m_queue_dequeue")]
    ck.need(len(deq) == 1 and S(deq[0].args[0]) == "pool->tasks", "worker's dequeue changed shape")
    st = w.state_before(INm, deq[0], step)
    ck.ob("C06.4-HANDOFF", w.site("dequeue under lock"), st is not None and "held" in st, "dequeue at line %d with lock held" % deq[0].line)
    runs = [e for e in w.calls() if e.callee is None and S(e.e["fn"]).endswith("->fn")]
    ck.need(len(runs) == 1, "worker must contain exactly one task invocation, found %d" % len(runs))
    rcall = runs[0]
    tvar = S(strip(rcall.e["fn"])["base"])
    tdef = [e for e in w.events() if e.kind in ("decl", "assign") and e.lhs is not None and S(e.lhs) == tvar]
    sty = w.state_before(INy, rcall, step)
    frees = [e for e in w.events() if is_free_call(e) and S(e.args[0]) == tvar]
    ok = len(tdef) == 1 and strip(tdef[0].rhs).get("callee") == "m_queue_dequeue" and S(rcall.args[0]) == tvar + "->arg" \
        and (sty is not None and "held" not in sty) and len(frees) == 1 and w.ev_dominates(rcall, frees[0]) and w.ev_dominates(tdef[0], rcall)
    ck.ob("C06.4-HANDOFF", w.site("run once, unlocked, then free"), ok,
          "task=%s from dequeue, call %s(%s) with lock %s, freed afterwards: %s" % (tvar, S(rcall.e["fn"]), S(rcall.args[0]),
                                                                                  "released" if sty is not None and "held" not in sty else "HELD", bool(frees)))
    E = P.enums
    ck.need("SHUTDOWN_WAITCURR" in E, "SHUTDOWN_WAITCURR vanished")
    bad = None
    n = 0
    for path in w.paths(loop_fragments=True):
        evs = list(rules.path_events(w, path))
        if not any(e is deq[0] for e in evs):
            continue
        n += 1
        a = rules.path_assumes(path)
        if a.get("(pool->shutdown == %d)" % E["SHUTDOWN_WAITCURR"]) is True:
            bad = ("a task is dequeued although shutdown is WAITCURR (tasks not yet started must be discarded)", path)
        elif a.get("pool->shutdown") is True and a.get("m_queue_len(pool->tasks)") is False:
            bad = ("dequeue from an empty queue during shutdown", path)
        if bad:
            break
    ck.ob("C06.4-HANDOFF", w.site("shutdown test before dequeue"), bad is None and n > 0,
          "%d path(s) reach the dequeue, none with WAITCURR or an empty queue under shutdown" % n if bad is None else bad[0],
          path=rules.fmt_path(w, bad[1]) if bad else None)
    # the WAITCURR decision must be taken after the worker woke up (after the wait loop), not before it
    wl = None
    for (t_, h_) in w.back_edges():
        bd = w.natural_loop(t_, h_)
        if waits and waits[0].block.id in bd and (wl is None or len(bd) < len(wl)):
            wl = bd
    bad2 = None
    n2 = 0
    if wl:
        for path in w.paths(loop_fragments=True):
            blocks_ = [b for (b, _at) in path]
            if deq[0].block.id not in blocks_:
                continue
            n2 += 1
            idx = max([i for i, b in enumerate(blocks_) if b in wl], default=-1)
            tail = path[idx:] if idx >= 0 else path
            seg = {}
            for (_b, at) in tail:
                for (a_, p_) in at:
                    seg.setdefault(a_, p_)
            if not (seg.get("pool->shutdown") is False or seg.get("(pool->shutdown == %d)" % E["SHUTDOWN_WAITCURR"]) is False):
                bad2 = path
    ck.ob("C06.4-HANDOFF", w.site("shutdown re-tested after waking"), bad2 is None and n2 > 0,
          "%d path(s) to the dequeue all test the shutdown mode after leaving the wait loop" % n2 if bad2 is None else
          "a worker can go from pthread_cond_wait to the dequeue without re-testing SHUTDOWN_WAITCURR: a task that had not started when the pool was "
          "freed without wait-all is run", path=rules.fmt_path(w, bad2) if bad2 else None)
    ats = [e for e in P.calls_to("add_threads")]
    okb = bool(ats)
    detb = []
    for e in ats:
        if e.fn.name == "m_thpool_new":
            okb = okb and S(e.args[1]) == e.fn.params[0]["name"]
            mt = [x for x in e.fn.events() if x.kind == "assign" and S(x.lhs) == "pool->max_threads"]
            okb = okb and bool(mt) and all(S(x.rhs) == e.fn.params[0]["name"] for x in mt)
        else:
            fc2 = rules.stable_atoms(P, X.cg, e.fn, e, X.facts(e.fn, e))      # (the list length may sit in a local read under the same lock)
            okb = okb and cval(e.args[1]) == 1 and has(fc2, "(m_list_len(pool->threads) < pool->max_threads)") and e.block.id not in e.fn.in_loop_blocks()
        detb.append((e.fn.name, S(e.args[1])))
    ck.ob("C06.4-HANDOFF", "%s:add_threads:thread bound" % T, okb,
          "threads are created %s; lazy growth adds one thread only while the list is below max_threads: %s" % (detb, okb))
    # a pool is its own world: everything a worker is created with, joined by or counted in lives in the pool object (or in the
    # creating activation).  Mutable static storage in thpool.c — file level or function-static — is state shared by every pool of the
    # process: the first pool's detach state, limits or counters then decide how a later pool is joined and freed.
    shared = []
    for g in P.globals:
        if g.get("func") or not g.get("is_def") or not str(g.get("file", "")).endswith("thpool/thpool.c"):
            continue
        if not str(g.get("ct") or g.get("t") or "").lstrip().startswith("const "):
            shared.append(("file-level", g["name"], g.get("line")))
    for f in [f for f in P.funcs if f.unit == T]:
        for e in f.events():
            if e.kind == "decl" and e.e.get("static") and not str(e.e.get("ct") or e.e.get("t") or "").lstrip().startswith("const "):
                shared.append((f.name, re.sub(r"__[A-Za-z_][A-Za-z0-9_]*?_\d+$", "", e.e.get("name", "?")), e.e.get("line")))
    ck.ob("C06.4-HANDOFF", "%s:no state shared between pools" % T, not shared,
          "thpool.c keeps no mutable static storage: every pool is created, joined and freed from its own fields" if not shared else
          "mutable static storage %s in thpool.c is shared by all pools of the process: what the first pool stored there (thread attributes, "
          "limits, counters) is applied to every later pool — e.g. workers of a joinable pool created detached, so that wait_pool's "
          "pthread_join fails and m_thpool_free returns with workers still running" % (shared[:3],), nontrivial=False)
    okw = True
    det = []
    for fld, par in (("fn", 1), ("arg", 2)):
        ws = list(P.writes_to_field("thpool_task_t", fld))
        det.append((fld, [(x.fn.name, S(x.rhs)) for x in ws]))
        okw = okw and len(ws) == 1 and ws[0].fn.name == "m_thpool_add" and S(ws[0].rhs) == add.params[par]["name"]
    ck.ob("C06.4-HANDOFF", add.site("fn/arg from parameters"), okw, "stores: %s" % det)
    # a refused submission leaves nothing behind: the lazy thread creation can fail, and its failure is returned to the caller, so the
    # task must not be in the queue yet (a worker would run a task whose submission was reported as failed)
    enq = [e for e in add.calls("m_queue_enqueue") if S(e.args[0]).endswith("->tasks")]
    ck.need(enq, "m_thpool_add no longer enqueues into the task queue")
    late = [(a, e) for a in add.calls("add_threads") for e in enq if rules.may_precede(add, e, a)]
    ck.ob("C06.4-HANDOFF", add.site("enqueue after the fallible steps"), not late,
          "the task is queued (line %s) after the lazy thread creation that can refuse the submission%s"
          % ([e.line for e in enq], "" if not late else ": add_threads at line %d runs after the enqueue at line %d, and its failure is "
             "returned although the task stays queued and will run" % (late[0][0].line, late[0][1].line)))
    # no submission once shutdown began: wait_pool walks the thread list without the lock on the assumption that nobody adds a thread (or a
    # task) after shutdown was requested — a submission accepted during a wait-all drain can spawn a worker nobody joins
    sn_ = E.get("SHUTDOWN_NO", 0)
    effs_ = [e for e in add.calls() if e.callee in ("m_queue_enqueue", "add_threads")]
    okg_ = bool(effs_) and all(has(X.facts(add, e, passed=True), "pool->shutdown", False) or has(X.facts(add, e, passed=True), "(pool->shutdown == %d)" % sn_)
                               for e in effs_)
    ck.ob("C06.4-HANDOFF", add.site("refused once shutdown began"), okg_,
          "m_thpool_add queues a task / grows the pool only for shutdown == SHUTDOWN_NO" if okg_ else
          "m_thpool_add can queue a task or create a thread while a shutdown is in progress: a worker created during m_thpool_free's drain is not in the "
          "list being joined — free returns and destroys the pool while that worker (and the accepted task) still run")
    # lengths are not squeezed into a narrower type on their way to a decision (256 queued tasks are not 0 queued tasks)
    from props.common import narrowing_casts
    nar_ = []
    for f_ in fns.values():
        for ev_ in f_.events():
            for y_ in (ev_.e, ev_.rhs if ev_.kind in ("decl", "assign") else None):
                if y_ is None:
                    continue
                for (fr0_, to_, inner_) in narrowing_casts(y_, explicit=True):
                    if "m_queue_len(" in inner_ or "m_list_len(" in inner_:
                        nar_.append((f_.name, inner_, fr0_, to_, ev_.line))
    nar_ += [(fn_, inner_, fr0_, to_, ln_) for (u_, fn_, inner_, fr0_, to_, ln_) in getattr(P, "narrow_returns", [])
             if u_ == T and ("m_queue_len(" in inner_ or "m_list_len(" in inner_)]
    ck.ob("C06.4-HANDOFF", "%s:queue and list lengths keep their width" % T, not nar_,
          "no length is converted to a narrower type" if not nar_ else
          "%s converts '%s' from '%s' to '%s' (line %d): a backlog whose length is a multiple of the narrower type's range reads as empty — workers sleep "
          "or exit with tasks queued, and a wait-all free destroys them unrun" % nar_[0])
    fr = fns["m_thpool_free"]
    ck.ob("C06.4-HANDOFF", fr.site("pending queue destroyed"), any(S(e.args[0]) == "&p->tasks" for e in fr.calls("m_queue_free")),
          "m_thpool_free destroys the pending queue", nontrivial=False)

    # ------------------------------------------------------------------ 5. nobody touches the pool after free
    ck.rule("C06.5-JOIN-BEFORE-FREE", "R-MUST-PASS: wait_pool marks the pool as having no active threads (clears INITED_STARTED) only after "
            "every created thread was joined, for every pool flavour; m_thpool_free tears down in the reverse order of initialisation "
            "(threads stop, then condvar, mutex, task queue, thread list) and frees the pool last", floor=2)
    joins = list(wp.calls("pthread_join"))
    clr = [e for e in wp.events() if e.kind == "assign" and S(e.lhs) == "pool->init_state"]
    ck.need(clr, "wait_pool no longer clears INITED_STARTED")
    ok = bool(joins)
    det = "no pthread_join in wait_pool"
    if joins:
        jb = joins[0].block.id
        # loop header of the join loop must dominate the 'no active threads' store
        hdrs = [h for (t, h) in wp.back_edges() if jb in wp.natural_loop(t, h)]
        dom = wp.dominators()
        ok = bool(hdrs) and all(any(h in dom[c.block.id] for h in hdrs) for c in clr)
        facts = X.facts(wp, joins[0])
        det = "the join loop dominates the 'no active threads' store" if ok else \
            "INITED_STARTED is cleared (and the pool then destroyed) on a path that skips pthread_join: join is only done under %s" % fmt_facts(
                frozenset(f for f in facts if "flags" in f[0]))
    ck.ob("C06.5-JOIN-BEFORE-FREE", wp.site("join before declaring no active threads"), ok, det)
    order = ["INITED_STARTED", "INITED_COND", "INITED_MUT", "INITED_TASKS", "INITED_THREADS"]
    ck.need(all(o in E for o in order), "INITED_* constants vanished")
    vals = [E[o] for o in order]
    want_call = {"INITED_STARTED": "wait_pool", "INITED_COND": "pthread_cond_destroy", "INITED_MUT": "pthread_mutex_destroy",
                 "INITED_TASKS": "m_queue_free", "INITED_THREADS": "m_list_free"}
    okf = vals == sorted(vals, reverse=True)
    upd = [e for e in fr.events() if e.kind == "assign" and strip(e.lhs)["k"] == "var" and e.e["op"] == ">>="]
    sv_ = S(upd[0].lhs) if upd else "i"        # the stage variable, whatever it is called
    for o in order:
        evs = [e for e in fr.calls(want_call[o])]
        okf = okf and bool(evs) and all(has(X.facts(fr, e), "(%s == %d)" % (sv_, E[o])) for e in evs)
    pf = [e for e in fr.events() if is_free_call(e) and S(e.args[0]) == "p"]
    okf = okf and bool(upd) and len(pf) == 1 and pf[0].block.id not in fr.in_loop_blocks()
    ck.ob("C06.5-JOIN-BEFORE-FREE", fr.site("reverse teardown"), okf, "stage constants descend %s, loop shifts right, pool freed after the loop: %s" % (vals, okf))

    # a pool that may already have workers is never torn down as if it had none: every call that can create a thread is dominated,
    # in its function or in m_thpool_new for the pool under construction, by the store that sets INITED_STARTED
    tn = fns["m_thpool_new"]
    ck.analysed(tn)
    creators = [e for e in tn.calls() if e.callee in ("add_threads", "pthread_create")]
    sets = [e for e in tn.events() if e.kind == "assign" and S(e.lhs) == "pool->init_state" and e.e["op"] == "|=" and cval(e.rhs) == E["INITED_STARTED"]]
    ck.need(sets, "m_thpool_new no longer sets INITED_STARTED")
    oks = bool(creators) and all(any(tn.ev_dominates(s_, c_) for s_ in sets) for c_ in creators)
    ck.ob("C06.5-JOIN-BEFORE-FREE", tn.site("started before the first worker"), oks,
          "INITED_STARTED is set before the first worker thread can be created: a failing pthread_create is followed by a teardown that stops and "
          "joins the workers that did start" if oks else
          "m_thpool_new creates workers before it marks the pool as started: when the k-th pthread_create fails, m_thpool_free skips wait_pool and "
          "destroys the mutex, the condition variable and the pool under the k-1 workers that are already running")

    # a thread is on the list exactly when it exists: the handle goes into pool->threads only after pthread_create succeeded
    at = fns["add_threads"]
    ck.analysed(at)
    ins = [e for e in at.calls("m_list_insert") if rules.stable_S(P, X.cg, at, e, e.args[0]) == "pool->threads"]
    crt = [e for e in at.events() if e.kind in ("assign", "decl") and e.rhs is not None and strip(e.rhs).get("callee") == "pthread_create"]
    okin = bool(ins) and len(crt) == 1
    if okin:
        rvn = S(crt[0].lhs)
        okin = all(at.ev_dominates(crt[0], e) and (has(X.facts(at, e), rvn, False) or has(X.facts(at, e), "(%s == 0)" % rvn)) for e in ins)
    ck.ob("C06.4-HANDOFF", at.site("listed only if created"), okin,
          "a thread handle is put on pool->threads only under a successful pthread_create" if okin else
          "add_threads lists a thread handle that pthread_create may not have filled in: after a failed creation the pool counts a worker that does not exist "
          "(a lazy pool never creates the real one, accepted tasks wait for ever) and wait_pool joins a bogus handle")
    # the configured bound is kept as given: no implicit truncation on its way into the pool
    from props.common import narrowing_casts
    tnf = fns["m_thpool_new"]
    mts = [e for e in tnf.events() if e.kind == "assign" and S(e.lhs) == "pool->max_threads"]
    nar = [c for e in mts for c in narrowing_casts(e.e["r"])]
    ck.ob("C06.4-HANDOFF", tnf.site("max_threads not truncated"), bool(mts) and not nar,
          "pool->max_threads takes thread_count without losing bits" if mts and not nar else
          "pool->max_threads = %s converts '%s' to '%s': a requested size that does not fit (e.g. 256) silently becomes another bound (0: tasks are accepted and "
          "never run)" % ((nar[0][2], nar[0][0], nar[0][1]) if nar else ("?", "?", "?")))

    ck.rule("C06.6-FLAG-BITS", "R-FLAG-BITS: pool flavours and initialisation stages are single distinct bits", floor=2)
    from props.flags import flag_bits
    flag_bits(ck, P, "C06.6-FLAG-BITS", "m_thpool_flags", "Lib/thpool")
    flag_bits(ck, P, "C06.6-FLAG-BITS", "thpool_inited_t", "Lib/thpool")

    ck.not_decided += ["absence of deadlock / lost wake-ups over all interleavings (1-3 are the necessary conditions)",
                       "'returns only after every accepted task completed' as a liveness statement", "effect of lazy creation on parallelism"]
    ck.assumptions.append("m_thpool_free is not called concurrently with submitters (API contract); pthread primitives behave per POSIX")
