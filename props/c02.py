"""C02 — pub/sub delivery and payload ownership (DESIGN §4 C02)."""
import lm
import rules
from units import AnalysisBroken
from lm import S, strip, cval, walk, Func
from props.common import Ctx, has, fmt_facts, guard_retvals
from props.containers import is_free_call
from props.nullable import unguarded_derefs

LEVEL = "other"
PS = "Lib/core/ps.c"


def run(ck, P):
    X = Ctx(P)
    cg = X.cg
    E = P.enums
    ti = P.fn("tell_if", PS)
    ts = P.fn("tell_subscribers", PS)
    ap = P.fn("alloc_ps_msg", PS)
    fl = P.fn("flush_pubsub_msgs", PS)
    sm = P.fn("send_msg", PS)
    ck.analysed(ti, ts, ap, fl, sm)
    LIVE = X.RUNNING | X.PAUSED

    # ------------------------------------------------------------------ 1. eligibility
    ck.rule("C02.1-ELIGIBLE", "R-GUARD: the pipe write in tell_if happens only for a RUNNING or PAUSED module and — for a publish — only with a "
            "matching subscription; a direct tell is deliverable whatever its topic; the broadcast pass cannot be aborted by one recipient; "
            "tell_subscribers offers a message only to RUNNING|PAUSED modules for which fetch_sub found a subscription", floor=4)
    wr = [e for e in ti.calls("write")]
    ck.need(len(wr) == 1 and "pubsub_fd[1]" in S(wr[0].args[0]), "pipe write in tell_if changed shape")
    facts = X.facts(ti, wr[0])
    ok = has(facts, "(mod->state & %d)" % LIVE)
    # topic set => sub required: path check
    bad = None
    for path in ti.paths(prune=False):
        feas, _env, a, evs = rules.simulate(ti, path)
        if feas and wr[0] in evs:
            direct_taken = a.get("(%s == NULL)" % ti.params[1]["name"]) is True or a.get(ti.params[1]["name"]) is False
            if a.get("msg->msg.topic") is True and a.get("sub") is not True and not direct_taken:
                bad = path
    ck.ob("C02.1-ELIGIBLE", ti.site("write only to live+subscribed"), ok and bad is None, "write under %s; publish path requires a subscription: %s"
          % (fmt_facts(frozenset(x for x in facts if "state" in x[0])), bad is None), path=rules.fmt_path(ti, bad) if bad else None)
    # direct tells (tell_pubsub_msg -> tell_if(m, NULL, recipient)) may carry a topic: the poison pill.  Specialise tell_if to that
    # call site (key = NULL) and require a feasible path to the pipe write with a topic present.
    tpm = P.fn("tell_pubsub_msg", PS)
    direct = [e for e in tpm.calls("tell_if") if strip(e.args[1])["k"] == "null"]
    ck.need(direct, "direct-tell call site tell_if(m, NULL, recipient) vanished")
    keyp = ti.params[1]["name"]
    reach = 0
    for path in ti.paths(prune=False):
        feas, _env, a, evs = rules.simulate(ti, path, preset={keyp: 0})
        if feas and wr[0] in evs and a.get("msg->msg.topic") is True:
            reach += 1
    ck.ob("C02.1-ELIGIBLE", ti.site("direct tell with a topic is deliverable"), reach > 0,
          "%d feasible path(s) deliver a direct tell that carries a topic (the poison pill)" % reach if reach else
          "with key == NULL (direct tell) and a topic set, no feasible path of tell_if reaches the pipe write: m_mod_ps_poisonpill() is accepted but the pill "
          "is never delivered, the recipient never stops")
    calls = [e for e in ts.calls("tell_if") if strip(e.args[1])["k"] != "null"]     # (the direct tell of tell_pubsub_msg passes no key)
    okt = bool(calls)
    for e in calls:
        fc = X.facts(ts, e)
        kn = S(e.args[1])
        tested = any((a.startswith("(%s = fetch_sub(mod, " % kn) or a == kn) and p for (a, p) in fc)
        vs = {x for x in rules.value_sources(ts, kn) if x not in ("NULL", "0")}
        okt = okt and has(fc, "m_mod_is(mod, %d)" % LIVE) and tested and bool(vs) and all(x.startswith("fetch_sub(mod, ") for x in vs) and S(e.args[2]) == "mod"
    ck.ob("C02.1-ELIGIBLE", ts.site("publish fan-out"), okt, "tell_if offered under RUNNING|PAUSED and a found subscription: %s" % okt)

    # fetch_sub finds an exact-topic subscription by its key: a topic is stored under its own spelling, and a spelling with regex
    # metacharacters ("price$", "sensors[0]") does not match itself as a pattern, so the pattern pass alone loses such subscribers
    fs = P.fn("fetch_sub", PS, required=False)
    if fs is not None and fs.name == "fetch_sub":
        ck.analysed(fs)
        tpar = fs.params[1]["name"] if len(fs.params) > 1 else "topic"
        srcs = set()
        for r in fs.events():
            if r.kind != "ret" or r.e is None:
                continue
            rv = strip(r.e)
            if rv["k"] == "var" and rv.get("vk") in ("local", "param"):
                srcs |= rules.value_sources(fs, rv["name"])
            else:
                srcs.add(S(rv))
        exact = [x for x in srcs if x.startswith("m_map_get(") and x.endswith("->subscriptions, %s)" % tpar)]
        ck.ob("C02.1-ELIGIBLE", fs.site("exact topic looked up by key"), bool(exact),
              "fetch_sub returns the subscription stored under the published topic itself (%s); without it a subscriber whose topic "
              "contains regex metacharacters is not found by the pattern pass and the publish never reaches it; returned values come from %s"
              % (exact[0] if exact else "no m_map_get(…->subscriptions, %s)" % tpar, sorted(srcs)))

    bound = []
    for ev in P.calls_to("m_map_iterate"):
        if ev.fn.unit == PS and S(ev.args[0]).endswith("->modules"):
            for v in cg.pt.vals(ev.args[1], ev.fn):
                bound.append((v, ev))
    ck.need(bound, "broadcast pass over c->modules vanished")
    for (name, ev) in bound:
        f = P.resolve_ptr(ev.fn, name)
        rv = rules.returned_values(P, f)
        ck.ob("C02.1-ELIGIBLE", f.site("broadcast pass not abortable"), rv == {0},
              "%s is the per-module callback of the broadcast pass in %s and returns %s (m_map_iterate stops at the first non-zero result: one "
              "recipient's outcome must not cut off the modules behind it)" % (name, ev.fn.name, sorted(rv, key=str)))

    # ------------------------------------------------------------------ 2. single channel
    ck.rule("C02.2-CHANNEL", "R-WHO-CALLS: the only write to a module's pubsub pipe is in tell_if; the pipe is read only by process_ps (one read "
            "per poll event, not in a loop) and flush_pubsub_msgs; tell_if is reached only through tell_pubsub_msg from send_msg and "
            "tell_system_pubsub_msg", floor=4)
    pw = [e for e in P.calls_to("write") if "pubsub_fd" in S(e.args[0])]
    ck.ob("C02.2-CHANNEL", "Lib/core:pipe writers", {e.fn.name for e in pw} == {"tell_if"}, "pipe written by %s" % sorted({e.fn.name for e in pw}))
    pr = [e for e in P.calls_to("read") if "pubsub_fd" in S(e.args[0]) or (e.fn.name == "process_ps")]
    okp = {e.fn.name for e in pr} == {"process_ps", "flush_pubsub_msgs"}
    pp = P.fn("process_ps")
    ck.analysed(pp)
    r1 = [e for e in pp.calls("read")]
    okp = okp and len(r1) == 1 and r1[0].block.id not in pp.in_loop_blocks() and S(r1[0].args[0]) == "this->fd_src.fd"
    ck.ob("C02.2-CHANNEL", "Lib/core:pipe readers", okp, "pipe read by %s; process_ps reads once per event" % sorted({e.fn.name for e in pr}))
    callers = set()
    for ev in P.calls_to("tell_if"):
        callers.add(ev.fn.name)
    bound = set()
    for ev in P.calls_to("m_map_iterate"):
        if "tell_if" in cg.pt.vals(ev.args[1], ev.fn):
            bound.add(ev.fn.name)
    ck.ob("C02.2-CHANNEL", "Lib/core/ps.c:tell_if callers", callers | bound <= {"tell_pubsub_msg", "tell_subscribers"}, "tell_if called from %s, bound in %s" % (sorted(callers), sorted(bound)))
    tpc = {e.fn.name for e in P.calls_to("tell_pubsub_msg")}
    ck.ob("C02.2-CHANNEL", "Lib/core/ps.c:tell_pubsub_msg callers", tpc == {"send_msg", "tell_system_pubsub_msg"}, "tell_pubsub_msg called from %s" % sorted(tpc))

    # ------------------------------------------------------------------ 3. recipient sees what was sent
    ck.rule("C02.3-COPY", "dataflow: alloc_ps_msg copies the whole template (memcpy of sizeof(ps_priv_t)) and takes a reference on the sender; "
            "the template's sender/topic/data are send_msg's parameters in that order (system = false)", floor=2)
    mc = [e for e in ap.calls("memcpy")]
    folded_ap = "alloc_ps_msg" in P.folded        # alloc_ps_msg written out inside tell_if: template and subscription are its locals
    tmpl_name = ap.params[0]["name"] if not folded_ap else (S(mc[0].args[1]) if mc else "?")
    sub_name = ap.params[1]["name"] if not folded_ap else "sub"
    okc = len(mc) == 1 and S(mc[0].args[1]) == tmpl_name and strip(mc[0].args[1])["k"] == "var" and strip(mc[0].args[2])["k"] == "sizeof" \
        and "ps_priv_t" in strip(mc[0].args[2]).get("of", "")
    refs = [e for e in ap.events() if e.kind == "assign" and S(e.lhs).endswith("->msg.sender") and strip(e.rhs).get("callee") == "m_mem_ref"]
    ck.ob("C02.3-COPY", ap.site("whole template + sender ref"), okc and bool(refs), "memcpy of the template: %s; sender referenced: %s" % (okc, bool(refs)),
          witness=[("del_event", ap.unit, ap.name, e.block.id, e.idx) for e in refs])
    # the copy is faithful: after the memcpy the only stores into it wrap a copied pointer (or the subscription parameter) in m_mem_ref
    if mc:
        dst = S(mc[0].args[0])
        exa = rules.Expander(ap, stable=False)
        badst = []
        for e in ap.events():
            if e.kind in ("assign", "incdec") and e.lhs is not None and S(e.lhs).startswith(dst + "->"):
                lv = S(e.lhs)
                rv = S(e.rhs) if e.kind == "assign" and e.e["op"] == "=" else None
                okw = rv is not None and (rv == "m_mem_ref(%s)" % lv or (lv == dst + "->sub" and rv == "m_mem_ref(%s)" % sub_name))
                if not okw:
                    badst.append((lv, rv, e.line))
        ck.ob("C02.3-COPY", ap.site("copy is faithful"), not badst,
              "no field of the per-recipient copy is rewritten (only its counted pointers are re-referenced)" if not badst else
              "the per-recipient copy is altered after the memcpy: '%s = %s' at line %d — the recipient no longer sees the sender/topic/data/flags that were "
              "sent (e.g. a regex subscriber gets the pattern instead of the published topic)" % badst[0])
    d = [e for e in sm.events() if e.kind == "decl" and e.e.get("t", "").startswith("ps_priv_t") and e.rhs is not None and strip(e.rhs)["k"] == "init"]
    oks = bool(d)
    if oks:
        inner = strip(strip(d[0].rhs)["elems"][0])["elems"]
        oks = cval(inner[0]) == 0 and [S(x) for x in inner[1:4]] == [sm.params[0]["name"], sm.params[2]["name"], sm.params[3]["name"]] \
            and S(strip(d[0].rhs)["elems"][1]) == sm.params[4]["name"]
    ck.ob("C02.3-COPY", sm.site("template"), oks, "template = %s" % (S(d[0].rhs) if d else None))

    # ------------------------------------------------------------------ 4. pipe failure path releases the copy
    ck.rule("C02.4-PIPE-FULL", "R-UNREF-PROV/R-OWN: the per-recipient copy made in tell_if is, on every path, written to the recipient's pipe or "
            "released; nothing but that copy is released there (the template the caller passed in lives on the caller's stack)", floor=2)
    al = [e for e in ti.events() if e.kind in ("decl", "assign") and e.rhs is not None and
          (strip(e.rhs).get("callee") == "alloc_ps_msg" or
           (strip(e.rhs).get("callee") == "m_mem_new" and len(strip(e.rhs)["args"]) > 1 and S(strip(e.rhs)["args"][1]) == "ps_msg_dtor"))]
    ck.need(len(al) == 1, "allocation of the per-recipient copy in tell_if changed shape")
    cv = S(al[0].lhs)
    bad = None
    n = 0
    for path in ti.paths():
        evs = list(rules.path_events(ti, path))
        if al[0] not in evs:
            continue
        a = rules.path_assumes(path)
        if a.get(cv) is False:
            continue
        n += 1
        wrote = [e for e in evs if e in wr and S(e.args[1]) == "&" + cv]
        failed = any(k.startswith("(write(") and ((v is True and "!=" not in k) or (v is False and "==" in k)) for k, v in a.items())
        wfail = None
        for k, v in a.items():
            if k.startswith("(write("):
                # atom normalised to '(write(...) == 8)' with polarity
                wfail = (v is False)
        unr = [e for e in evs if e.kind == "call" and e.callee in ("m_mem_unref", "m_mem_unrefp") and S(e.args[0]).lstrip("&") == cv]
        if not wrote:
            bad = ("copy neither written nor released", path)
        elif wfail is True and len(unr) != 1:
            bad = ("write failed but the copy is released %d time(s)" % len(unr), path)
        elif wfail is False and unr:
            bad = ("copy released although it was handed to the recipient", path)
        if bad:
            break
    ck.ob("C02.4-PIPE-FULL", ti.site("copy written or released"), bad is None and n > 0, "%d path(s): written, and released exactly when the write failed" % n
          if bad is None else bad[0], path=rules.fmt_path(ti, bad[1]) if bad else None)
    foreign = [e for e in ti.calls() if e.callee in ("m_mem_unref", "m_mem_unrefp") and S(e.args[0]).lstrip("&") != cv]
    ck.ob("C02.4-PIPE-FULL", ti.site("only the copy is released"), not foreign,
          "no other object is released" if not foreign else "m_mem_unref(%s) at line %d releases an object tell_if does not own (the caller's stack template '%s' "
          "is not ref-counted memory)" % (S(foreign[0].args[0]), foreign[0].line, S(foreign[0].args[0])))

    # ------------------------------------------------------------------ 5. auto-free exactly once
    ck.rule("C02.5-AUTOFREE-ONCE", "payload owner rule: an M_PS_AUTOFREE payload has one owner per send — no destructor of a per-recipient object "
            "frees m_evt_ps_t.data; the flag is honoured by a ref-counted holder allocated once per send (outside every per-recipient "
            "loop/iterate callback), referenced by each recipient copy and dropped by the sender after the fan-out (so the payload is "
            "released at once when nobody was eligible)", floor=3)
    ck.need("M_PS_AUTOFREE" in E, "M_PS_AUTOFREE vanished")
    AF = E["M_PS_AUTOFREE"]
    # per-recipient functions: bound to an iterate slot, or called inside a loop, downstream of tell_pubsub_msg
    per_recipient = set()
    tp = P.fn("tell_pubsub_msg", PS)
    for ev in tp.calls():
        for t in cg.callees_of_event(ev):
            if isinstance(t, Func) and t.name != "m_map_iterate":
                per_recipient |= {k for k in cg.closure([t.key]) if isinstance(k, tuple) and len(k) == 2 and k[0].startswith("Lib/core/")}
    per_rec_names = {k[1] for k in per_recipient}
    # destructors that free a message payload field
    offenders = []
    for f in P.funcs:
        for ev in f.events():
            if is_free_call(ev) and ev.args:
                for nnode in walk(ev.args[0]):
                    if nnode.get("k") == "member" and nnode["field"] == "data" and nnode.get("rec") == "m_evt_ps_t":
                        # which allocations use f as destructor?
                        for aev in P.calls_to("m_mem_new"):
                            if f.name in cg.pt.vals(aev.args[1], aev.fn) and aev.fn.name in per_rec_names:
                                offenders.append((f, ev, aev))
    ck.ob("C02.5-AUTOFREE-ONCE", "Lib/core/ps.c:payload freed by per-recipient object", not offenders,
          "no per-recipient destructor frees the payload" if not offenders else
          "%s (destructor of the object allocated per recipient in %s) frees msg.data at line %d: with N recipients the payload is freed N times, with none it leaks"
          % (offenders[0][0].name, offenders[0][2].fn.name, offenders[0][1].line))
    # the holder
    holders = []
    for aev in P.calls_to("m_mem_new"):
        f = aev.fn
        if f.unit != PS or f.name in per_rec_names:
            continue
        facts = X.facts(f, aev)
        if has(facts, "(flags & %d)" % AF):
            for dn in cg.pt.vals(aev.args[1], f):
                df = P.resolve_ptr(f, dn)
                if df is not None and any(is_free_call(e) for e in df.events()):
                    holders.append((aev, df))
    okh = len(holders) == 1 and holders[0][0].block.id not in holders[0][0].fn.in_loop_blocks()
    det = "no once-per-send owner of the payload exists: M_PS_AUTOFREE cannot be honoured exactly once"
    if okh:
        aev, df = holders[0]
        f = aev.fn
        hv = [e for e in f.events() if e.kind in ("decl", "assign") and e.rhs is not None and strip(e.rhs).get("callee") == "m_mem_new" and e.block.id == aev.block.id]
        # sender drops its reference after the fan-out on every path that created the holder
        fan = [e for e in f.calls("tell_pubsub_msg")]
        drops = [e for e in f.calls() if e.callee in ("m_mem_unref", "m_mem_unrefp")]
        okh = bool(fan) and bool(drops) and all(f.ev_dominates(fan[0], d) for d in drops) and rules_postdom(f, fan[0], drops)
        # each recipient copy references the holder, its destructor drops it
        rf = [e for e in ap.events() if e.kind == "assign" and strip(e.rhs).get("callee") == "m_mem_ref" and not S(e.lhs).endswith("sender")]
        pd = P.fn("ps_msg_dtor", PS)
        ck.analysed(pd, df)
        ud = [e for e in pd.calls() if e.callee in ("m_mem_unref", "m_mem_unrefp") and not S(e.args[0]).endswith("sender")]
        okh = okh and bool(rf) and bool(ud) and S(rf[0].lhs).split("->")[-1] == S(ud[0].args[0]).split("->")[-1]
        det = "holder allocated in %s at line %d (destructor %s frees the payload); copies reference it: %s; copy destructor drops it: %s; sender drops its own after the fan-out: %s" \
            % (f.name, aev.line, df.name, bool(rf), bool(ud), okh)
    ck.ob("C02.5-AUTOFREE-ONCE", "Lib/core/ps.c:once-per-send payload owner", okh, det)
    nofree = [e for f in P.funcs if f.unit.startswith("Lib/core/") for e in f.events() if is_free_call(e) and e.args and
              any(n.get("k") == "member" and n["field"] == "data" and n.get("rec") == "m_evt_ps_t" for n in walk(e.args[0]))]
    ck.ob("C02.5-AUTOFREE-ONCE", "Lib/core:unflagged payload never freed",
          all(any(a.endswith("flags & %d)" % AF) and p for (a, p) in X.facts(e.fn, e)) for e in nofree),
          "%d direct free(s) of msg.data, each under the AUTOFREE flag" % len(nofree), nontrivial=False)

    # ------------------------------------------------------------------ 6. flush at loop stop
    ck.rule("C02.6-FLUSH-AT-STOP", "R-MUST-PASS: every path through loop_stop runs the flush pass over c->modules (after CTX_STOPPED was published, "
            "before poll_clear); both drivers end in loop_stop", floor=2)
    ls = P.fn("loop_stop")
    ck.analysed(ls)
    flp = [e for e in ls.calls("m_map_iterate") if "flush_pubsub_msgs" in cg.pt.vals(e.args[1], ls) and S(e.args[0]) == "c->modules"]
    okf = bool(flp) and rules_postdom_entry(ls, flp[0])
    pc = list(ls.calls("poll_clear"))
    em = [e for e in ls.calls("tell_system_pubsub_msg")]
    okf = okf and bool(pc) and bool(em) and ls.ev_dominates(em[0], flp[0]) and ls.ev_dominates(flp[0], pc[0])
    ck.ob("C02.6-FLUSH-AT-STOP", ls.site("flush pass"), okf, "publish; flush; poll_clear on every path: %s" % okf,
          witness=[("del_event", ls.unit, ls.name, e.block.id, e.idx) for e in flp])
    drv = {e.fn.name for e in P.calls_to("loop_stop")}
    ck.ob("C02.6-FLUSH-AT-STOP", "Lib/core/ctx.c:loop_stop callers", drv == {"m_ctx_loop_events", "m_ctx_dispatch"}, "loop_stop reached from %s" % sorted(drv))

    # ------------------------------------------------------------------ 7. missing subscription never dereferenced
    ck.rule("C02.7-NULLABLE-SUB", "R-NULLABLE (contradiction rule): ps_priv_t.sub is NULL for tell/broadcast/system messages (stores of NULL exist "
            "and readers test it); a value loaded from it is dereferenced — directly or by a callee that dereferences that parameter "
            "unconditionally — only under a non-NULL test", floor=3)
    null_stores = 0
    for f in P.funcs:
        for ev in f.events():
            if ev.kind == "decl" and ev.e.get("t", "").startswith("ps_priv_t") and ev.rhs is not None and strip(ev.rhs)["k"] == "init":
                el = strip(ev.rhs)["elems"]
                if len(el) >= 3 and strip(el[2])["k"] == "null":
                    null_stores += 1
    ck.need(null_stores >= 2, "ps_priv_t templates with sub = NULL vanished (the field is no longer nullable?)")
    nloads = 0

    def _is_sub_load(n):
        return n is not None and n["k"] == "member" and n["field"] == "sub" and n.get("rec") == "ps_priv_t"

    def _copies(f):
        """locals that hold a copy of a ps_priv_t.sub load (explaining variables): as nullable as the field itself"""
        out = {}
        for d in f.events():
            if d.kind in ("decl", "assign") and d.lhs is not None and d.rhs is not None and strip(d.lhs)["k"] == "var" and _is_sub_load(strip(d.rhs)):
                out[strip(d.lhs)["name"]] = S(d.rhs)
        return out
    for f in P.funcs:
        if not f.unit.startswith("Lib/core/"):
            continue
        cp = _copies(f)
        for ev in f.events():
            if ev.kind != "call":
                continue
            for i, a in enumerate(ev.args):
                sa = strip(a)
                if sa is not None and (_is_sub_load(sa) or (sa["k"] == "var" and sa.get("name") in cp)):
                    nloads += 1
                    ck.analysed(f)
                    facts = X.facts(f, ev)
                    guarded = has(facts, S(sa))
                    bad_callee = None
                    if not guarded:
                        for t in cg.callees_of_event(ev):
                            if isinstance(t, Func) and i < len(t.params):
                                d = unguarded_derefs(X, t, t.params[i]["name"])
                                if d:
                                    bad_callee = (t, d[0])
                    ck.ob("C02.7-NULLABLE-SUB", f.site("%s(%s)" % (ev.callee, S(sa))), bad_callee is None,
                          "load of the nullable subscription at line %d is %s" % (ev.line, "null-tested" if guarded else "passed to a NULL-tolerant callee")
                          if bad_callee is None else "'%s' may be NULL (tell/broadcast pending at quit) and %s dereferences it unconditionally ('%s' at line %d)"
                          % (S(sa), bad_callee[0].name, bad_callee[1][1], bad_callee[1][0]))
    # direct dereferences of X->sub->...
    for f in P.funcs:
        if not f.unit.startswith("Lib/core/"):
            continue
        for ev in f.events():
            e = ev.e if ev.kind != "decl" else ev.rhs
            if e is None:
                continue
            for nnode in walk(e):
                if nnode.get("k") == "member" and nnode["arrow"]:
                    b = strip(nnode["base"])
                    if b is not None and (_is_sub_load(b) or (b["k"] == "var" and b.get("name") in _copies(f))):
                        nloads += 1
                        facts = X.facts(f, ev)
                        okd = has(facts, S(b)) or _guarded_in_expr(e, S(b))
                        ck.ob("C02.7-NULLABLE-SUB", f.site("%s->%s" % (S(b), nnode["field"])), okd, "direct dereference at line %d %s" % (ev.line, "under a non-NULL test" if okd else "without a test"))
    ck.need(nloads >= 2, "loads of ps_priv_t.sub vanished")

    # ------------------------------------------------------------------ 8. discard on stop
    ck.rule("C02.8-DISCARD-ON-STOP", "R-PAIR: when a module stops, manage_srcs(RM, stop) drains its pipe (flush_pubsub_msgs with a NULL key = "
            "destroy) before the pubsub source is removed; with a NULL key flush never delivers", floor=2)
    ms = P.fn("manage_srcs")
    ck.analysed(ms)
    fc = [e for e in ms.calls("flush_pubsub_msgs")]
    rm = [e for e in ms.calls("m_bst_itr_remove")]
    okd = bool(fc) and bool(rm) and all(strip(e.args[1])["k"] == "null" and S(e.args[2]) == "mod" for e in fc)
    okd = okd and all(has(X.facts(ms, e), "stop") and has(X.facts(ms, e), "t->type", False) for e in fc) and all(_precedes(ms, fc[0], r) for r in rm)
    ck.ob("C02.8-DISCARD-ON-STOP", ms.site("drain before removal"), okd, "flush(NULL key) for the PS source precedes its removal: %s" % okd,
          witness=[("del_event", ms.unit, ms.name, e.block.id, e.idx) for e in fc])
    # every path that removes the PS source on stop has drained the pipe first, whatever the module's state
    badp = None
    npaths = 0
    for path in ms.paths(loop_fragments=True):
        evs = list(rules.path_events(ms, path))
        rme = [e for e in evs if e in rm]
        if not rme:
            continue
        a = rules.path_assumes(path)
        if a.get("t->type") is False or a.get("(t->type == 0)") is True:
            npaths += 1
            fce = [e for e in evs if e in fc]
            if not fce or evs.index(fce[0]) > evs.index(rme[0]):
                badp = path
    ck.ob("C02.8-DISCARD-ON-STOP", ms.site("drain on every stop path"), badp is None and npaths > 0,
          "%d path(s) removing the pubsub source all drain the pipe first" % npaths if badp is None else
          "the pubsub source is removed on stop without draining the pipe on this path (e.g. for a PAUSED module): queued messages, their payloads and the "
          "senders they pin are never released", path=rules.fmt_path(ms, badp) if badp else None)
    # one fate per message read from the pipe: wrapped into an enqueued event XOR released
    reads = [e for e in fl.calls("read")]
    mmv = None
    if reads:
        a1 = strip(reads[0].args[1])
        mmv = S(a1["e"]) if a1["k"] == "un" and a1["op"] == "&" else None
    # the flush empties the mailbox: messages are read one by one in a loop that ends when the (non-blocking) read fails — a single
    # bounded read leaves the rest of a long backlog in the pipe (not delivered by the end of the loop run, leaked at module stop)
    in_loop_ = [e for e in reads if e.block.id in fl.in_loop_blocks()]
    if reads and (not in_loop_ or mmv is None):
        ck.ob("C02.6-FLUSH-AT-STOP", fl.site("drains the mailbox"), False,
              "flush_pubsub_msgs reads the pipe %s: a backlog longer than one read is not flushed — messages pending at the end of the loop run are not "
              "delivered then, and what is left when the module stops leaks" % ("outside any loop" if not in_loop_ else "into something other than one message pointer"))
        raise AnalysisBroken("flush_pubsub_msgs no longer reads messages one by one")
    ck.need(mmv is not None, "flush_pubsub_msgs no longer reads messages from the pipe")
    badf = None
    nf = 0
    for path in fl.paths(loop_fragments=True):
        evs = list(rules.path_events(fl, path))
        if not any(e in reads for e in evs) or path[-1][0] == fl.exit:
            continue
        a = rules.path_assumes(path)
        if not any(k.startswith("(read(") and v is True for k, v in a.items()):
            continue
        if not rules.simulate(fl, path)[0]:
            continue          # a flag set on this path contradicts a later test of it (`told = helper(); … if (!told)`)
        nf += 1
        after = evs[max(evs.index(e) for e in reads if e in evs):]
        enq_ = [e for e in after if e.kind == "call" and e.callee == "m_queue_enqueue"]
        unr_ = [e for e in after if e.kind == "call" and e.callee in ("m_mem_unref", "m_mem_unrefp") and S(e.args[0]).lstrip("&") == mmv]
        if (enq_ and unr_) or (not enq_ and len(unr_) != 1):
            badf = (len(enq_), len(unr_), path)
    ck.ob("C02.6-FLUSH-AT-STOP", fl.site("message wrapped XOR released"), badf is None and nf > 0,
          "%d iteration path(s): a message read from the pipe is either handed to an enqueued event or released, never both" % nf if badf is None else
          "an iteration enqueues the message for delivery %d time(s) and releases it %d time(s): the handler receives a destroyed message / it is released twice"
          % (badf[0], badf[1]), path=rules.fmt_path(fl, badf[2]) if badf else None)
    enq = [e for e in fl.calls("m_queue_enqueue")]
    keyp_ = fl.params[1]["name"] if len(fl.params) > 1 else "key"
    # (the test may sit in a boolean local of either polarity: facts are read through the locals' definitions)
    okn = bool(enq) and all(has(rules.resolve_atoms(fl, X.facts(fl, e) or ()), keyp_) for e in enq)
    ck.ob("C02.8-DISCARD-ON-STOP", fl.site("NULL key never delivers"), okn, "enqueue for delivery only when the key is non-NULL: %s" % okn)

    ck.not_decided += ["regex/topic matching results", "'at most once each' beyond 'each module is visited once per pass' (C05)",
                       "mailbox capacity (kernel pipe size)", "interleavings with state changes"]


def rules_postdom(f, a, bs):
    """Every path from event a to the exit passes one of the events bs."""
    def step(st, ev):
        if ev is a:
            return st | {"pending"}
        if any(ev is b for b in bs):
            return st - {"pending"}
        return st
    IN = rules.tag_analysis(f, step, must=False)
    return f.exit in IN and "pending" not in IN[f.exit]


def rules_postdom_entry(f, b):
    def step(st, ev):
        if ev is b:
            return st | {"seen"}
        return st
    IN = rules.tag_analysis(f, step, must=True)
    return f.exit in IN and "seen" in IN[f.exit]


def _precedes(f, a, b):
    if a.block.id == b.block.id:
        return a.idx < b.idx
    seen, st = set(), [s for s in a.block.succs if s is not None]
    while st:
        n = st.pop()
        if n == b.block.id:
            return True
        if n in seen:
            continue
        seen.add(n)
        st.extend(s for s in f.blocks[n].succs if s is not None)
    return False


def _guarded_in_expr(e, target):
    """Is every dereference of `target` inside e protected by a ?: / && test of target?"""
    res = []

    def rec(x, guards):
        x0 = x
        while x0 is not None and x0.get("k") in ("cast", "icast"):
            x0 = x0["e"]
        if x0 is None:
            return
        if x0["k"] == "cond":
            rec(x0["c"], guards)
            rec(x0["a"], guards | set(lm.atoms(x0["c"], True)))
            rec(x0["b"], guards | set(lm.atoms(x0["c"], False)))
            return
        if x0["k"] == "bin" and x0["op"] in ("&&", "||"):
            rec(x0["l"], guards)
            rec(x0["r"], guards | set(lm.atoms(x0["l"], x0["op"] == "&&")))
            return
        if x0["k"] == "member" and x0["arrow"] and S(x0["base"]) == target:
            res.append((target, True) in guards)
        for key in ("base", "e", "l", "r", "idx", "fn"):
            if isinstance(x0.get(key), dict):
                rec(x0[key], guards)
        for key in ("args", "elems"):
            for s in x0.get(key, ()) or ():
                rec(s, guards)
    rec(e, set())
    return bool(res) and all(res)
