"""C03 — event loop: delivery to owner, reasons to return (DESIGN §4 C03)."""
import lm
import rules
from lm import S, strip, cval, walk, Func
from props.common import Ctx, has, fmt_facts, guard_retvals

LEVEL = "other"
CTXC = "Lib/core/ctx.c"
EVT_FIELDS_NEEDED = {"type", "userdata", "ts"}
PAYLOADS = {"fd_evt", "ps_evt", "tmr_evt", "sgn_evt", "path_evt", "pid_evt", "task_evt", "thresh_evt"}


def evt_field_writes(P, f, var_names):
    """m_evt_t fields stored in f through any of the given local names (evt->evt.X, msg->X with msg = &evt->evt)."""
    out = set()
    names = set(var_names)
    # locals aliasing &V->evt
    for ev in f.events():
        if ev.kind in ("decl", "assign") and ev.rhs is not None and ev.lhs is not None:
            r = S(ev.rhs)
            if any(r == "&%s->evt" % n for n in names):
                names.add(S(ev.lhs))
    for ev in f.events():
        tgt = None
        if ev.kind == "assign":
            tgt = strip(ev.lhs)
        elif ev.kind == "call":
            # fetch_ms(&msg->ts, NULL)
            for a in ev.args:
                sa = strip(a)
                if sa is not None and sa["k"] == "un" and sa["op"] == "&":
                    t2 = strip(sa["e"])
                    if t2 is not None and t2["k"] == "member":
                        tgt2 = t2
                        base = S(tgt2["base"])
                        if any(base == n or base == n + "->evt" or base == n + "->evt->" for n in names) or any(base.startswith(n + "->") for n in names):
                            out.add(tgt2["field"])
        if tgt is not None and tgt["k"] == "member":
            base = S(tgt["base"])
            if any(base == n or base.startswith(n + "->") for n in names):
                out.add(tgt["field"])
    return out, names


def run(ck, P):
    X = Ctx(P)
    cg = X.cg
    E = P.enums
    rv = P.fn("recv_events", CTXC)
    ck.analysed(rv)

    # ------------------------------------------------------------------ 1. errno hygiene
    ck.rule("C03.1-ERRNO", "R-ERRNO: in recv_events every read of errno that feeds the loop's error variable is reached only in state CLEAN, "
            "where `errno = 0` makes it CLEAN and any call that may run a user callback makes it DIRTY (function entry is DIRTY)", floor=2)
    ucb = X.usercb_set()

    def step(st, ev):
        if ev.kind == "assign" and lm.is_errno(ev.lhs) and cval(ev.rhs) == 0:
            return frozenset()
        if ev.kind == "call" and cg.event_may_reach(ev, ucb):
            return st | {"dirty"}
        return st
    IN = rules.tag_analysis(rv, step, must=False, init=frozenset({"dirty"}))
    reads = [e for e in rv.events() if e.kind in ("assign", "decl") and e.rhs is not None and lm.is_errno(e.rhs)]
    ck.need(len(reads) >= 2, "recv_events reads errno %d time(s)" % len(reads))
    zeros = [e for e in rv.events() if e.kind == "assign" and lm.is_errno(e.lhs) and cval(e.rhs) == 0]
    for i, e in enumerate(reads):
        st = rv.state_before(IN, e, step)
        clean = st is not None and "dirty" not in st
        inloop = e.block.id in rv.in_loop_blocks()
        ck.ob("C03.1-ERRNO", rv.site("errno read #%d (%s)" % (i + 1, "per event" if inloop else "after poll_wait")), clean,
              "'%s' at line %d reads errno %s" % (S(e.e) if e.kind == "assign" else e.e["name"], e.line,
                                                  "after it was reset and before any user callback" if clean else
                                                  "possibly left behind by a user callback of a previous event of the batch: the event is dropped and the loop quits with that value"),
              witness=[("del_event", rv.unit, rv.name, z.block.id, z.idx) for z in zeros])

    # the read after poll_wait() is taken whatever poll_wait returned: a *successful* wait must therefore leave errno at the 0 it was
    # reset to, i.e. the callee makes at most one errno-setting external call per path and never retries one in a loop
    pw = P.fn("poll_wait")
    ck.analysed(pw)
    ext = [e for e in pw.calls() if e.callee and not P.by_name.get(e.callee) and e.callee not in rules.PURE_EXT]
    inloop = [e for e in ext if e.block.id in pw.in_loop_blocks()]
    multi = None
    for path in pw.paths():
        evs = [e for e in rules.path_events(pw, path) if e in ext]
        if len(evs) > 1:
            multi = path
    ck.ob("C03.1-ERRNO", pw.site("one errno source per wait"), bool(ext) and not inloop and multi is None,
          "poll_wait makes exactly one errno-setting call (%s) per path: success leaves the errno recv_events reset" % sorted({e.callee for e in ext})
          if ext and not inloop and multi is None else
          "poll_wait can make several errno-setting calls (%s%s): after a failed-then-retried wait a successful return still carries the stale errno "
          "(EINTR), which recv_events reads unconditionally — the whole batch is skipped and its one-shot sources are lost"
          % (sorted({e.callee for e in ext}), " in a loop" if inloop else ""))

    # ------------------------------------------------------------------ 2. reasons to return
    ck.rule("C03.2-REASONS", "R-WHO-WRITES: c->quit/quit_code are written only by loop_start (reset) and loop_quit; loop_quit is called only by "
            "m_ctx_quit and by the error arm of recv_events (err set and neither EINTR nor EAGAIN); the blocking loop continues exactly while "
            "!quit && running_modules > 0; loop_stop returns the quit code it read before the automatic context release", floor=6)
    has_lq = bool(P.by_name.get("loop_quit"))
    for fld in ("quit", "quit_code"):
        ws = list(P.writes_to_field("_ctx", fld))
        allowed = {"loop_start", "loop_quit"} if has_lq else {"loop_start", "m_ctx_quit", "recv_events"}   # loop_quit folded into its two callers
        ok = bool(ws) and {w.fn.name for w in ws} <= allowed and all(cval(w.rhs) == 0 for w in ws if w.fn.name == "loop_start")
        ck.ob("C03.2-REASONS", "%s:_ctx.%s writers" % (CTXC, fld), ok, "written by %s" % sorted({(w.fn.name, S(w.rhs)) for w in ws}))
    if not has_lq:
        # the request to quit written out in place: same two sites, same conditions
        for w in P.writes_to_field("_ctx", "quit"):
            f = w.fn
            if f.name == "loop_start":
                continue
            ck.call_sites += 1
            codes = [x for x in P.writes_to_field("_ctx", "quit_code") if x.fn is f and x.block.id == w.block.id]
            if f.name == "recv_events":
                facts = X.facts(f, w)
                ok = has(facts, "err") and has(facts, "(err == 4)", False) and has(facts, "(err == 11)", False) and bool(codes) and all(S(x.rhs) == "err" for x in codes)
                ck.ob("C03.2-REASONS", f.site("loop_quit(err)"), ok, "error arm under %s" % fmt_facts(frozenset(x for x in facts if "err" in x[0])))
            else:
                ck.ob("C03.2-REASONS", f.site("loop_quit"), f.name == "m_ctx_quit" and bool(codes) and all(S(x.rhs) == f.params[0]["name"] for x in codes),
                      "%s stores quit with code %s" % (f.name, [S(x.rhs) for x in codes]))
    # the reset belongs to the start of the run: a module's on_start (run from the evaluate pass) may already ask the loop to quit, and
    # a reset placed after it forgets the request
    lst = P.fn("loop_start", CTXC)
    resets = [w for fld in ("quit", "quit_code") for w in P.writes_to_field("_ctx", fld) if w.fn is lst]
    ucb = X.usercb_set()
    early = [(ev, w) for ev in lst.calls() for w in resets if X.cg.event_may_reach(ev, ucb) and rules.may_precede(lst, ev, w)]
    ck.ob("C03.2-REASONS", lst.site("reset precedes every callback"), bool(resets) and not early,
          "loop_start resets quit/quit_code (lines %s) before any call that may run a user callback%s"
          % (sorted({w.line for w in resets}), "" if not early else ": %s at line %d can run one (a module's on_start may call m_ctx_quit) and the "
             "reset at line %d then forgets the request" % (S(early[0][0].e), early[0][0].line, early[0][1].line)))
    lq = list(P.calls_to("loop_quit"))
    for ev in lq:
        f = ev.fn
        ck.call_sites += 1
        if f.name == "recv_events":
            facts = X.facts(f, ev)
            ok = has(facts, "err") and has(facts, "(err == 4)", False) and has(facts, "(err == 11)", False) and S(ev.args[1]) == "err"
            ck.ob("C03.2-REASONS", f.site("loop_quit(err)"), ok, "error arm under %s" % fmt_facts(frozenset(x for x in facts if "err" in x[0])))
        else:
            ck.ob("C03.2-REASONS", f.site("loop_quit"), f.name == "m_ctx_quit" and S(ev.args[1]) == f.params[0]["name"],
                  "%s calls loop_quit(%s)" % (f.name, S(ev.args[1])))
    le = P.fn("m_ctx_loop_events", CTXC)
    ck.analysed(le)
    loops = le.back_edges()
    ck.need(len(loops) == 1, "blocking loop changed shape")
    body = le.natural_loop(*list(loops)[0])
    conds = [S(le.blocks[b].term["cond"]) for b in body if le.blocks[b].term and le.blocks[b].term.get("cond") is not None]
    okl = sorted(conds) == sorted(["!c->quit", "(c->stats.running_modules > 0)"])
    ck.ob("C03.2-REASONS", le.site("loop condition"), okl, "loop continues while %s" % conds)
    ls = P.fn("loop_stop", CTXC)
    ck.analysed(ls)
    rd = [e for e in ls.events() if e.kind in ("decl", "assign") and e.rhs is not None and S(e.rhs) == "c->quit_code" and e.lhs is not None
          and strip(e.lhs)["k"] == "var"]
    dr = list(ls.calls("m_ctx_deregister"))
    rets = [e for e in ls.events() if e.kind == "ret"]
    # (a return that cannot follow the release may also read the field itself)
    okr = len(rd) == 1 and all(ls.ev_dominates(rd[0], d) for d in dr) and bool(rets) and \
        all(S(r.e) == S(rd[0].lhs) or (S(r.e) == "c->quit_code" and not any(rules.may_precede(ls, d, r) for d in dr)) for r in rets)
    ck.ob("C03.2-REASONS", ls.site("returns quit code"), okr, "quit code read at line %s before the automatic release, returned unchanged: %s" % ([e.line for e in rd], okr))

    # ------------------------------------------------------------------ 3. owner and user data: producers agree
    ck.rule("C03.3-PRODUCERS", "R-SIBLING: every producer of an event that reaches a handler (the receive loop via push_evt, and the final "
            "flush) initialises the same field set of m_evt_t {type, payload pointer, userdata, ts}; the module handed to push_evt is the "
            "owner recorded in the polled source (p->mod)", floor=3)
    ne = P.fn("new_evt")
    ck.analysed(ne)
    base_fields, _n = evt_field_writes(P, ne, [e.e["name"] for e in ne.events() if e.kind == "decl" and e.rhs is not None and strip(e.rhs).get("callee") == "m_mem_new"])
    producers = {}
    for ev in P.calls_to("new_evt"):
        f = ev.fn
        decl = [d for d in f.events() if d.kind in ("decl", "assign") and d.rhs is not None and strip(d.rhs)["k"] == "call"
                and strip(d.rhs).get("callee") == "new_evt" and d.block.id == ev.block.id]
        ck.need(decl, "result of new_evt not bound to a variable in %s" % f.name)
        var = S(decl[0].lhs)
        fields, names = evt_field_writes(P, f, [var])
        fields |= base_fields
        # callees that receive the event
        for cev in f.calls():
            for i, a in enumerate(cev.args):
                if S(a) in names:
                    for t in cg.callees_of_event(cev):
                        if isinstance(t, Func) and i < len(t.params):
                            sub, _ = evt_field_writes(P, t, [t.params[i]["name"]])
                            # push_evt: msg = &evt->evt
                            fields |= sub
        producers[f.name] = fields
    ck.need({"recv_events", "flush_pubsub_msgs"} <= set(producers), "event producers changed: %s" % sorted(producers))
    for name, fields in sorted(producers.items()):
        f = P.fn(name)
        ck.analysed(f)
        missing = EVT_FIELDS_NEEDED - fields
        pay = fields & PAYLOADS
        ck.ob("C03.3-PRODUCERS", f.site("event fields"), not missing and bool(pay),
              "initialises %s" % sorted(fields) if not missing and pay else "events built here lack %s (siblings set them): handlers see them uninitialised"
              % sorted(missing or {"payload"}))
    pes = [e for e in rv.calls("push_evt")]
    okm = bool(pes)
    for e in pes:
        m = S(e.args[0])
        defs = [d for d in rv.events() if d.kind in ("decl", "assign") and d.lhs is not None and S(d.lhs) == m]
        okm = okm and len(defs) == 1 and S(defs[0].rhs) == "p->mod"
    ck.ob("C03.3-PRODUCERS", rv.site("owner"), okm, "push_evt receives the module recorded in the polled source (p->mod): %s" % okm)

    # ------------------------------------------------------------------ 4. one-shot
    # a ready descriptor is handed to its owner: the poll back end withholds an event only for EPOLLERR — end of stream (EPOLLHUP, which
    # arrives together with EPOLLIN on a pipe or socket whose peer closed) is something the owner must see, and a withheld event makes
    # recv_events give up on the rest of the batch
    pr = P.fn("poll_recv", required=False)
    if pr is not None:
        ck.analysed(pr)
        import re as _re
        ERR_ = P.enums.get("EPOLLERR", 8)
        wide = []
        for g_ in rules.bailouts(pr):
            if g_.retval != 0:
                continue
            for (a_, p_) in g_.cont_atoms:
                m_ = _re.search(r"events & (\d+)\)$", a_)
                if m_ and (int(m_.group(1)) & ~ERR_):
                    wide.append((a_, int(m_.group(1)), g_.line))
        ck.rule("C03.7-READY-DELIVERED", "R-GUARD: poll_recv withholds a ready event only when EPOLLERR is set", floor=1)
        ck.ob("C03.7-READY-DELIVERED", pr.site("only EPOLLERR withholds an event"), not wide,
              "poll_recv returns NULL for EPOLLERR only" if not wide else
              "poll_recv returns NULL when %s (mask %#x, line %d): a readable descriptor at end of stream (EPOLLIN|EPOLLHUP) is never handed to its owner, "
              "and recv_events turns the NULL into EAGAIN and skips the remaining events of the batch" % wide[0])

    ck.rule("C03.4-ONESHOT", "R-PAIR: M_SRC_ONESHOT implies EPOLLONESHOT at registration; a delivered one-shot source is removed from its "
            "registry in recv_events (set for sources, map for subscriptions); task and threshold sources are forced one-shot", floor=4)
    ck.need("M_SRC_ONESHOT" in E, "M_SRC_ONESHOT vanished")
    ONE = E["M_SRC_ONESHOT"]
    ps = P.fn("poll_set_new_evt")
    ck.analysed(ps)
    # per path: the event mask finally stored has EPOLLONESHOT exactly when the path took the M_SRC_ONESHOT branch
    # every spelling of "the events field of this source's epoll record" (ev->events, tmp->ev->events after a helper was inlined)
    masks = frozenset(S(e.lhs) for e in ps.events() if e.kind == "assign" and strip(e.lhs)["k"] == "member" and strip(e.lhs)["field"] == "events"
                      and strip(e.lhs).get("rec", "") in ("epoll_event", ""))
    badm = None
    nm = 0
    for path in ps.paths():
        feas, _env, a, _evs = rules.simulate(ps, path)
        if not feas:
            continue
        stored, v = rules.path_final_const(ps, path, masks)
        if not stored:
            continue
        nm += 1
        one = a.get("(tmp->flags & %d)" % ONE)
        if v is None or one is None or bool(v & (1 << 30)) != one or not (v & 1):
            badm = (path, v, one)
    ck.ob("C03.4-ONESHOT", ps.site("EPOLLONESHOT"), badm is None and nm > 0,
          "%d path(s) store the event mask: EPOLLIN always, EPOLLONESHOT exactly under tmp->flags & M_SRC_ONESHOT" % nm if badm is None else
          "a path stores the event mask %s with tmp->flags & M_SRC_ONESHOT %s: a one-shot source is polled level-triggered (delivered again and again) "
          "or a persistent one only once" % (badm[1], badm[2]), path=rules.fmt_path(ps, badm[0]) if badm else None)
    rm1 = [e for e in rv.calls("m_bst_remove") if S(e.args[1]) == "p"]
    rm2 = [e for e in rv.calls("m_map_remove") if "subscriptions" in S(e.args[0])]
    okr = bool(rm1) and bool(rm2)
    for e in rm1:
        fc = X.facts(rv, e)
        okr = okr and has(fc, "(p->flags & %d)" % ONE) and has(fc, "p->type") and S(e.args[0]) == "mod->srcs[p->type]"
    for e in rm2:
        fc = X.facts(rv, e)
        okr = okr and has(fc, "(p->flags & %d)" % ONE) and has(fc, "p->type", False) and S(e.args[1]).endswith("ps_src.topic")
    ck.ob("C03.4-ONESHOT", rv.site("one-shot removed"), okr, "delivered one-shot sources leave their registry: %s" % okr,
          witness=[("del_event", rv.unit, rv.name, e.block.id, e.idx) for e in rm1 + rm2])
    cs = P.fn("create_src")
    ck.analysed(cs)
    from props.common import flag_forced_for_type
    for tn in ("M_SRC_TYPE_TASK", "M_SRC_TYPE_THRESH"):
        tot_, set_ = flag_forced_for_type(cs, E[tn], ONE)
        fo = tot_ > 0 and set_ == tot_
        ck.ob("C03.4-ONESHOT", cs.site("forced for " + tn[11:]), fo, "%s sources are forced one-shot: %d of %d creating path(s) set the flag" % (tn[11:], set_, tot_))

    # ------------------------------------------------------------------ 4b. watched signals stay blocked
    ck.rule("C03.6-SIGMASK", "R-WHO-CALLS: the process signal mask / dispositions are touched only by create_signalfd, and only to block the "
            "watched signal (SIG_BLOCK): a signal source keeps its signal pending for the descriptor across pause/resume and between two "
            "modules watching the same number", floor=1)
    SIGCALLS = {"sigprocmask", "pthread_sigmask", "sigaction", "signal", "sigsuspend", "sigwait", "sigtimedwait"}
    scs = list(P.calls_to(SIGCALLS))
    ck.need(scs, "no signal-mask call left (create_signalfd no longer blocks the watched signal?)")
    for ev in scs:
        ck.call_sites += 1
        ck.analysed(ev.fn)
        okm = ev.fn.name == "create_signalfd" and ev.callee in ("sigprocmask", "pthread_sigmask") and cval(ev.args[0]) == 0
        ck.ob("C03.6-SIGMASK", ev.fn.site("%s(%s)" % (ev.callee, S(ev.args[0]))), okm,
              "%s(%s, …) at line %d in %s%s" % (ev.callee, S(ev.args[0]), ev.line, ev.fn.name, "" if okm else
                                                ": the signal mask is changed outside create_signalfd/SIG_BLOCK — a watched signal that arrives while its "
                                                "module is paused (sources off the poll set) is delivered to the process instead of staying pending"))

    # ------------------------------------------------------------------ 5. dispatch = loop
    ck.rule("C03.5-DISPATCH", "R-SIBLING: m_ctx_dispatch and the blocking loop reach the same primitives {loop_start, recv_events, loop_stop} "
            "and decide to stop on the same two state atoms (quit, running_modules)", floor=1)
    dp = P.fn("m_ctx_dispatch", CTXC)
    ck.analysed(dp)
    prim = {"loop_start", "recv_events", "loop_stop"}
    c1 = {e.callee for e in dp.calls() if e.callee in prim}
    c2 = {e.callee for e in le.calls() if e.callee in prim}
    dconds = " ".join(S(b.term["cond"]) for b in dp.blocks.values() if b.term and b.term.get("cond") is not None)
    ok = c1 == prim and c2 == prim and "c->quit" in dconds and "c->stats.running_modules" in dconds
    stop_call = [e for e in dp.calls("loop_stop")]
    if ok and stop_call:
        # loop_stop in dispatch mode is reached exactly when quit || running == 0
        bad = False
        for path in dp.paths():
            evs = list(rules.path_events(dp, path))
            a = rules.path_assumes(path)
            has_stop = any(e in stop_call for e in evs)
            cond = a.get("c->quit") is True or a.get("c->stats.running_modules") is False
            if has_stop != cond and (a.get("c->state") is True or a.get("(c->state == 0)") is False):
                bad = True
        ok = not bad
    ck.ob("C03.5-DISPATCH", dp.site("same primitives/atoms"), ok, "dispatch reaches %s, loop reaches %s; stop test: %s" % (sorted(c1), sorted(c2), dconds[:120]))

    ck.not_decided += ["which of several ready sources are delivered for a concrete batch; kernel behaviour",
                       "equality of delivery sequences between the two driving modes", "handler only while RUNNING is decided under C01.6"]
