"""R-NULLABLE helpers: unguarded dereferences of a pointer inside a function (expression-level guards included)."""
import lm
import rules
from lm import S, strip, atoms, walk


def _derefs(e, name, guards, out, line):
    """Collect dereferences of variable `name` in expression e that are not protected by `guards` (set of (atom,pol))."""
    e0 = e
    while e0 is not None and e0.get("k") in ("cast", "icast"):
        e0 = e0["e"]
    if e0 is None:
        return
    k = e0["k"]
    if k == "cond":
        _derefs(e0["c"], name, guards, out, line)
        _derefs(e0["a"], name, guards | set(atoms(e0["c"], True)), out, line)
        _derefs(e0["b"], name, guards | set(atoms(e0["c"], False)), out, line)
        return
    if k == "bin" and e0["op"] in ("&&", "||"):
        _derefs(e0["l"], name, guards, out, line)
        _derefs(e0["r"], name, guards | set(atoms(e0["l"], e0["op"] == "&&")), out, line)
        return
    is_deref = False
    if k == "member" and e0["arrow"]:
        b = strip(e0["base"])
        is_deref = b is not None and b["k"] == "var" and b["name"] == name
    elif k == "un" and e0["op"] == "*":
        b = strip(e0["e"])
        is_deref = b is not None and b["k"] == "var" and b["name"] == name
    elif k == "index":
        b = strip(e0["base"])
        is_deref = b is not None and b["k"] == "var" and b["name"] == name
    if is_deref and (name, True) not in guards:
        out.append((line, S(e0)))
    for key in ("base", "e", "l", "r", "idx", "fn"):
        sub = e0.get(key)
        if isinstance(sub, dict):
            _derefs(sub, name, guards, out, line)
    for key in ("args", "elems"):
        for sub in e0.get(key, ()) or ():
            _derefs(sub, name, guards, out, line)


def unguarded_derefs(X, f, name):
    """[(line, expr)] dereferences of local/param `name` in f not dominated by a non-NULL test (branch facts or ?:/&& guards)."""
    out = []
    for ev in f.events():
        if ev.kind == "call":
            # only the callee expression and the arguments' own sub-expressions (nested calls are events of their own)
            facts = set(X.facts(f, ev) or ())
            e = ev.e
            if e.get("fn") is not None:
                _derefs(e["fn"], name, facts, out, ev.line)
            for a in e.get("args", []):
                if strip(a) is not None and strip(a)["k"] != "call":
                    _derefs(a, name, facts, out, ev.line)
        elif ev.kind in ("assign", "incdec", "ret"):
            facts = set(X.facts(f, ev) or ())
            if ev.e is not None:
                _derefs(ev.e, name, facts, out, ev.line)
        elif ev.kind == "decl" and ev.rhs is not None and strip(ev.rhs)["k"] != "call":
            facts = set(X.facts(f, ev) or ())
            _derefs(ev.rhs, name, facts, out, ev.line)
    for b in f.blocks.values():
        if b.id in f.reachable() and b.term and b.term.get("cond") is not None and strip(b.term["cond"])["k"] != "call":
            IN, tr = X.cache.setdefault((f.key, "n", False), rules.mustfacts(f))
            st = f.state_at_end(IN, b.id, tr)
            # the condition itself is evaluated before its own edge facts exist
            _derefs(b.term["cond"], name, set(st or ()), out, b.term["line"])
    # unique
    seen, res = set(), []
    for x in out:
        if x not in seen:
            seen.add(x)
            res.append(x)
    return res


def derefs_param_unconditionally(X, P, fname, idx, caller=None):
    f = P.resolve_ptr(caller, fname) if caller is not None else P.fn(fname, required=False)
    if f is None or idx >= len(f.params):
        return None, []
    d = unguarded_derefs(X, f, f.params[idx]["name"])
    return f, d
