"""C10 — ref-counted blocks: proof by abstract interpretation of Lib/mem/mem.c (DESIGN §4 C10, §2.4, A.8)."""
import lm
import rules
import absint
from absint import Aff, Ptr, TOP
from lm import S, strip, cval
from props.common import Ctx, has, fmt_facts
from units import AnalysisBroken

LEVEL = "proof"
U = "Lib/mem/mem.c"
DTOR = ("sym", "dtor")


def _mk(funcs, structs):
    return absint.Interp(funcs, structs)


def run(ck, P):
    X = Ctx(P)
    ALIGN = P.max_align
    hdr = P.record("mem_header_t")
    offs = {f["name"]: f["off"] for f in hdr["fields"]}
    for n in ("refs", "size", "dtor", "data"):
        ck.need(n in offs, "mem_header_t.%s vanished" % n)
    HS = hdr["size"]
    text = absint.lower(P.root, U, "MEM", P.ndebug)
    funcs, structs = absint.parse(text)
    for n in ("m_mem_new", "m_mem_ref", "m_mem_unref", "m_mem_size"):
        ck.need(n in funcs, "IR of %s not found" % n)
    newf = P.fn("m_mem_new", U)
    ck.analysed(newf, P.fn("m_mem_ref", U), P.fn("m_mem_unref", U), P.fn("m_mem_size", U), P.fn("m_mem_unrefp", U))

    # who calls the allocator — decided first: a block obtained elsewhere makes the rest moot
    LIBC_ALLOC = {"malloc", "calloc", "realloc", "free", "strdup", "strndup", "posix_memalign", "aligned_alloc", "memalign", "valloc", "pvalloc",
                  "reallocarray", "mmap"}
    ck.rule("C10.6-MEMHOOK", "R-WHO-CALLS: no direct malloc/calloc/realloc/free/strdup/posix_memalign/aligned_alloc… call anywhere in Lib/ (allocation "
            "goes through memhook; the only mention of the libc allocator is memhook's initialiser); no memhook entry is copied into storage "
            "that outlives the call; m_set_memhook is all-or-nothing", floor=1)
    direct = [ev for ev in P.calls_to(LIBC_ALLOC)]
    ck.ob("C10.6-MEMHOOK", "Lib:direct libc allocator calls", not direct,
          "none" if not direct else "direct call %s at %s: the block does not come from (or go back to) the configured allocator — after m_set_memhook() it "
          "is handed to the other allocator's free" % (direct[0].callee, direct[0].where()), nontrivial=False)

    ck.rule("C10.1-ALIGN", "R-ALIGN (abstract interpretation of the SSA of m_mem_new, requested size = 16*K + r for each residue r, K>=0 "
            "symbolic): (returned pointer − allocation base) ≡ 0 mod alignof(max_align_t), given an allocator that returns "
            "max-aligned memory", floor=16)
    ck.rule("C10.1-COVERS", "R-ALIGN: the allocator request covers [base, returned + size) for every size; the header/shift stores are "
            "pairwise disjoint and lie inside the allocation, below the user data", floor=16)
    ck.rule("C10.2-HEADER", "R-LAYOUT: get_header(m_mem_new(..)) is exactly the allocation base (the byte stored at p[-1] is the shift "
            "get_header subtracts), the header holds refs = 1, the requested size and the destructor; m_mem_size returns that size", floor=16)
    ck.rule("C10.3-PROTOCOL", "abstract execution of ref/unref sequences on a fresh block: while a reference remains nothing is called or "
            "freed; when the last one is dropped the destructor (if any) runs once on the user pointer and then the allocation base is "
            "handed to memhook._free exactly once", floor=16)
    for r in range(ALIGN):
        it = _mk(funcs, structs)
        size = Aff(ALIGN, r)
        paths = it.run("m_mem_new", [size, DTOR])
        succ = [p for p in paths if isinstance(p.ret, Ptr) and p.ret.region != "null"]
        fail = [p for p in paths if isinstance(p.ret, Ptr) and p.ret.region == "null"]
        site = "%s:m_mem_new:size≡%d (mod %d)" % (U, r, ALIGN)
        if len(succ) > 1 and all(len(p_.allocs) == 1 for p_ in succ):
            # several paths hand back a non-NULL pointer out of one allocation: one of them must be the allocator's failure
            ck.ob("C10.1-COVERS", site + " failure is reported", False,
                  "m_mem_new returns a non-NULL pointer on %d paths, %d of them %s: when the configured allocator fails the caller is handed base+shift of a NULL "
                  "block instead of NULL" % (len(succ), len(paths) - len(fail) - 1, "without a usable block"))
            continue
        if len(succ) != 1 or len(succ[0].allocs) != 1:
            raise AnalysisBroken("m_mem_new: expected one successful path with one allocation, got %d path(s)" % len(succ))
        p = succ[0]
        reg, asize, kind = p.allocs[0]
        ck.ob("C10.1-COVERS", site + " allocator", kind in ("calloc", "malloc"),
              "the block comes from memhook._%s" % kind if kind in ("calloc", "malloc") else
              "the block is obtained from %s(), not from the configured allocator (memhook): it is later handed to memhook._free — a user allocator installed with "
              "m_set_memhook() never saw it" % kind[4:])
        off = p.ret.off
        ok1 = isinstance(off, Aff) and off.const and off.b % ALIGN == 0 and p.ret.region == reg
        ck.ob("C10.1-ALIGN", site, ok1, "returned = base + %r  (%s); size = %r" %
              (off, "aligned" if ok1 else "NOT a multiple of %d: the block is misaligned for this residue class" % ALIGN, size))
        ok2 = isinstance(asize, Aff) and isinstance(off, Aff) and off.const and asize.a >= size.a and \
            (asize.a > size.a or asize.b >= off.b + size.b) and off.b >= HS + 1
        # stores: disjoint, inside [0, off)
        ivs = []
        for (a, v, w) in p.stores:
            if not (isinstance(a, Ptr) and a.region == reg and isinstance(a.off, Aff) and a.off.const):
                ok2 = False
                continue
            ivs.append((a.off.b, a.off.b + w))
        ivs.sort()
        for i in range(len(ivs)):
            if ivs[i][0] < 0 or (isinstance(off, Aff) and off.const and ivs[i][1] > off.b):
                ok2 = False
            if i and ivs[i][0] < ivs[i - 1][1]:
                ok2 = False
        ck.ob("C10.1-COVERS", site, ok2, "%s(%r) covers base..returned+size = %r + %r; stores at %s; kind=%s zeroed=%s"
              % (kind, asize, off, size, ivs, kind, kind == "calloc"))
        # header
        it2 = _mk(funcs, structs)
        gp = it2.run("get_header", [p.ret], p.mem) if "get_header" in funcs else None
        okh = True
        det = []
        if gp is None:
            # get_header inlined into its callers in a refactor: fall back to m_mem_size agreeing below
            det.append("get_header not a separate function")
        else:
            okh = len(gp) == 1 and isinstance(gp[0].ret, Ptr) and gp[0].ret.region == reg and gp[0].ret.off == Aff(0, 0)
            det.append("get_header(returned) = %r" % (gp[0].ret,))
        mv = p.mem
        okh = okh and mv.get((reg, offs["refs"]), (None,))[0] == Aff(0, 1) and mv.get((reg, offs["size"]), (None,))[0] == size \
            and mv.get((reg, offs["dtor"]), (None,))[0] == DTOR
        det.append("refs=%r size=%r dtor=%r" % (mv.get((reg, offs["refs"]), (None,))[0], mv.get((reg, offs["size"]), (None,))[0],
                                                mv.get((reg, offs["dtor"]), (None,))[0]))
        sp = _mk(funcs, structs).run("m_mem_size", [p.ret], p.mem)
        nn = [q for q in sp if q.ret == size]
        okh = okh and len(nn) >= 1 and all(q.ret == size or q.ret == Aff(0, 0) for q in sp)
        det.append("m_mem_size = %s" % [repr(q.ret) for q in sp])
        # failing paths (allocator failure; a refusal of sizes that would wrap around) return NULL having stored nothing
        okh = okh and len(fail) >= 1 and not any(q.stores for q in fail) and sum(1 for q in fail if q.allocs) <= 1
        ck.ob("C10.2-HEADER", site, okh, "; ".join(det))
        # protocol: new, ref, unref, unref
        okp, detp = _protocol(funcs, structs, p, reg, offs)
        ck.ob("C10.3-PROTOCOL", site, okp, detp)

    # ------------------------------------------------------------------ AST level: counter protocol shape, NULL tolerance, allocator
    ck.rule("C10.4-WHO-WRITES-REFS", "R-WHO-WRITES: mem_header_t.refs is set to 1 in m_mem_new, ++ only in m_mem_ref, -- only in m_mem_unref; "
            "destructor call and free are control-dependent on the decremented counter being 0", floor=3)
    # (m_mem_unrefp is the second release entry point: it may hand over to m_mem_unref or release in place, under the same rules)
    want = {"m_mem_new": ("=", 1), "m_mem_ref": ("++", None), "m_mem_unref": ("--", None), "m_mem_unrefp": ("--", None)}
    seen = set()
    for ev in P.writes_to_field("mem_header_t", "refs"):
        f = ev.fn
        op = ev.e.get("op")
        w = want.get(f.name)
        ok = w is not None and op == w[0] and (w[1] is None or cval(ev.rhs) == w[1])
        seen.add(f.name)
        ck.ob("C10.4-WHO-WRITES-REFS", f.site("refs" + op), ok, "'%s' at line %d" % (S(ev.e), ev.line), nontrivial=False)
    ck.need({"m_mem_new", "m_mem_ref", "m_mem_unref"} <= seen, "writers of refs changed: %s" % sorted(seen))
    for un in [P.fn(n_, U) for n_ in ("m_mem_unref", "m_mem_unrefp") if n_ in seen]:
        decs = [w for w in P.writes_to_field("mem_header_t", "refs") if w.fn is un and w.e.get("op") == "--"]
        for ev in list(rules.dtor_calls(un)) + [e for e in un.calls() if e.callee is None and S(e.e["fn"]).endswith("_free")]:
            facts = X.facts(un, ev)
            ok = any(a.startswith("--") and a.endswith("->refs") and p is False for (a, p) in facts)
            if not ok:
                # the decrement written as a statement of its own, the (unsigned) counter tested afterwards: `refs -= 1; if (refs > 0) return;`
                for w in decs:
                    lv = S(w.lhs) if w.lhs is not None else S(w.e["e"])
                    zero = has(facts, lv, False) or has(facts, "(%s > 0)" % lv, False) or has(facts, "(%s != 0)" % lv, False) \
                        or has(facts, "(%s < 1)" % lv, True) or has(facts, "(%s >= 1)" % lv, False)
                    if zero and un.ev_dominates(w, ev):
                        ok = True
            ck.ob("C10.4-WHO-WRITES-REFS", un.site("%s under --refs==0" % S(ev.e["fn"])), ok, "line %d under %s" % (ev.line, fmt_facts(facts)))

    # what a block is — its size and its destructor — is written once, when it is created: the destructor still runs on a block that
    # reports its true size
    for fld in ("size", "dtor"):
        ws_ = [w for w in P.writes_to_field("mem_header_t", fld)]
        okw_ = bool(ws_) and all(w.fn.name == "m_mem_new" for w in ws_)
        ck.ob("C10.4-WHO-WRITES-REFS", "%s:mem_header_t.%s written at creation only" % (U, fld), okw_,
              "mem_header_t.%s is stored by %s" % (fld, sorted({w.fn.name for w in ws_})) + ("" if okw_ else
              ": a block whose %s is rewritten after creation no longer reports what was requested (e.g. m_mem_size() is 0 inside the block's own "
              "destructor, which then drops none of its children)" % fld), nontrivial=False)

    # the size is reported for every live pointer, whatever else the header holds (e.g. while the destructor runs with refs == 0)
    ms = P.fn("m_mem_size", U)
    ck.analysed(ms)
    exs = rules.Expander(ms, stable=False)
    arg0 = ms.params[0]["name"]
    bads = None
    nsz = 0
    for path in ms.paths():
        asm = rules.path_assumes(path)
        if asm.get(arg0) is False:
            continue
        rets = [e for e in rules.path_events(ms, path) if e.kind == "ret" and e.e is not None]
        if not rets:
            continue
        nsz += 1
        rv_ = exs.at(rets[-1], rets[-1].e)
        if not rv_.endswith("->size") or any(k != arg0 and v is not None for k, v in asm.items()):
            bads = (rv_, {k: v for k, v in asm.items() if k != arg0}, path)
    ck.ob("C10.2-HEADER", ms.site("size for every live block"), bads is None and nsz > 0,
          "m_mem_size returns the header's size field on every path with a non-NULL block, under no further condition" if bads is None else
          "m_mem_size returns '%s' under %s: the reported size depends on something other than the block being non-NULL (e.g. it is 0 while the destructor "
          "runs, when refs is already 0)" % (bads[0], bads[1]), path=rules.fmt_path(ms, bads[2]) if bads else None)

    # the counter is as wide as the number of references that can exist; the NULL-tolerant entry points are not declared nonnull
    hr = P.record("mem_header_t")
    rf = [f_ for f_ in hr["fields"] if f_["name"] == "refs"]
    okw = bool(rf) and rf[0]["size"] >= 8
    ck.ob("C10.4-WHO-WRITES-REFS", "%s:mem_header_t.refs width" % U, okw,
          "refs is %d bytes wide (size_t)" % (rf[0]["size"] if rf else 0) if okw else
          "the reference counter is only %d byte(s) wide: it wraps after %d references, the block is destroyed while references remain"
          % (rf[0]["size"] if rf else 0, 1 << (8 * (rf[0]["size"] if rf else 0))))

    ck.rule("C10.5-NULL-OK", "R-GUARD: every dereference of the block argument in m_mem_ref/unref/unrefp/size is dominated by a non-NULL test",
            floor=4)
    for n in ("m_mem_ref", "m_mem_unref", "m_mem_unrefp", "m_mem_size"):
        f = P.fn(n, U)
        arg = f.params[0]["name"]
        def _deref_use(ev, arg=arg):
            # the argument is dereferenced, or handed to a callee, somewhere in this event (a plain `return src;` is neither)
            e0 = ev.e if ev.kind != "decl" else (ev.rhs or {})
            for x in lm.walk(e0):
                if (x.get("k") == "member" and x.get("arrow")) or (x.get("k") == "un" and x.get("op") == "*") or x.get("k") in ("index", "call"):
                    if any(y.get("k") == "var" and y.get("name") == arg for y in lm.walk(x)):
                        return True
            return False
        uses = [ev for ev in f.events() if _deref_use(ev)]
        if f.raw.get("nonnull"):
            ck.ob("C10.5-NULL-OK", f.site("not declared nonnull"), False,
                  "%s is declared __attribute__((nonnull)): an optimising compiler removes the NULL test in its body, and NULL — which the function documents as "
                  "tolerated — is dereferenced" % n)
        ok = bool(uses) and all(has(X.facts(f, ev), arg) for ev in uses)
        ck.ob("C10.5-NULL-OK", f.site("NULL tolerated"), ok, "%d use(s) of '%s' all under a non-NULL test: %s" % (len(uses), arg, ok))

    # the header of a block is computed only from a pointer known to be non-NULL (whatever expression names the block)
    for ev in P.calls_to("get_header"):
        f = ev.fn
        if f.unit != U or not ev.args:
            continue
        a_ = strip(ev.args[0])
        facts = X.facts(f, ev)
        ck.ob("C10.5-NULL-OK", f.site("header of a non-NULL block@%d" % ev.line), has(facts, S(a_)),
              "get_header(%s) at line %d under %s%s" % (S(a_), ev.line, fmt_facts(facts), "" if has(facts, S(a_)) else
              ": the block '%s' itself is not known to be non-NULL here — releasing a NULL pointer, which is documented as a no-op, reads "
              "the byte before address 0" % S(a_)))

    # positive fixture for the zero-expected rule: memhook must resolve to the libc triple
    init = P.pointsto().pts.get(("global", "memhook"), set())
    ck.need({"malloc", "calloc", "free"} <= init, "memhook initialiser no longer names malloc/calloc/free (fixture for C10.6)")

    # the configured allocator is looked up when it is used: no copy of a hook is kept in storage that outlives the call (a copy made before
    # m_set_memhook() goes on naming the old allocator: blocks allocated by the new one are handed to the old one's free)
    stale = []
    for ev in P.all_events():
        if ev.kind in ("assign", "decl") and ev.rhs is not None and ev.lhs is not None and S(strip(ev.rhs)).startswith("memhook."):
            l_ = strip(ev.lhs)
            root_ = lm.root_var(l_) if hasattr(lm, "root_var") else None
            is_static = (l_.get("k") == "var" and l_.get("vk") in ("global", "slocal")) or (ev.kind == "decl" and ev.e.get("static")) \
                or (l_.get("k") == "member")
            if is_static:
                stale.append(ev)
    ck.ob("C10.6-MEMHOOK", "Lib:hooks are read at the point of use", not stale,
          "no hook is copied into a variable or field that outlives the call" if not stale else
          "'%s' at %s keeps a copy of a memhook entry beyond the call: after m_set_memhook() the copy still names the old allocator, so a block obtained "
          "from the new allocator is released with the old one's free" % (S(stale[0].e)[:80], stale[0].where()))

    # replacing the allocator is all-or-nothing: a refused m_set_memhook leaves the old triple in place (a half-replaced triple allocates
    # with one allocator and frees with another)
    smh = P.fn("m_set_memhook", required=False)
    if smh is not None:
        ck.analysed(smh)
        stores = [e for e in smh.events() if e.kind == "assign" and S(e.lhs).startswith("memhook.")]
        whole = [e for e in smh.events() if (e.kind == "assign" and S(e.lhs) == "memhook") or
                 (e.kind == "call" and e.callee == "memcpy" and e.args and S(e.args[0]) == "&memhook")]
        stores = stores + whole * 3          # a store of the whole triple at once (struct assignment) counts for its three fields
        fails = [e for e in smh.events() if e.kind == "ret" and e.e is not None and (cval(e.e) or 0) != 0]
        half = [(w, r) for w in stores for r in fails if rules.may_precede(smh, w, r)]
        ck.ob("C10.6-MEMHOOK", smh.site("all-or-nothing"), len(stores) >= 3 and not half,
              "m_set_memhook stores the %d hooks only after every argument check has passed" % len(stores) if not half else
              "m_set_memhook stores %s at line %d and can still refuse the call at line %d: the call fails but part of the allocator triple is already "
              "replaced (blocks are then allocated by one allocator and freed by another)" % (S(half[0][0].lhs) if half[0][0].lhs is not None else "memhook", half[0][0].line, half[0][1].line))

    ck.extra["checker_cmd"] = "python3 engine/check.py C10 --tier %s   (engine/absint.py over `clang-14 -O1 -Xclang -disable-llvm-passes -S -emit-llvm` + `opt-14 -passes=function(mem2reg,simplifycfg)` of %s)" % (ck.tier, U)
    ck.extra["trusted_base"] = ["clang 14 lowering to LLVM IR and opt-14 mem2reg/simplifycfg", "engine/absint.py transfer functions (affine forms a*K+b, K>=0)",
                                "allocator returns memory aligned to alignof(max_align_t) = %d" % ALIGN,
                                "no unsigned wrap-around: requested size + header + %d < 2^64" % (2 * ALIGN),
                                "record layout of mem_header_t from clang (refs@%d size@%d dtor@%d data@%d)" % (offs["refs"], offs["size"], offs["dtor"], offs["data"])]
    ck.extra["exhaustive"] = True
    ck.not_decided += ["that 'the configured allocator' is the user's (m_set_memhook must be called before first use: usage precondition)",
                       "sequences over populations of nested blocks are covered only through the per-block protocol (destructors are opaque)"]


def _protocol(funcs, structs, p, reg, offs):
    user = p.ret
    mem = dict(p.mem)
    log = []

    def step(fn, mem):
        it = _mk(funcs, structs)
        paths = it.run(fn, [user], mem)
        return paths

    # new -> ref -> unref -> unref
    r1 = step("m_mem_ref", mem)
    if len(r1) != 1 or r1[0].mem.get((reg, offs["refs"]), (None,))[0] != Aff(0, 2) or [c for c in r1[0].calls if c[0] != "call"]:
        return False, "m_mem_ref: refs=%r calls=%s" % (r1[0].mem.get((reg, offs["refs"])), r1[0].calls)
    u1 = step("m_mem_unref", r1[0].mem)
    if len(u1) != 1 or u1[0].mem.get((reg, offs["refs"]), (None,))[0] != Aff(0, 1) or [c for c in u1[0].calls if c[0] != "call"]:
        return False, "m_mem_unref with 2 refs must only decrement: refs=%r calls=%s" % (u1[0].mem.get((reg, offs["refs"])), u1[0].calls)
    u2 = step("m_mem_unref", u1[0].mem)
    # two paths: destructor NULL / non-NULL
    if not u2:
        return False, "no path"
    seen_dtor = 0
    for q in u2:
        ext = [c for c in q.calls if c[0] != "call"]
        frees = [c for c in ext if c[0] == "free"]
        dts = [c for c in ext if c[0] == "indirect"]
        other = [c for c in ext if c[0] not in ("free", "indirect")]
        if other:
            return False, "unexpected call on last unref: %s" % other
        if len(frees) != 1 or not (isinstance(frees[0][1], Ptr) and frees[0][1].region == reg and frees[0][1].off == Aff(0, 0)):
            return False, "last unref frees %s (expected exactly the allocation base once)" % frees
        if len(dts) > 1:
            return False, "destructor called %d times" % len(dts)
        if dts:
            seen_dtor += 1
            a = dts[0][2][0]
            if not (isinstance(a, Ptr) and a.region == reg and a.off == user.off and "dtor" in dts[0][1]):
                return False, "destructor called with %r (expected the user pointer)" % (a,)
            if ext.index(dts[0]) > ext.index(frees[0]):
                return False, "destructor runs after the free"
        if q.mem.get((reg, offs["refs"]), (None,))[0] != Aff(0, 0):
            return False, "refs after last unref = %r" % (q.mem.get((reg, offs["refs"])),)
    if seen_dtor != 1 or len(u2) != 2:
        return False, "expected one path with and one without destructor, got %d/%d" % (seen_dtor, len(u2))
    # new -> unref directly
    d = step("m_mem_unref", mem)
    if not all(len([c for c in q.calls if c[0] == "free"]) == 1 for q in d):
        return False, "single unref of a fresh block does not free it"
    return True, "ref:2, unref:1 (no call), unref:0 -> dtor(user) once (if set) then free(base) once; new->unref frees"
