"""C18 — token bucket: accounting discipline, not rates (DESIGN §4 C18)."""
import lm
import rules
from lm import S, strip, cval
from props.common import Ctx, has, fmt_facts, guard_retvals, TMR_REMOVERS, TMR_CHARGED
from props.reset import reset_obligations

LEVEL = "other"
TOK = "(mod->tb.tokens > 0)"
U64MAX = 2**64 - 1

CONSUMERS = [
    ("m_mod_start", "Lib/core/mod.c"), ("m_mod_pause", "Lib/core/mod.c"), ("m_mod_resume", "Lib/core/mod.c"), ("m_mod_stop", "Lib/core/mod.c"),
    ("m_mod_bind", "Lib/core/mod.c"), ("register_mod_src", "Lib/core/src.c"), ("deregister_mod_src", "Lib/core/src.c"),
    ("m_mod_ps_subscribe", "Lib/core/ps.c"), ("m_mod_ps_unsubscribe", "Lib/core/ps.c"), ("m_mod_ps_tell", "Lib/core/ps.c"),
    ("m_mod_ps_publish", "Lib/core/ps.c"), ("m_mod_ps_poisonpill", "Lib/core/ps.c"), ("m_mod_become", "Lib/core/evts.c"),
    ("m_mod_unbecome", "Lib/core/evts.c"), ("m_mod_stash", "Lib/core/evts.c"), ("m_mod_unstash", "Lib/core/evts.c"),
    ("m_mod_set_batch_size", "Lib/core/evts.c"), ("deregister_internal_tmr", "Lib/core/src.c"),
]
VIA_SRC = {   # public source calls: consume through register_mod_src / deregister_mod_src
    "m_mod_src_register_fd": "register_mod_src", "m_mod_src_deregister_fd": "deregister_mod_src",
    "m_mod_src_register_tmr": "register_mod_src", "m_mod_src_deregister_tmr": "deregister_mod_src",
    "m_mod_src_register_sgn": "register_mod_src", "m_mod_src_deregister_sgn": "deregister_mod_src",
    "m_mod_src_register_path": "register_mod_src", "m_mod_src_deregister_path": "deregister_mod_src",
    "m_mod_src_register_pid": "register_mod_src", "m_mod_src_deregister_pid": "deregister_mod_src",
    "m_mod_src_register_task": "register_mod_src", "m_mod_src_register_thresh": "register_mod_src",
    "m_mod_src_deregister_thresh": "deregister_mod_src",
}


def run(ck, P):
    X = Ctx(P)
    eff = X.effects()

    # ------------------------------------------------------------------ 1. consume before acting
    ck.rule("C18.1-CONSUME", "R-GUARD-TABLE: every rate-limited entry point tests tb.tokens > 0 (else -EAGAIN, no effect), decrements once, and "
            "only then acts: the decrement is on every path to every other effect; the 13 public source calls act only through "
            "register_mod_src/deregister_mod_src", floor=30)
    for (name, unit) in CONSUMERS:
        f = P.fn(name, unit)
        ck.analysed(f)
        decs = [e for e in f.events() if e.kind == "incdec" and S(e.lhs) == "mod->tb.tokens" and e.e["op"] == "--"]
        if len(decs) != 1:
            ck.ob("C18.1-CONSUME", f.site("tokens--"), False, "%s has %d token decrement(s)" % (name, len(decs)))
            continue
        d = decs[0]
        facts = X.facts(f, d)
        gs = guard_retvals(f, TOK, True)
        ok = has(facts, TOK) and bool(gs) and all(g.retval == -11 and not g.effects_in_bail for g in gs) and d.block.id not in f.in_loop_blocks()
        ck.ob("C18.1-CONSUME", f.site("tokens--"), ok, "decrement at line %d under %s; empty bucket -> %s" % (d.line, TOK if has(facts, TOK) else "NO TEST",
                                                                                                          [g.retval for g in gs]),
              witness=[("drop_branch", f.unit, f.name, g.block) for g in gs])

        def step(st, ev, d=d):
            return st | {"consumed"} if ev is d else st
        IN = rules.tag_analysis(f, step, must=True)
        late = []
        for ev in f.events():
            if ev is d or not eff.is_effect(ev):
                continue
            if ev.kind == "call" and ev.callee in ("m_ctx", "m_mod_is", "fetch_ms"):
                continue
            st = f.state_before(IN, ev, step)
            if st is not None and "consumed" not in st:
                late.append(ev)
        ck.ob("C18.1-CONSUME", f.site("consume before acting"), not late,
              "all effects follow the decrement" if not late else "effect '%s' at line %d can happen without consuming a token" % (S(late[0].e)[:60], late[0].line),
              witness=[("del_event", f.unit, f.name, d.block.id, d.idx)])
    for name, via in VIA_SRC.items():
        f = P.fn(name, "Lib/core/src.c")
        ck.analysed(f)
        effs = [ev for ev in f.events() if eff.is_effect(ev)]
        ok = bool(effs) and all(ev.kind == "call" and ev.callee == via for ev in effs)
        ck.ob("C18.1-CONSUME", f.site("acts via " + via), ok, "%s: effects %s" % (name, sorted({S(e.e)[:40] for e in effs})), nontrivial=False)
    for (name, unit, subs) in (("m_mod_set_batch_timeout", "Lib/core/evts.c", set(TMR_CHARGED)),
                               ("m_mod_set_tokenbucket", "Lib/core/mod.c", set(TMR_CHARGED))):
        f = P.fn(name, unit)
        ck.analysed(f)
        cs = [e for e in f.calls() if e.callee in subs]
        ck.ob("C18.1-CONSUME", f.site("consumes via source calls"), bool(cs), "%s calls %s" % (name, sorted({e.callee for e in cs})), nontrivial=False)

    # ------------------------------------------------------------------ 2. who moves the counter
    ck.rule("C18.2-COUNTER", "R-WHO-WRITES + R-GUARD: tokens-- only under tokens > 0 (no wrap-around to 'unlimited'); tokens++ only in push_evt, "
            "for the bucket's own internal timer and under tokens < burst; plain stores only in m_mod_register (UINT64_MAX), "
            "m_mod_set_tokenbucket (burst / UINT64_MAX for rate 0) and reset_module (UINT64_MAX)", floor=20)
    for ev in P.writes_to_field("mod_tb_t", "tokens"):
        f = ev.fn
        op = ev.e["op"]
        facts = X.facts(f, ev)
        lv = S(ev.lhs)
        if op == "--":
            ok = has(facts, "(%s > 0)" % lv)
            det = "decrement under %s" % ("(%s > 0)" % lv if ok else fmt_facts(facts))
        elif op == "++":
            base = lv[:-len(".tokens")]
            timer_atom = "(src->userptr == &%s)" % base
            ok = f.name == "push_evt" and (has(facts, "(%s < %s.burst)" % (lv, base)) or has(facts, "(%s.burst > %s)" % (base, lv))
                                           or has(facts, "(%s >= %s.burst)" % (lv, base), False) or has(facts, "(%s.burst <= %s)" % (base, lv), False))
            # the increment is under "this is the bucket's own internal timer", however the two tests are spelt (boolean locals, a saved
            # copy of the user pointer, in place)
            rf_ = rules.resolve_atoms(f, facts or ())
            ok = ok and has(rf_, timer_atom) and any(has(rf_, "(src->flags & %d)" % b_) for b_ in (128,))
            det = "refill in %s under %s" % (f.name, fmt_facts(frozenset(x for x in facts if "tb" in x[0] or "internal" in x[0] or "timer" in x[0])))
        elif op == "=":
            v = cval(ev.rhs)
            if f.name in ("m_mod_register", "reset_module"):
                ok = v == U64MAX
            elif f.name == "m_mod_set_tokenbucket":
                # UINT64_MAX: switching the bucket off, or lifting the limit while it is being reconfigured (the final value on the
                # rate != 0 paths is checked below)
                ok = v == U64MAX or (S(ev.rhs) == "burst" and has(facts, "rate"))
            else:
                ok = False
            det = "store %s in %s under %s" % (S(ev.rhs), f.name, fmt_facts(frozenset(x for x in facts if x[0] == "rate")))
        else:
            ok, det = False, "unmodelled update %s" % S(ev.e)
        ck.ob("C18.2-COUNTER", f.site("tokens%s" % op), ok, "%s (line %d)" % (det, ev.line), nontrivial=op != "--")

    tbf = P.fn("m_mod_set_tokenbucket", "Lib/core/mod.c")
    badl = None
    nl = 0
    for path in tbf.paths():
        a = rules.path_assumes(path)
        evs = list(rules.path_events(tbf, path))
        sts = [e for e in evs if e.kind == "assign" and S(e.lhs) == "mod->tb.tokens"]
        if a.get("rate") is True and sts:
            nl += 1
            if S(sts[-1].rhs) != "burst":
                badl = path
    # ... and a new capacity never comes without a new fill: a path that stores the burst keeps the tokens within it
    badb = None
    nb_ = 0
    for path in tbf.paths():
        evs = list(rules.path_events(tbf, path))
        bs = [e for e in evs if e.kind == "assign" and S(e.lhs) == "mod->tb.burst"]
        if not bs:
            continue
        nb_ += 1
        sts = [e for e in evs if e.kind == "assign" and S(e.lhs) == "mod->tb.tokens"]
        if not sts or S(sts[-1].rhs) != S(bs[-1].rhs):
            badb = path
    ck.ob("C18.2-COUNTER", tbf.site("capacity and fill change together"), badb is None and nb_ > 0,
          "%d path(s) store a burst, each leaves tokens at that burst" % nb_ if badb is None else
          "a path stores a new burst and leaves the token count as it was: after the capacity was lowered the module still holds the old, larger number "
          "of tokens and can act more often than rate and burst allow", path=rules.fmt_path(tbf, badb) if badb else None)
    ck.ob("C18.2-COUNTER", tbf.site("bucket ends at burst"), badl is None and nl > 0,
          "%d configuring path(s) leave tokens = burst" % nl if badl is None else "a path with rate != 0 leaves the bucket at a value other than burst (unlimited)",
          path=rules.fmt_path(tbf, badl) if badl else None)
    # the removal of the old refill timer must not be refusable by the bucket that is being replaced
    drs = [e for e in tbf.calls() if e.callee in TMR_REMOVERS]
    lifts = [e for e in tbf.events() if e.kind == "assign" and S(e.lhs) == "mod->tb.tokens" and cval(e.rhs) == U64MAX]
    okl = bool(drs) and all(any(tbf.ev_dominates(l, d) for l in lifts) or _result_checked(tbf, d) for d in drs)
    ck.ob("C18.2-COUNTER", tbf.site("old timer removal cannot be throttled"), okl,
          "the limit is lifted (tokens = UINT64_MAX) before the old refill timer is deregistered, or the result is propagated" if okl else
          "the deregistration of the old refill timer consumes a token of the bucket being replaced and its result is ignored: with an empty "
          "bucket the old timer stays and the module is refilled at r_old + r_new")

    # ------------------------------------------------------------------ 3. refill wiring
    ck.rule("C18.3-REFILL", "R-SIBLING: the refill timer has period BILLION / rate with rate validated (<= BILLION, non-zero on that path), "
            "is registered INTERNAL|PRIO_HIGH with user pointer &mod->tb, which is the pointer push_evt recognises; the old timer is "
            "removed first", floor=3)
    tb = P.fn("m_mod_set_tokenbucket", "Lib/core/mod.c")
    ns = [e for e in tb.events() if e.kind == "assign" and S(e.lhs) == "mod->tb.timer.ns"]
    okn = bool(ns) and all(S(e.rhs) == "(1000000000 / rate)" and has(X.facts(tb, e), "rate") and has(X.facts(tb, e), "(rate > 1000000000)", False) for e in ns)
    ck.ob("C18.3-REFILL", tb.site("period"), okn, "timer.ns = %s under %s" % ([S(e.rhs) for e in ns], [fmt_facts(frozenset(x for x in X.facts(tb, e) if "rate" in x[0])) for e in ns]))
    regs = list(tb.calls("m_mod_src_register_tmr"))
    pe = P.fn("push_evt", "Lib/core/ctx.c")
    # (a comparison of the source's user pointer with &mod->tb, in a boolean local or a branch, directly or through a saved copy)
    cand_ = [x for e in pe.events() if e.kind == "decl" and e.rhs is not None for x in lm.atoms(e.rhs, True)]
    cand_ += [x for b_ in pe.blocks.values() if b_.term and b_.term.get("cond") is not None for x in lm.atoms(b_.term["cond"], True)]
    recog = [a_ for x in cand_ for (a_, _p) in rules.resolve_atoms(pe, [x]) if a_ == "(src->userptr == &mod->tb)"]
    okr = bool(regs) and all(cval(e.args[2]) == ((1 << 7) | P.enums["M_SRC_PRIO_HIGH"]) and S(e.args[3]) == "&mod->tb" and S(e.args[1]) == "&mod->tb.timer" for e in regs) and bool(recog)
    ck.ob("C18.3-REFILL", tb.site("registration"), okr, "registered as %s; recognised in push_evt: %s" % ([(cval(e.args[2]), S(e.args[3])) for e in regs], bool(recog)))
    dr = [e for e in tb.calls() if e.callee in TMR_REMOVERS]
    okd = bool(dr) and all(has(X.facts(tb, e), "mod->tb.timer.ns") and S(e.args[1]) == "&mod->tb.timer" for e in dr) and all(tb.ev_dominates(d, n) or d.block.id != n.block.id for d in dr for n in ns)
    stores_before = [n for n in ns for d in dr if tb.ev_dominates(n, d)]
    ck.ob("C18.3-REFILL", tb.site("old timer removed first"), okd and not stores_before, "deregister of the previous refill timer precedes the new period: %s" % (okd and not stores_before))

    # ------------------------------------------------------------------ 4. off switch
    ck.rule("C18.4-OFF", "R-RESET-ALL: rate 0 restores rate=0, burst=tokens=UINT64_MAX and forgets the timer key; stop(mod, stopping) does the "
            "same through reset_module", floor=6)
    bad = None
    why = ("a rate-0 path leaves the bucket's refill timer registered (or forgets its key first): a later re-enable adds a second timer and the "
           "bucket refills at r1 + r2")
    n = 0
    for path in tb.paths():
        a = rules.path_assumes(path)
        if a.get("rate") is not False:
            continue
        evs = list(rules.path_events(tb, path))
        if not any(e.kind == "ret" and cval(e.e) == 0 for e in evs):
            continue
        n += 1
        st = {S(e.lhs): cval(e.rhs) for e in evs if e.kind == "assign"}
        ms = [e for e in evs if e.kind == "call" and e.callee == "memset" and S(e.args[0]) == "&mod->tb.timer" and cval(e.args[1]) == 0]
        rg = [e for e in evs if e.kind == "call" and e.callee == "m_mod_src_register_tmr"]
        if not (st.get("mod->tb.rate") == 0 and st.get("mod->tb.burst") == U64MAX and st.get("mod->tb.tokens") == U64MAX and ms and not rg):
            bad = path
        # the restore must come after every token-consuming call of the path (a deregistration charges one token)
        tk = [i for i, e in enumerate(evs) if e.kind == "assign" and S(e.lhs) == "mod->tb.tokens"]
        cons = [i for i, e in enumerate(evs) if e.kind == "call" and e.callee in TMR_CHARGED]
        if tk and cons and max(cons) > max(tk):
            bad = path
            why = "a rate-0 path charges a token (timer deregistration) after the last tokens = UINT64_MAX: the switched-off bucket is left at UINT64_MAX - 1, not unlimited"
        # switching the bucket off must also remove its refill timer when one is registered
        dr_ = [e for e in evs if e.kind == "call" and e.callee in TMR_REMOVERS and S(e.args[TMR_REMOVERS[e.callee]]) == "&mod->tb.timer"]
        had = a.get("mod->tb.timer.ns")
        if had is None or (had is True and not dr_) or (dr_ and ms and evs.index(dr_[0]) > evs.index(ms[0])):
            bad = path
    ck.ob("C18.4-OFF", tb.site("rate 0"), bad is None and n > 0, "%d rate-0 path(s) restore the unlimited bucket, remove a registered refill timer first and register none" % n if bad is None else
          why,
          path=rules.fmt_path(tb, bad) if bad else None)
    reset_obligations(ck, P, X, "C18.4-OFF", scalar_fields=[("mod->tb.rate", 0), ("mod->tb.burst", U64MAX), ("mod->tb.tokens", U64MAX)],
                      memset_fields=["mod->tb.timer"])
    fields = {f["name"] for f in P.record("mod_tb_t")["fields"]}
    ck.ob("C18.4-OFF", "Lib/core/mod.h:mod_tb_t fields", fields == {"rate", "burst", "tokens", "timer"}, "mod_tb_t fields %s are each reset" % sorted(fields), nontrivial=False)

    ck.not_decided += ["the bound b + r*t over wall-clock time", "replenishment while running (timer behaviour)",
                       "re-configuration while user timers with the same period exist (depends on C09 key semantics)"]


def _result_checked(f, call_ev):
    """The call's result is bound to a variable that is tested with a bail-out (return) on its failing value."""
    for d in f.events():
        if d.kind in ("decl", "assign") and d.rhs is not None and d.block.id == call_ev.block.id and d.idx == call_ev.idx + 1 \
                and strip(d.rhs).get("callee") == call_ev.callee:
            var = S(d.lhs)
            for g in rules.bailouts(f):
                if any(a == var and p is False for (a, p) in g.cont_atoms) or any(a == "(%s == 0)" % var and p is True for (a, p) in g.cont_atoms):
                    return True
            # `if (ret != 0) return ret;` returns a variable, not a constant: look for a branch on var whose taken arm returns
            for b in f.blocks.values():
                if b.term and b.term.get("cond") is not None and any(a == var for (a, _p) in lm.atoms(b.term["cond"], True)):
                    for (s_, c_, br_) in f.edges(b.id):
                        blk = f.blocks[s_]
                        if any(e.kind == "ret" and S(e.e) == var for e in blk.events):
                            return True
    return False
