"""C16 — stash / unstash (DESIGN §4 C16, A.7)."""
import lm
import rules
import re
from lm import S, strip, cval
from props.common import Ctx, has, fmt_facts, check_guarded_entry, guard_retvals
from props.containers import is_free_call
from props.reset import reset_obligations
from units import AnalysisBroken

LEVEL = "other"
U = "Lib/core/evts.c"


def run(ck, P):
    X = Ctx(P)
    E = P.enums
    st = P.fn("m_mod_stash", U)
    us = P.fn("m_mod_unstash", U)
    ck.analysed(st, us)

    # ------------------------------------------------------------------ 1. guards
    ck.rule("C16.1-GUARDS", "R-GUARD: m_mod_stash and m_mod_unstash act only for a live, same-thread, RUNNING module (-EACCES otherwise); "
            "stash refuses an event whose source has M_SRC_PRIO_HIGH with -EPERM before enqueuing; unstash refuses len == 0 with -EINVAL", floor=10)
    run_atom = ("m_mod_is(mod, %d)" % X.RUNNING, True)
    for f in (st, us):
        check_guarded_entry(ck, X, f, "C16.1-GUARDS", X.mod_assert_atoms("mod") + [(run_atom, -13)], f.name)
    ck.need("M_SRC_PRIO_HIGH" in E, "M_SRC_PRIO_HIGH vanished")
    HIGH = E["M_SRC_PRIO_HIGH"]
    enq = [e for e in st.calls("m_queue_enqueue") if S(e.args[0]) == "mod->stashed"]
    ck.need(enq, "m_mod_stash no longer enqueues into mod->stashed")
    gs = guard_retvals(st, "(prio_flags & %d)" % HIGH, False)
    pf = [e for e in st.events() if e.kind == "assign" and S(e.lhs) == "prio_flags"]
    okp = bool(gs) and all(g.retval == -1 for g in gs) and all(has(X.facts(st, e), "(prio_flags & %d)" % HIGH, False) for e in enq)
    vs = {x for x in rules.value_sources(st, "prio_flags") if not x.lstrip("-").isdigit()}
    okp = okp and bool(vs) and all("->src->flags" in x for x in vs)
    ck.ob("C16.1-GUARDS", st.site("HIGH refused"), okp, "priority taken from the event's source (%s), HIGH -> %s before the enqueue"
          % ([S(e.rhs) for e in pf], [g.retval for g in gs]), witness=[("drop_branch", st.unit, st.name, g.block) for g in gs])
    refd = all(strip(e.args[1]).get("callee") == "m_mem_ref" for e in enq)
    ck.ob("C16.1-GUARDS", st.site("stash holds a reference"), refd, "the stashed event is enqueued as m_mem_ref(evt): %s" % refd, nontrivial=False)
    gl = guard_retvals(us, "(len > 0)", True)
    ck.ob("C16.1-GUARDS", us.site("len>0"), bool(gl) and all(g.retval == -22 for g in gl), "len == 0 -> %s" % [g.retval for g in gl])

    # a stash that did not happen is not reported as one: what m_mod_stash returns on the enqueuing paths is the enqueue's own result
    exst = rules.Expander(st, stable=False)
    bound = [e for e in st.events() if e.kind in ("decl", "assign") and e.rhs is not None and strip(e.rhs).get("callee") == "m_queue_enqueue"]
    bads = None
    ns_ = 0
    for path in st.paths():
        evs = list(rules.path_events(st, path))
        if not any(e in enq for e in evs):
            continue
        rets_ = [e for e in evs if e.kind == "ret" and e.e is not None]
        if not rets_:
            continue
        ns_ += 1
        rvx = exst.at(rets_[-1], rets_[-1].e)
        if rvx.startswith("m_queue_enqueue(mod->stashed"):
            continue
        asm = rules.path_assumes(path)
        names = [S(b_.lhs) for b_ in bound]
        succeeded = any(asm.get(n_) is False or asm.get("(%s == 0)" % n_) is True for n_ in names)
        if cval(rets_[-1].e) == 0 and not succeeded:
            bads = path
    ck.ob("C16.1-GUARDS", st.site("failed enqueue is reported"), bads is None and ns_ > 0,
          "%d enqueuing path(s) return the enqueue's result (0 only when it succeeded)" % ns_ if bads is None else
          "m_mod_stash returns 0 on a path where the enqueue into mod->stashed may have failed: the caller is told the event is stashed, a later unstash "
          "hands back fewer events than were accepted", path=rules.fmt_path(st, bads) if bads else None)

    # stashing is open to every RUNNING module for every event that is not high priority: what m_mod_stash may refuse on is the module's
    # validity / state / tokens and the event itself — not other state of the module or of its context (e.g. which callback is running)
    OKMOD = (r"^mod$", r"^m_mod_is\(mod, \d+\)$", r"^\(mod->ctx == m_ctx\(\)\)$", r"^\(mod->tb\.tokens > 0\)$", r"^\(mod->flags & \d+\)$",
             r"^[\w>.*\-\[\]&]+$")
    extra_ = [(a_, p_, g_.retval, g_.line) for g_ in rules.bailouts(st) if isinstance(g_.retval, int) and g_.retval < 0
              for (a_, p_) in g_.cont_atoms if lm._mentions(a_, st.params[0]["name"]) and not any(re.match(r_.replace("mod", st.params[0]["name"]), a_) for r_ in OKMOD)]
    ck.ob("C16.1-GUARDS", st.site("no other refusal"), not extra_,
          "m_mod_stash refuses on the module's validity, state and tokens and on the event, nothing else" if not extra_ else
          "m_mod_stash returns %d unless %s%s (line %d): a RUNNING module is refused a stash of an ordinary event because of state the property does not "
          "mention" % (extra_[0][2], "" if extra_[0][1] else "!", extra_[0][0], extra_[0][3]))

    # ------------------------------------------------------------------ 2. trip count of the move loop
    ck.rule("C16.2-TRIPCOUNT", "R-TRIPCOUNT: in m_mod_unstash the loop that moves events from the stash into the delivery queue starts at the "
            "head of mod->stashed and, when more than `len` events are stashed, leaves after exactly `len` moves (affine solution of the exit "
            "test over the induction variable); each move takes a reference before the stash entry is destroyed; the value returned is the "
            "length of the moved queue read before the handler runs", floor=4)
    moves = [e for e in us.calls("m_queue_enqueue") if S(e.args[0]) != "mod->stashed"]
    ck.need(len(moves) == 1, "m_mod_unstash: expected one move (enqueue into the delivery queue), found %d" % len(moves))
    mv = moves[0]
    qvar = S(mv.args[0])
    loops = [(t, h, us.natural_loop(t, h)) for (t, h) in us.back_edges()]
    loops = [l for l in loops if mv.block.id in l[2]]
    ck.need(len(loops) == 1, "move is not inside exactly one loop")
    tail, head, body = loops[0]
    # induction variable: a local initialised to a constant before the loop and ++'ed once inside
    incs = [e for b in body for e in us.blocks[b].events if e.kind == "incdec" and e.e["op"] == "++" and strip(e.lhs)["k"] == "var"]
    ck.need(len(incs) == 1, "loop has %d candidate induction variables" % len(incs))
    iv = S(incs[0].lhs)
    inits = [e for e in us.events() if e.kind == "decl" and e.e.get("name") == iv]
    ck.need(len(inits) == 1 and cval(inits[0].rhs) == 0, "induction variable %s is not initialised to 0" % iv)
    lenp = us.params[1]["name"]
    # exits other than iterator exhaustion
    exits = []
    for b in body:
        for (s, cond, br) in us.edges(b):
            if s not in body and cond is not None:
                exits.append((b, s, cond, br))
    counted = []

    def _iv_plus(e):
        """a for `iv + a`, None otherwise."""
        e = strip(e)
        if e["k"] == "var" and e["name"] == iv:
            return 0
        if e["k"] == "bin" and e["op"] == "+" and S(e["l"]) == iv and cval(e["r"]) is not None:
            return cval(e["r"])
        if e["k"] == "bin" and e["op"] == "+" and S(e["r"]) == iv and cval(e["l"]) is not None:
            return cval(e["l"])
        return None
    MIRROR = {"==": "==", "!=": "!=", "<": ">", ">": "<", "<=": ">=", ">=": "<="}
    NEGATE = {"==": "!=", "!=": "==", "<": ">=", ">=": "<", ">": "<=", "<=": ">"}
    for (b, s, cond, br) in exits:
        c = strip(cond)
        neg = False
        while c["k"] == "un" and c["op"] == "!":
            c = strip(c["e"])
            neg = not neg
        if c["k"] == "bin" and c["op"] in MIRROR and (S(c["r"]) == lenp or S(c["l"]) == lenp) and br in (True, False):
            # the loop is left when (iv + a) OP len holds: bring the comparison into that form whichever way round it is written and
            # whichever arm leaves the loop (`while (moved < len)` leaves on the false arm: moved >= len)
            if S(c["r"]) == lenp:
                a, op = _iv_plus(c["l"]), c["op"]
            else:
                a, op = _iv_plus(c["r"]), MIRROR[c["op"]]
            if (br is False) != neg:
                op = NEGATE[op]
            if a is None or op not in ("==", ">=", ">"):
                raise AnalysisBroken("m_mod_unstash: exit test '%s' is not of the modelled form idx + a REL len" % S(cond))
            if op == ">":
                a -= 1
            counted.append((b, a, S(cond)))
        elif S(c) in ("m_itr",) or c["k"] == "var" or (c["k"] == "bin" and c["op"] in ("!=", "==") and strip(c["l"])["k"] == "var"
                                                       and (strip(c["r"])["k"] == "null" or cval(c["r"]) == 0)) \
                or (c["k"] == "un" and c["op"] == "!" and strip(c["e"])["k"] == "var"):
            continue   # iterator exhaustion, however the NULL test is spelt
        elif any(a_ == S(mv.e) and p_ is True for (a_, p_) in lm.atoms(cond, br)):
            continue   # the move itself failed (allocation): outside the property's quantifier, see DESIGN §10.7
        else:
            raise AnalysisBroken("m_mod_unstash: loop exit '%s' not modelled (R-TRIPCOUNT handles counted exits on `%s`)" % (S(cond), lenp))
    if not counted:
        ck.ob("C16.2-TRIPCOUNT", us.site("moves==len"), False, "the move loop has no exit that depends on `%s`: everything is moved whatever len says" % lenp)
    # edges that contradict what the entry guards established (e.g. the false arm of a redundant `len > 0 &&` under
    # M_PARAM_ASSERT(len > 0)) are not paths: dominance is taken on the graph without them
    dead = set()
    INp, trp = rules.mustfacts(us, None, passed=True)
    for bb in us.blocks.values():
        fin = INp.get(bb.id)
        if fin is not None:
            for e_ in bb.events:
                fin = trp(fin, e_)
        for (s_, cond_, br_) in us.edges(bb.id):
            if cond_ is None or br_ not in (True, False):
                continue
            for (a_, p_) in lm.atoms(cond_, br_):
                if fin is not None and (a_, not p_) in fin:
                    dead.add((bb.id, s_))

    def _dominates(b_, target):
        seen, st = set(), [us.entry]
        while st:
            x = st.pop()
            if x in seen or x == b_:
                continue
            seen.add(x)
            if x == target:
                return False
            st.extend(s2 for s2 in us.blocks[x].succs if s2 is not None and (x, s2) not in dead)
        return True
    for (b, a, cs) in counted:
        before = _dominates(b, mv.block.id)          # test executes before the move of the same iteration
        after = _dominates(mv.block.id, b)
        ck.need(before != after, "cannot order exit test and move")
        # exit when idx + a == len  => idx = len - a ; moves completed = idx (test before move) or idx + 1 (after)
        moved = "len%+d" % (-a + (0 if before else 1))
        ok = (-a + (0 if before else 1)) == 0
        ck.ob("C16.2-TRIPCOUNT", us.site("moves==len"), ok,
              "exit test '%s' runs %s the move: %s events have been moved when it fires (%s)" %
              (cs, "before" if before else "after", moved.replace("+0", "").replace("-0", ""), "= len" if ok else "≠ len: unstash(n) hands back the wrong number"))
        # the iterator is released on the early exit
        exit_blocks = [s for (bb, s, c, br) in exits if bb == b]
        dom_ = us.dominators()
        fr = any(is_free_call(e) and any(sb == e.block.id or sb in dom_[e.block.id] for sb in exit_blocks) for e in us.events())
        ck.ob("C16.2-TRIPCOUNT", us.site("iterator freed on break"), fr, "early exit releases the iterator: %s" % fr, nontrivial=False)
    # an empty (or short) stash is an answer, not an error: the call reports how many events it moved, 0 included
    refusals = [g for g in rules.bailouts(us) if any(re.search(r"->stashed\b", a_) for (a_, _p) in g.cont_atoms) and isinstance(g.retval, int) and g.retval < 0]
    ck.ob("C16.2-TRIPCOUNT", us.site("an empty stash is not an error"), not refusals,
          "no refusal of m_mod_unstash depends on what the stash holds" if not refusals else
          "m_mod_unstash returns %d unless %s: with fewer stashed events than that the call fails instead of reporting the number moved (0 for an "
          "empty stash)" % (refusals[0].retval, sorted(refusals[0].cont_atoms)))
    itn = [e for e in us.events() if e.kind == "decl" and e.rhs is not None and strip(e.rhs).get("callee") == "m_queue_itr_new"]
    ck.ob("C16.2-TRIPCOUNT", us.site("oldest first"), bool(itn) and S(strip(itn[0].rhs)["args"][0]) == "mod->stashed" and us.ev_dominates(itn[0], mv),
          "iteration starts at the head of mod->stashed", nontrivial=False)
    rms = [e for b in body for e in us.blocks[b].events if e.kind == "call" and e.callee == "m_queue_itr_remove"]
    okr = strip(mv.args[1]).get("callee") == "m_mem_ref" and bool(rms) and all(us.ev_dominates(mv, r) for r in rms)
    ck.ob("C16.2-TRIPCOUNT", us.site("ref before rm"), okr, "each moved event is re-referenced (%s) before its stash entry is destroyed" % S(mv.args[1]))
    cb = [e for e in us.calls("call_pubsub_cb")]
    rets = [e for e in us.events() if e.kind == "ret" and cval(e.e) is None]
    okv = len(cb) == 1 and bool(rets)
    if okv:
        rv = S(rets[-1].e)
        d = [e for e in us.events() if e.kind == "decl" and e.e.get("name") == rv]
        okv = len(d) == 1 and S(d[0].rhs) == "m_queue_len(%s)" % qvar and us.ev_dominates(d[0], cb[0])
    ck.ob("C16.2-TRIPCOUNT", us.site("return==moved"), okv, "returned value is m_queue_len(%s) read before the handler runs: %s" % (qvar, okv))

    # ------------------------------------------------------------------ 3. one invocation
    ck.rule("C16.3-ONE-INVOCATION", "R-MUST-PASS: call_pubsub_cb(mod, <moved queue>) exactly once, after the loop", floor=1)
    ok = len(cb) == 1 and cb[0].block.id not in us.in_loop_blocks() and S(cb[0].args[1]) == qvar and S(cb[0].args[0]) == "mod" \
        and all(b in us.dominators()[cb[0].block.id] for b in [head])
    ck.ob("C16.3-ONE-INVOCATION", us.site("deliver once"), ok, "one delivery after the loop with the moved queue: %s" % ok)

    # ------------------------------------------------------------------ 4. discarded on stop
    ck.rule("C16.4-STOP-DISCARDS", "R-RESET-ALL: stop(mod, stopping) always runs reset_module, which clears mod->stashed", floor=3)
    reset_obligations(ck, P, X, "C16.4-STOP-DISCARDS", containers=[("stashed", "m_queue_clear")])

    ck.not_decided += ["'original content' of redelivered events (events are shared objects; nothing copies them)",
                       "interleavings of stash/unstash with new deliveries"]
