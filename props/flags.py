"""R-FLAG-BITS: the enumerators of a flag enum are single, pairwise distinct bits (tested with `&` all over the library, a combined or
repeated value makes one flag imply another)."""


def flag_bits(ck, P, rule, enum_name, site_unit="Lib", extra_disjoint=None):
    names = P.enum_groups.get(enum_name)
    ck.need(names, "flag enum %s vanished" % enum_name)
    vals = [(n, P.enums[n]) for n in names]
    notbit = [(n, v) for (n, v) in vals if v <= 0 or v & (v - 1)]
    seen, dup = {}, []
    for n, v in vals:
        for m, w in seen.items():
            if v & w:
                dup.append((m, n))
        seen[n] = v
    ok = not notbit and not dup
    ck.ob(rule, "%s:%s bits" % (site_unit, enum_name), ok,
          "%d flags of %s are single, pairwise distinct bits" % (len(vals), enum_name) if ok else
          "flags of %s overlap: %s %s — code testing one flag with `&` now also matches the other (e.g. a map created with one of them behaves as if "
          "created with both)" % (enum_name, ["%s=%#x" % x for x in notbit], ["%s&%s" % x for x in dup]))
    for (label, value) in (extra_disjoint or []):
        allv = 0
        for _n, v in vals:
            allv |= v
        okd = value is not None and value > 0 and not (value & allv)
        ck.ob(rule, "%s:%s vs %s" % (site_unit, enum_name, label), okd,
              "the private bit %s = %#x is disjoint from every public flag of %s (%#x)" % (label, value or 0, enum_name, allv) if okd else
              "the private bit %s = %s collides with the public flags of %s (%#x): a user passing that public flag marks the source as library-internal "
              "(events swallowed, not counted, other key space) and the library's own sources carry a public meaning" % (label, hex(value) if value else value, enum_name, allv))
