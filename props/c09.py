"""C09 — per-module source registry as keyed set (DESIGN §4 C09, A.6)."""
import re
import lm
import rules
from lm import S, strip, cval, walk
from props.common import Ctx, has, fmt_facts, guard_retvals, expand_assumes
from props.cmp import narrowing_findings
from units import AnalysisBroken

LEVEL = "other"
SRC = "Lib/core/src.c"


def base_type(t):
    t = t.replace("const ", "").replace("struct ", "").strip()
    while t.endswith("*"):
        t = t[:-1].strip()
    return t


def offset0_types(P, tname, seen=None):
    """All types found at offset 0 of a record (the record itself, first members, every union alternative)."""
    seen = seen if seen is not None else set()
    tname = base_type(tname)
    if tname in seen:
        return seen
    seen.add(tname)
    r = P.records.get(tname) or P.records.get("_" + tname.replace("_t", "")) or None
    if r is None:
        # typedef'd anonymous or tagged struct under another name
        for rec in P.records.values():
            if rec["name"] == tname:
                r = rec
                break
    if r is None:
        return seen
    for f in r["fields"]:
        if f["off"] == 0:
            ft = base_type(f["t"])
            if f["rec"]:
                offset0_types(P, f["rec"], seen)
                seen.add(ft)
            else:
                seen.add(ft)
    return seen


def comparator_key_type(f):
    """Pointee type the comparator casts its first parameter to (first explicit cast / typed initialisation)."""
    p0 = f.params[0]["name"]
    for ev in f.events():
        e = ev.rhs if ev.kind in ("decl", "assign") else None
        if e is None:
            continue
        for n in walk(e):
            if n.get("k") == "cast" and strip(n["e"]).get("k") == "var" and strip(n["e"]).get("name") == p0:
                return base_type(n["t"])
        # implicit conversion void* -> T* in an initialisation
        if ev.kind == "decl" and strip(e).get("k") == "var" and strip(e).get("name") == p0:
            return base_type(ev.e.get("t", ""))
    return None


def uncast_type(e):
    """Static type of an argument before its decay/cast to void*."""
    while e is not None and e.get("k") in ("cast", "icast"):
        e = e["e"]
    return e.get("t", "") if e else ""


def run(ck, P):
    X = Ctx(P)
    cg = X.cg
    E = P.enums
    TYPES = ["M_SRC_TYPE_PS", "M_SRC_TYPE_FD", "M_SRC_TYPE_TMR", "M_SRC_TYPE_SGN", "M_SRC_TYPE_PATH", "M_SRC_TYPE_PID", "M_SRC_TYPE_TASK", "M_SRC_TYPE_THRESH"]
    for t in TYPES + ["M_SRC_TYPE_END"]:
        ck.need(t in E, "%s vanished" % t)
    tname = {E[t]: t for t in TYPES}
    cmap = [g for g in P.globals if g["name"] == "src_cmp_map" and g.get("init")]
    ck.need(cmap, "src_cmp_map vanished")
    cmps = [S(x) for x in strip(cmap[0]["init"])["elems"]]
    ck.need(len(cmps) == E["M_SRC_TYPE_END"], "src_cmp_map has %d entries" % len(cmps))
    init_src = P.fn("init_src", SRC)
    ck.analysed(init_src)
    wired = [e for e in init_src.calls("m_bst_new") if S(e.args[0]) == "src_cmp_map[t]"]
    ck.need(wired, "init_src no longer binds src_cmp_map[t] to mod->srcs[t]")

    # ------------------------------------------------------------------ 1. comparator key type vs. call sites
    ck.rule("C09.1-CMP-KEYTYPE", "R-CMP-KEYTYPE: for every ordered set mod->srcs[T], the static type of the key handed to m_bst_insert/remove/find "
            "(before decay to void*, followed through one level of parameter passing) is the type the comparator bound for T casts its first "
            "parameter to, or has that type at offset 0 (record layouts, through first members and union alternatives)", floor=15)
    ktype = {}
    for name in sorted(set(cmps)):
        f = P.fn(name, SRC)
        ck.analysed(f)
        kt = comparator_key_type(f)
        ck.need(kt is not None, "cannot determine the key type comparator %s expects" % name)
        ktype[name] = kt
    # the comparator bound for T reads the alternative of the source union that the key builders fill for T (every comparator now takes
    # an ev_src_t, so the static key type no longer tells two table rows apart)
    srec = P.record("ev_src_t")
    ALTS = {x["name"] for x in srec["fields"] if x.get("t", "").endswith("_src_t") and x.get("off") == 0}
    ck.need(len(ALTS) >= 7, "ev_src_t no longer overlays the per-kind sources")

    def alts_in(evs):
        return {n["field"] for ev in evs for n in lm.walk(ev.e) if isinstance(n, dict) and n.get("k") == "member" and n.get("field") in ALTS}
    builders = [b for b in (P.fn("deregister_mod_src", SRC, required=False), P.fn("create_src", SRC, required=False))
                if b is not None and any(p_["name"] == "type" for p_ in b.params)]
    ck.need(builders, "no key builder switching on the source type found (deregister_mod_src / create_src)")
    for tv in sorted(tname):
        filled = set()
        for b in builders:
            ck.analysed(b)
            for path in b.paths(prune=False):
                feas, _env, _a, evs = rules.simulate(b, path, preset={"type": tv})
                if feas:
                    filled |= alts_in(evs)
        cf = P.fn(cmps[tv], SRC)
        reads = alts_in(cf.events())
        ck.ob("C09.1-CMP-KEYTYPE", "%s:src_cmp_map[%s]=%s reads the alternative filled for that kind" % (SRC, tname[tv][11:], cmps[tv]),
              bool(reads) and bool(filled) and reads <= filled,
              "%s compares %s; keys of kind %s are built in %s" % (cmps[tv], sorted(reads), tname[tv], sorted(filled))
              + ("" if reads <= filled else ": the set of that kind is ordered by bytes its keys never set (another kind's comparator sits in this row of "
                 "src_cmp_map) — registered sources are not found again, distinct ones collide"))
    sites = []   # (event, [(T, key_type_string, origin)])
    for ev in P.calls_to({"m_bst_insert", "m_bst_remove", "m_bst_find"}):
        a0 = strip(ev.args[0])
        if not (a0["k"] == "index" and S(a0["base"]).endswith("->srcs")):
            continue
        f = ev.fn
        ck.analysed(f)
        ck.call_sites += 1
        idx = strip(a0["idx"])
        key = ev.args[1]
        ks = strip(key)
        pairs = []
        if cval(idx) is not None:
            pairs.append((cval(idx), uncast_type(key), f.name))
        elif idx["k"] == "var" and idx.get("vk") == "param":
            # constant TYPE and typed key come from the callers
            pi = [i for i, p in enumerate(f.params) if p["name"] == idx["name"]][0]
            ki = None
            if ks["k"] == "var" and ks.get("vk") == "param":
                ki = [i for i, p in enumerate(f.params) if p["name"] == ks["name"]][0]
            callers = list(P.calls_to(f.name))
            ck.need(callers, "%s has no callers" % f.name)
            for cev in callers:
                tv = cval(cev.args[pi])
                ck.need(tv is not None, "%s called with a non-constant source type at %s" % (f.name, cev.where()))
                kt = uncast_type(cev.args[ki]) if ki is not None else uncast_type(key)
                pairs.append((tv, kt, cev.fn.name))
        else:
            # p->type in the receive loop: every type the guards leave open
            facts = X.facts(f, ev)
            for tv in range(E["M_SRC_TYPE_END"]):
                if has(facts, "(%s == %d)" % (S(idx), tv), False) or (tv == 0 and has(facts, S(idx), True)):
                    continue
                pairs.append((tv, uncast_type(key), f.name))
        sites.append((ev, pairs))
    ck.need(len(sites) >= 3, "insert/remove call sites on mod->srcs[] vanished")
    for ev, pairs in sites:
        for (tv, kt, origin) in pairs:
            cmpname = cmps[tv]
            want = ktype[cmpname]
            have = offset0_types(P, kt)
            ok = want in have
            ck.ob("C09.1-CMP-KEYTYPE", "%s:%s:%s(srcs[%s]) key from %s" % (ev.fn.unit, ev.fn.name, ev.callee, tname[tv][11:], origin), ok,
                  "%s reads its key as '%s'; the key passed is '%s' (%s at offset 0)" %
                  (cmpname, want, kt, "has it" if ok else "which has no %s: the comparator reads foreign bytes — duplicates accepted, removal by key fails" % want))

    # ------------------------------------------------------------------ 2. comparators do not narrow
    ck.rule("C09.2-CMP-NARROW", "R-CMP-NARROW: no source comparator returns the implicit narrowing of a subtraction of 64-bit, floating, unsigned "
            "or unbounded int operands; int differences are accepted only for keys the public API keeps in [0, INT_MAX] (fd >= 0, pid > 0)", floor=7)
    bounded = []
    rf = P.fn("m_mod_src_register_fd", SRC)
    df = P.fn("m_mod_src_deregister_fd", SRC)
    if all(any(("(fd < 0)", False) in g.cont_atoms and g.retval == -22 for g in rules.bailouts(f)) for f in (rf, df)):
        bounded.append("fd")
    rp = P.fn("m_mod_src_register_pid", SRC)
    dp = P.fn("m_mod_src_deregister_pid", SRC)
    if all(any(("(pid->pid > 0)", True) in g.cont_atoms and g.retval == -22 for g in rules.bailouts(f)) for f in (rp, dp)):
        bounded.append("pid")
    for name in sorted(set(cmps)):
        f = P.fn(name, SRC)
        fnd = narrowing_findings(f, bounded)
        ck.ob("C09.2-CMP-NARROW", f.site("return"), not fnd, "%s: %s" % (name, fnd[0][1] if fnd else "no narrowing subtraction (bounded keys: %s)" % bounded))
        # key fields are compared in their own type: a floating key (a threshold's frequency) truncated to an integer makes distinct keys equal
        f2i = [(S(x_.get("e") or {}), ev_.line) for ev_ in f.events() for y_ in (ev_.e, ev_.rhs if ev_.kind in ("decl", "assign") else None) if y_ is not None
               for x_ in lm.walk(y_) if isinstance(x_, dict) and x_.get("k") in ("icast", "cast") and x_.get("ck") == "FloatingToIntegral"
               and "_src." in S(x_.get("e") or {})]
        if f2i:
            ck.ob("C09.2-CMP-NARROW", f.site("floating key compared as such"), False,
                  "%s converts the floating key field '%s' to an integer before comparing (line %d): keys that differ only in the fraction compare equal — "
                  "a new key is refused with -EEXIST, deregistering one removes the other" % (name, f2i[0][0], f2i[0][1]))

    # ------------------------------------------------------------------ 3. duplicate => EEXIST, nothing left behind
    ck.rule("C09.3-DUPLICATE", "R-GUARD/R-OWN: in register_mod_src a refused insertion releases the freshly created source and is returned "
            "unchanged; m_bst_insert itself returns -EEXIST for an equal key (C11.4); parameter validation of the public register calls "
            "precedes register_mod_src", floor=8)
    rm = P.fn("register_mod_src", SRC)
    ck.analysed(rm)
    ins = [e for e in rm.events() if e.kind == "decl" and e.rhs is not None and strip(e.rhs).get("callee") == "m_bst_insert"]
    ck.need(len(ins) == 1, "register_mod_src insertion changed shape")
    rv = ins[0].e["name"]
    srcv = S(strip(ins[0].rhs)["args"][1])
    bad = None
    n = 0
    for path in rm.paths():
        evs = list(rules.path_events(rm, path))
        if ins[0] not in evs:
            continue
        a = rules.path_assumes(path)
        if a.get(rv) is True or a.get("(%s == 0)" % rv) is False:
            n += 1
            unr = [e for e in evs if e.kind == "call" and e.callee in ("m_mem_unref", "m_mem_unrefp") and S(e.args[0]).lstrip("&") == srcv]
            rets = [S(e.e) for e in evs if e.kind == "ret"]
            poll = [e for e in evs if e.kind == "call" and e.callee in ("poll_set_new_evt", "start_task")]
            if len(unr) != 1 or rets != [rv] or poll:
                bad = ("refused insertion: %d release(s) of the new source, returns %s" % (len(unr), rets), path)
    ck.ob("C09.3-DUPLICATE", rm.site("refused insert releases source"), bad is None and n > 0, "%d refusing path(s) release the new source and return the insert result" % n
          if bad is None else bad[0], path=rules.fmt_path(rm, bad[1]) if bad else None,
          witness=[("del_event", rm.unit, rm.name, e.block.id, e.idx) for e in rm.calls({"m_mem_unref", "m_mem_unrefp"}) if S(e.args[0]).lstrip("&") == srcv])
    bad = None
    for path in rm.paths():
        evs = list(rules.path_events(rm, path))
        if ins[0] not in evs:
            continue
        a = rules.path_assumes_after(path, ins[0])
        if a.get(rv) is False or a.get("(%s == 0)" % rv) is True:
            after = evs[evs.index(ins[0]):]
            unr = [e for e in after if e.kind == "call" and e.callee in ("m_mem_unref", "m_mem_unrefp") and S(e.args[0]).lstrip("&") == srcv]
            rmv = [e for e in after if e.kind == "call" and e.callee == "m_bst_remove"]
            if unr and not rmv:
                bad = path
    ck.ob("C09.3-DUPLICATE", rm.site("accepted source stays owned by the set"), bad is None,
          "once inserted, the source is never released by register_mod_src without being removed from the set" if bad is None else
          "after a successful insertion the source is released (m_mem_unref) while the set still holds it: dangling element, use after free on the next lookup/count",
          path=rules.fmt_path(rm, bad) if bad else None)
    for name in ("m_mod_src_register_fd", "m_mod_src_register_tmr", "m_mod_src_register_sgn", "m_mod_src_register_path", "m_mod_src_register_pid",
                 "m_mod_src_register_task", "m_mod_src_register_thresh"):
        f = P.fn(name, SRC)
        ck.analysed(f)
        gs = [g for g in rules.bailouts(f) if g.retval == -22]
        regs = list(f.calls("register_mod_src"))
        dom = f.dominators()
        ok = bool(gs) and len(regs) == 1 and all(g.block in dom[regs[0].block.id] for g in gs) and all(not g.effects_in_bail for g in gs)
        ck.ob("C09.3-DUPLICATE", f.site("validate first"), ok, "%d -EINVAL guard(s) dominate the registration" % len(gs))

    # ------------------------------------------------------------------ 4. counts
    ck.rule("C09.4-COUNTS", "R-PARAM-DEAD + R-GUARD: m_mod_src_len uses its `type` argument to select what it counts (the parameter influences "
            "the result beyond its range validation) and never counts M_SRC_INTERNAL entries", floor=2)
    sl = P.fn("m_mod_src_len", SRC)
    ck.analysed(sl)
    tp = sl.params[1]["name"]
    guard_blocks = {g.block for g in rules.bailouts(sl)}
    uses = []
    for b in sl.blocks.values():
        if b.id not in sl.reachable():
            continue
        if b.term and b.term.get("cond") is not None and b.id not in guard_blocks:
            if any(n.get("k") == "var" and n.get("name") == tp for n in walk(b.term["cond"])):
                uses.append("condition at line %d" % b.term["line"])
        for ev in b.events:
            e = ev.e if ev.kind != "decl" else ev.rhs
            if e is not None and any(n.get("k") == "var" and n.get("name") == tp for n in walk(e)):
                uses.append("%s at line %d" % (ev.kind, ev.line))
    # uses inside the validation guard's own condition blocks do not count: those blocks are in guard_blocks or feed them
    val_lines = {sl.blocks[g].term["line"] for g in guard_blocks}
    uses = [u for u in uses if int(u.rsplit(" ", 1)[1]) not in val_lines]
    ck.ob("C09.4-COUNTS", sl.site("type selects"), bool(uses), "`%s` is %s" % (tp, "used by: %s" % uses[:4] if uses else
                                                                              "range-validated and then ignored: every call returns the total over all kinds"))
    # every counting site must be selected by the type argument (or a local derived from it) on every path that reaches it
    derived = {tp}
    for d in sl.events():
        if d.kind in ("decl", "assign") and d.rhs is not None and d.lhs is not None and strip(d.lhs)["k"] == "var" \
                and any(n.get("k") == "var" and n.get("name") in derived for n in walk(d.rhs)):
            derived.add(S(d.lhs))
    cnt = [e for e in sl.events() if (e.kind == "incdec" and e.e["op"] == "++" and S(e.lhs) == "len") or (e.kind == "assign" and S(e.lhs) == "len" and e.e["op"] == "+=")]
    unsel = None
    cd = sl.control_deps()
    for e in cnt:
        ctrl = cd.get(e.block.id, set())
        sel = [bb for bb in ctrl if bb not in guard_blocks and sl.blocks[bb].term and sl.blocks[bb].term.get("cond") is not None and
               any(n.get("k") == "var" and n.get("name") in derived for n in walk(sl.blocks[bb].term["cond"]))]
        if not sel:
            unsel = (e, None)
    ck.ob("C09.4-COUNTS", sl.site("every count selected by type"), unsel is None and bool(cnt),
          "%d counting site(s), each control dependent on a test of `%s`" % (len(cnt), tp) if unsel is None else
          "count at line %d is not control dependent on any test involving `%s`: that kind is counted whatever type was asked" % (unsel[0].line, tp),
          path=None)
    incs = [e for e in sl.events() if e.kind == "incdec" and e.e["op"] == "++" and S(e.lhs) == "len"] + \
           [e for e in sl.events() if e.kind == "assign" and S(e.lhs) == "len" and e.e["op"] == "+="]
    def _adds_not_internal(e):
        # `len += !(src->flags & M_SRC_INTERNAL)`: the amount added is 1 exactly for the sources that are not internal
        if e.kind != "assign" or e.rhs is None:
            return False
        r = strip(e.rhs)
        return r["k"] == "un" and r["op"] == "!" and S(strip(r["e"])).endswith("->flags & 128)")
    oki = bool(incs) and all(_adds_not_internal(e) or any(a.endswith("->flags & 128)") and p is False for (a, p) in X.facts(sl, e)) for e in incs)
    ck.ob("C09.4-COUNTS", sl.site("internal skipped"), oki, "%d counting site(s), each under !(src->flags & M_SRC_INTERNAL): %s" % (len(incs), oki))

    # ------------------------------------------------------------------ 5. dropped on stop, kept on pause
    ck.rule("C09.5-STOP-DROPS", "constant propagation: manage_srcs removes sources from the registry only for (RM, stop=true); stop() forwards its "
            "`stopping` flag on every path (whatever the current state), start() passes (ADD, false); pause therefore keeps every source", floor=4)
    ms = P.fn("manage_srcs")
    ck.analysed(ms)
    ck.need("RM" in E and "ADD" in E, "op_type constants vanished")
    rms = [e for e in ms.calls("m_bst_itr_remove")]
    okr = bool(rms) and all(has(X.facts(ms, e), "(flag == %d)" % E["RM"]) and has(X.facts(ms, e), "stop") for e in rms)
    ck.ob("C09.5-STOP-DROPS", ms.site("remove only on stop"), okr, "registry removal under (flag == RM && stop): %s" % okr,
          witness=[("del_event", ms.unit, ms.name, e.block.id, e.idx) for e in rms])
    loops = [b for b in ms.blocks.values() if b.term and b.term.get("cond") is not None and "M_SRC_TYPE_END" in S(b.term["cond"]) or
             (b.term and b.term.get("cond") is not None and S(b.term["cond"]) == "(i < %d)" % E["M_SRC_TYPE_END"])]
    ck.ob("C09.5-STOP-DROPS", ms.site("all kinds"), bool(loops), "manage_srcs iterates over all %d source kinds" % E["M_SRC_TYPE_END"], nontrivial=False)
    # no way round the loop: every return of manage_srcs is reached through the loop over the source kinds (an early return for some
    # module state would leave that module's sources registered after stop)
    okdom = bool(loops)
    early = None
    if loops:
        hdrs = {b.id for b in loops}          # (the loop over the kinds may be written once per operation)
        dom_ = ms.dominators()
        for e in ms.events():
            if e.kind == "ret" and not (hdrs & set(dom_[e.block.id])):
                okdom = False
                early = e
    ck.ob("C09.5-STOP-DROPS", ms.site("no return round the loop"), okdom,
          "every return of manage_srcs is dominated by the loop over the source kinds" if okdom else
          "manage_srcs can return at line %s without iterating over the sources (under %s): stopping a module in that state drops none of its sources"
          % (early.line if early else "?", fmt_facts(X.facts(ms, early)) if early else ""))
    for ev in P.calls_to("manage_srcs"):
        f = ev.fn
        fl, st = cval(ev.args[2]), S(ev.args[3])
        ok = (f.name == "stop" and fl == E["RM"] and st == f.params[1]["name"]) or (f.name == "start" and fl == E["ADD"] and cval(ev.args[3]) == 0)
        ck.ob("C09.5-STOP-DROPS", f.site("manage_srcs(%s,%s)" % (fl, st)), ok, "%s calls manage_srcs(flag=%s, stop=%s)" % (f.name, fl, st))

    spf = P.fn("stop", "Lib/core/mod.c")
    ck.analysed(spf)
    mcs = [e for e in spf.calls("manage_srcs")]
    stores = [e for e in P.writes_to_field("_mod", "state") if e.fn is spf]

    def step_ms(st, ev):
        return st | {"managed"} if ev in mcs else st
    INms = rules.tag_analysis(spf, step_ms, must=True)
    okall = bool(mcs) and bool(stores)
    for w in stores:
        stt = spf.state_before(INms, w, step_ms)
        okall = okall and stt is not None and "managed" in stt
    ck.ob("C09.5-STOP-DROPS", spf.site("manage_srcs on every path"), okall,
          "every path of stop() to the state store passes manage_srcs(…, RM, stopping), whatever the module's current state" if okall else
          "stop() can store the new state without having passed manage_srcs(RM): a module stopped from that state (e.g. PAUSED) keeps all its sources",
          witness=[("del_event", spf.unit, spf.name, e.block.id, e.idx) for e in mcs])

    # ------------------------------------------------------------------ 6. tasks cannot be deregistered
    ck.rule("C09.6-TASK-EPERM", "m_mod_src_deregister_task returns a negative code on every path and never touches the registry", floor=1)
    dt = P.fn("m_mod_src_deregister_task", SRC)
    ck.analysed(dt)
    rv6 = rules.returned_values(P, dt)
    touch = [e for e in dt.calls() if e.callee and (e.callee.startswith("m_bst") or e.callee in ("deregister_mod_src", "register_mod_src"))]
    ck.ob("C09.6-TASK-EPERM", dt.site("always refuses"), all(isinstance(v, int) and v < 0 for v in rv6) and -1 in rv6 and not touch, "returns %s" % sorted(rv6, key=str))

    # ------------------------------------------------------------------ 7. subscriptions
    ck.rule("C09.7-SUBSCRIPTIONS", "a repeated subscription with identical flags only updates the user pointer (no allocation, returns 0); otherwise "
            "the new subscription replaces the old one in a map created with M_MAP_VAL_ALLOW_UPDATE (whose destructor releases the old one)", floor=2)
    sb = P.fn("m_mod_ps_subscribe", "Lib/core/ps.c")
    ck.analysed(sb)
    bad = None
    n = 0
    for path in sb.paths():
        a = rules.path_assumes(path)
        if a.get("old_sub") is True and a.get("(old_sub->flags == flags)") is True:
            n += 1
            evs = list(rules.path_events(sb, path))
            allocs = [e for e in evs if e.kind == "call" and e.callee in ("m_mem_new", "m_map_put")]
            rets = [cval(e.e) for e in evs if e.kind == "ret"]
            upd = [e for e in evs if e.kind == "assign" and S(e.lhs) == "old_sub->userptr" and S(e.rhs) == sb.params[3]["name"]]
            if allocs or rets != [0] or len(upd) != 1:
                bad = ("same-topic/same-flags path: allocations %s, returns %s" % ([e.callee for e in allocs], rets), path)
    ck.ob("C09.7-SUBSCRIPTIONS", sb.site("update in place"), bad is None and n > 0, "%d path(s) update the user pointer in place" % n if bad is None else bad[0],
          path=rules.fmt_path(sb, bad[1]) if bad else None)
    # the compiled regex is released on the in-place path, and a replaced subscription is removed (with its key) before the new one goes in
    bad2 = None
    n2 = 0
    puts = [e for e in sb.calls("m_map_put")]
    for path in sb.paths():
        a = rules.path_assumes(path)
        evs = list(rules.path_events(sb, path))
        if a.get("old_sub") is True and a.get("(old_sub->flags == flags)") is True:
            if not any(e.kind == "call" and e.callee == "regfree" and S(e.args[0]) == "&regex" for e in evs):
                bad2 = ("in-place update returns without regfree(&regex): the freshly compiled expression leaks", path)
        if a.get("old_sub") is True and a.get("(old_sub->flags == flags)") is False and any(e in puts for e in evs):
            n2 += 1
            rm_ = [e for e in evs if e.kind == "call" and e.callee == "m_map_remove" and "subscriptions" in S(e.args[0])]
            if not rm_ or evs.index(rm_[0]) > min(evs.index(e) for e in puts if e in evs):
                bad2 = ("replacing a subscription (flags changed) keeps the old map entry: its key is the old subscription's own topic, freed with it when "
                        "it was duplicated (M_SRC_DUP) — later lookups compare against freed memory", path)
    ck.ob("C09.7-SUBSCRIPTIONS", sb.site("replace removes old entry; regex released"), bad2 is None and n2 > 0,
          "%d replacing path(s) remove the old entry first; the in-place path releases the compiled regex" % n2 if bad2 is None else bad2[0],
          path=rules.fmt_path(sb, bad2[1]) if bad2 else None)
    exs = rules.Expander(sb, stable=False)
    keys = [exs.at(e, e.args[1]) for e in puts if "subscriptions" in S(e.args[0])]
    vals = [S(e.args[2]) for e in puts if "subscriptions" in S(e.args[0])]
    okk = bool(keys) and all(k in ("%s->ps_src.topic" % v, "&%s->ps_src->topic" % v) or k.endswith("ps_src.topic") or k.endswith("ps_src->topic") for k, v in zip(keys, vals))
    ck.ob("C09.7-SUBSCRIPTIONS", sb.site("map key owned by the subscription"), okk,
          "the subscriptions map is keyed by the subscription's own topic (%s), which lives exactly as long as the entry" % keys if okk else
          "the subscriptions map is keyed by %s, not by the subscription's own (possibly duplicated) topic: the key is caller memory that may be freed or reused" % keys)
    mk = [e for e in sb.events() if e.kind == "assign" and S(e.lhs) == "mod->subscriptions" and strip(e.rhs).get("callee") == "m_map_new"]
    okm = bool(mk) and all((cval(strip(e.rhs)["args"][0]) or 0) & E["M_MAP_VAL_ALLOW_UPDATE"] and S(strip(e.rhs)["args"][1]) == "mem_dtor" for e in mk)
    ck.ob("C09.7-SUBSCRIPTIONS", sb.site("map allows update"), okm, "subscriptions map = %s" % [S(e.rhs) for e in mk])

    # ------------------------------------------------------------------ 9. what the user asked for is what gets registered
    ck.rule("C09.9-PASS-THROUGH", "R-PASS-THROUGH: every public m_mod_src_register_* hands its key and its flags argument to register_mod_src "
            "unchanged (flags may be OR-ed with constants; an AND mask must keep every public m_src_flags bit): what is registered, "
            "duplicated and later looked up is what the caller passed", floor=6)
    PUB = 0
    for k_, v_ in E.items():
        if k_.startswith("M_SRC_") and not k_.startswith("M_SRC_TYPE_") and isinstance(v_, int) and k_ not in ("M_SRC_INTERNAL",):
            PUB |= v_
    for f in P.funcs:
        if f.unit != SRC or not re.match(r"m_mod_src_register_\w+$", f.name):
            continue
        ck.analysed(f)
        inner = [c for c in f.calls("register_mod_src")]
        pn = [p_["name"] for p_ in f.params]
        fname_ = [n_ for n_, p_ in zip(pn, f.params) if p_["t"].replace("const ", "") == "m_src_flags"]
        okp = len(inner) == 1 and bool(fname_)
        det = "no single call of register_mod_src"
        if okp:
            fe = strip(inner[0].args[3])
            fs = S(fe)
            fl_ok = fs == fname_[0]
            if not fl_ok and fe["k"] == "bin" and fe["op"] in ("|", "&"):
                l_, r_ = S(fe["l"]), cval(fe["r"])
                if l_ == fname_[0] and r_ is not None:
                    fl_ok = fe["op"] == "|" or (r_ & PUB) == PUB
            up_ok = S(inner[0].args[4]) == pn[-1]
            okp = fl_ok and up_ok
            det = "flags handed on as '%s', userptr as '%s'" % (fs, S(inner[0].args[4]))
            if not fl_ok:
                det += ": user flags are altered before registration (public bits %#x must survive) — e.g. M_SRC_DUP is lost and the stored key aliases the caller's buffer" % PUB
        ck.ob("C09.9-PASS-THROUGH", f.site("flags/userptr unchanged"), okp, det)

    # register and deregister of one kind accept the same keys: their parameter checks on the key agree (a key that can go in can come out)
    for f in P.funcs:
        m_ = re.match(r"m_mod_src_register_(\w+)$", f.name)
        if not m_ or f.unit != SRC:
            continue
        g = P.fn("m_mod_src_deregister_" + m_.group(1), SRC, required=False)
        if g is None or len(g.params) < 2 or len(f.params) < 2 or g.name == "m_mod_src_deregister_task":
            continue

        def keyguards(fn):
            kn = fn.params[1]["name"]
            out = set()
            for gd in rules.bailouts(fn):
                for (a_, p_) in gd.cont_atoms:
                    if re.search(r"\b%s\b" % re.escape(kn), a_):
                        out.add((re.sub(r"\b%s\b" % re.escape(kn), "KEY", a_), p_))
            return out
        ka, kb = keyguards(f), keyguards(g)
        ck.ob("C09.9-PASS-THROUGH", g.site("accepts the keys %s accepts" % f.name), kb <= ka,
              "deregistration demands of the key no more (%s) than registration did (%s)" % (sorted(kb), sorted(ka)) if kb <= ka else
              "%s checks the key with %s, %s with %s: a key accepted by one is refused by the other (a registered source that can never be deregistered, or the "
              "reverse)" % (f.name, sorted(ka), g.name, sorted(kb)))

        # ... and deregistration looks only at what identifies the source: a key-only argument (the documented way to deregister) leaves
        # every other field of the descriptor unset
        inner = [c for c in g.calls("deregister_mod_src") if cval(c.args[1]) is not None]
        if inner and cval(inner[0].args[1]) < len(cmps):
            cf = P.fn(cmps[cval(inner[0].args[1])], SRC)
            keyf = {n["field"] for ev in cf.events() for x_ in (ev.e, ev.rhs if ev.kind in ("decl", "assign") else None) if x_ is not None
                    for n in lm.walk(x_) if isinstance(n, dict) and n.get("k") == "member"
                    and any(("%s." % a_) in S(n) or ("%s->" % a_) in S(n) for a_ in ALTS)}
            gkn = g.params[1]["name"]
            asked = {fld for gd in rules.bailouts(g) for (a_, _p) in gd.cont_atoms for fld in re.findall(r"\b%s->(\w+)" % re.escape(gkn), a_)}
            extra = asked - keyf
            ck.ob("C09.9-PASS-THROUGH", g.site("looks only at key fields"), not extra,
                  "%s tests %s of its argument; sources of this kind are identified by %s (%s)%s"
                  % (g.name, sorted(asked), sorted(keyf - ALTS), cf.name, "" if not extra else ": a deregistration by key alone — "
                     "a descriptor carrying just the identifying field(s) — is refused because of %s, which plays no part in finding the source" % sorted(extra)))

    # a source can be registered and deregistered in every state of a live module (registration on a stopped module is armed at the next
    # start): neither internal entry point refuses because of the module's state, ZOMBIE apart
    for fname_ in ("register_mod_src", "deregister_mod_src"):
        f = P.fn(fname_, SRC)
        ck.analysed(f)
        stg = []
        for g_ in rules.bailouts(f):
            if not (isinstance(g_.retval, int) and g_.retval < 0):
                continue
            for (a_, p_) in g_.cont_atoms:
                m_ = re.match(r"^m_mod_is\(\*?\w+, (\d+)\)$", a_)
                if (m_ and int(m_.group(1)) != X.ZOMBIE) or re.search(r"->state\b", a_):
                    stg.append((a_, p_, g_.retval, g_.line))
        ck.ob("C09.9-PASS-THROUGH", f.site("accepted in every state"), not stg,
              "%s refuses for ZOMBIE modules only, whatever else the module's state" % fname_ if not stg else
              "%s returns %d unless %s%s (line %d): a key that is present cannot be deregistered (or a source cannot be registered) while the module is in "
              "that state" % (fname_, stg[0][2], "" if stg[0][1] else "!", stg[0][0], stg[0][3]))

    # ------------------------------------------------------------------ 8. library-internal sources have a key space of their own
    keyspace_obligations(ck, P, X, "C09.8-INTERNAL-KEYSPACE", cmps, E)

    ck.not_decided += ["set behaviour over arbitrary key sequences given a correct comparator (C11)", "regcomp semantics"]


INTERNAL = 128      # M_SRC_INTERNAL (checked against the macro's expansion at the registration sites: constant flags & 128)


def internal_registrations(P):
    """[(event, T, key_string, userptr_string)] — registrations the library makes for itself (constant flags with M_SRC_INTERNAL)."""
    out = []
    for f in P.funcs:
        for ev in f.calls():
            if not ev.callee or not (ev.callee == "register_mod_src" or re.match(r"m_mod_src_register_\w+$", ev.callee)):
                continue
            if ev.callee == "register_mod_src":
                if len(ev.args) < 5:
                    continue
                T, key, fl, up = cval(ev.args[1]), ev.args[2], cval(ev.args[3]), ev.args[4]
            else:
                w = P.fn(ev.callee, SRC)
                inner = [c for c in w.calls("register_mod_src")]
                if not inner or len(ev.args) < 4:
                    continue
                T, key, fl, up = cval(inner[0].args[1]), ev.args[1], cval(ev.args[2]), ev.args[3]
            if fl is None or not (fl & INTERNAL) or T is None:
                continue
            out.append((ev, T, S(key), S(up)))
    return out


def keyspace_obligations(ck, P, X, rule, cmps, E):
    ck.rule(rule, "R-KEYSPACE: for every source kind in which the library registers sources for itself (constant M_SRC_INTERNAL), the kind's "
            "comparator never reports an internal and a user source as equal, nor two internal sources with different userptr; user "
            "deregistration builds a key without M_SRC_INTERNAL; the library removes its own source only through a key with "
            "M_SRC_INTERNAL and the userptr it registered it with; M_SRC_INTERNAL is a bit of its own, disjoint from the public m_src_flags", floor=6)
    # the private flag must be a bit of its own: take its value from the library's own registrations (constant flags minus the public
    # bits they legitimately carry) before anything is interpreted through it
    from props.flags import flag_bits
    cand = []
    for f_ in P.funcs:
        for ev_ in f_.calls():
            if ev_.callee and re.match(r"m_mod_src_register_tmr$", ev_.callee) and len(ev_.args) >= 4 and cval(ev_.args[2]) is not None \
                    and f_.name in ("m_mod_set_tokenbucket", "m_mod_set_batch_timeout"):
                cand.append(cval(ev_.args[2]) & ~E["M_SRC_PRIO_HIGH"])
    ck.need(cand and len(set(cand)) == 1, "the library's own timer registrations no longer carry one constant private flag: %s" % cand)
    flag_bits(ck, P, rule, "m_src_flags", SRC, extra_disjoint=[("M_SRC_INTERNAL", cand[0])])
    global INTERNAL
    INTERNAL = cand[0] if cand[0] and not (cand[0] & (cand[0] - 1)) else INTERNAL
    regs = internal_registrations(P)
    ck.need(len(regs) >= 2, "internal registrations (token bucket refill, batch timeout) vanished")
    kinds = sorted({T for (_e, T, _k, _u) in regs})
    DIFF = re.compile(r"^\(\((\w+)->flags & %d\) == \((\w+)->flags & %d\)\)$" % (INTERNAL, INTERNAL))
    for T in kinds:
        f = P.fn(cmps[T], SRC)
        ck.analysed(f)
        ups = sorted({u for (_e, t, _k, u) in regs if t == T})
        ex = rules.Expander(f, stable=True)
        bad = None
        n = 0
        for path in f.paths():
            a = expand_assumes(f, rules.path_assumes(path))
            rets = [e for e in rules.path_events(f, path) if e.kind == "ret" and e.e is not None]
            if not rets:
                continue
            n += 1
            r = ex.at(rets[-1], rets[-1].e)
            same = [k for k, v in a.items() if DIFF.match(k)]
            # (i) internal-ness: either the path established that both sides agree, or it returns the order of the two flags
            if not any(a[k] is True for k in same):
                if not (re.search(r"\w+->flags & %d\) [<>] \(\w+->flags & %d" % (INTERNAL, INTERNAL), r) and any(a[k] is False for k in same)):
                    bad = ("a path returns %s without having told an internal source from a user source" % r[:80], path)
                    break
                continue
            # (ii) two internal sources: told apart by userptr
            if len(ups) > 1:
                both_user = any(re.match(r"^\(\w+->flags & %d\)$" % INTERNAL, k) and v is False for k, v in a.items())
                up_eq = [k for k, v in a.items() if re.match(r"^\((\w+)->userptr == (\w+)->userptr\)$", k)]
                if both_user or any(a[k] is True for k in up_eq):
                    continue
                if any(a[k] is False for k in up_eq) and re.search(r"->userptr [<>] \w+->userptr", r):
                    continue
                bad = ("a path returns %s for two internal sources without comparing their userptr (%s are registered)" % (r[:80], ups), path)
                break
        ck.ob(rule, f.site("internal sources ordered apart"), bad is None and n > 0,
              "%s: all %d path(s) tell internal from user sources first%s" % (f.name, n, ", then internal sources by userptr" if len(ups) > 1 else "") if bad is None
              else bad[0] + ": a user source with the same key clashes with the library's own (registration refused with -EEXIST, user "
              "deregistration removes the internal source, the library's removal takes the user's)",
              path=rules.fmt_path(f, bad[1]) if bad else None)
    # user deregistration: the key is in the user key space
    dm = P.fn("deregister_mod_src", SRC)
    ck.analysed(dm)
    kst = [e for e in dm.events() if e.kind in ("assign", "incdec") and re.search(r"\bkey\.(flags|userptr)$", S(e.lhs))]
    kd = [e for e in dm.events() if e.kind == "decl" and e.e.get("name") == "key"]
    zero = bool(kd) and kd[0].rhs is not None and strip(kd[0].rhs)["k"] == "init" and not re.search(r"[^{}0, ]", S(kd[0].rhs))
    ck.ob(rule, dm.site("user key space"), not kst and zero, "the key-only source of a user deregistration is zero-initialised and its flags are never set" if not kst and zero
          else "deregister_mod_src builds a key with flags/userptr set (%s): a user can reach internal sources" % [S(e.e) for e in kst])
    # the library removes its own sources through an internal key with the registered userptr
    removers = {}
    for f in P.funcs:
        if f.unit != SRC:
            continue
        rm = [e for e in f.calls("m_bst_remove") if "->srcs[" in S(e.args[0]) and S(e.args[1]) == "&key"]
        fl = [e for e in f.events() if e.kind == "assign" and S(e.lhs) == "key.flags" and (cval(e.rhs) or 0) & INTERNAL]
        up = [e for e in f.events() if e.kind == "assign" and S(e.lhs) == "key.userptr" and strip(e.rhs)["k"] == "var" and strip(e.rhs).get("vk") == "param"]
        if rm and fl and up:
            pi = [i for i, p_ in enumerate(f.params) if p_["name"] == strip(up[0].rhs)["name"]]
            ki = [i for i, p_ in enumerate(f.params) if "m_src_" in p_["t"] or p_["name"] in ("its", "src_data")]
            if pi and ki and all(f.ev_dominates(x, rm[0]) for x in (fl[0], up[0])):
                removers[f.name] = (ki[0], pi[0])
                ck.analysed(f)
    for (ev, T, key, up) in regs:
        f = ev.fn
        ck.analysed(f)
        ck.call_sites += 1
        rms = [c for c in f.calls() if c.callee in removers or (c.callee and re.match(r"m_mod_src_deregister_\w+$", c.callee)) or c.callee == "deregister_mod_src"]
        rms = [c for c in rms if any(S(a) == key for a in c.args)]
        ok = bool(rms) and all(c.callee in removers and S(c.args[removers[c.callee][0]]) == key and S(c.args[removers[c.callee][1]]) == up for c in rms)
        ck.ob(rule, f.site("own source %s removed through an internal key" % key), ok,
              "%s registers %s internally with userptr %s and removes it through %s" % (f.name, key, up, sorted({c.callee for c in rms})) if ok else
              "%s registers %s internally (userptr %s) but removes it through %s: a key without M_SRC_INTERNAL / with another userptr never finds it "
              "(the old timer stays armed) or finds a user's source instead" % (f.name, key, up, [S(c.e)[:70] for c in rms] or "nothing"))
