"""C14 — thread confinement and independence of contexts (DESIGN §4 C14)."""
import lm
import rules
from lm import S, strip, cval, walk, Func
from props.common import Ctx, has, fmt_facts, guard_retvals, check_guarded_entry

LEVEL = "other"

GETTERS = {"m_mod_name", "m_mod_is", "m_mod_state", "m_mod_userdata"}          # documented as callable from anywhere
DELEGATES = {"register_mod_src", "deregister_mod_src", "mod_deregister"}      # carry M_MOD_ASSERT themselves
INIT_WRITERS = {"m_set_memhook"}                                               # documented: call before first use of the library


READ_ONLY_CALLEES = {"fputs", "puts", "printf", "fprintf", "vprintf", "vfprintf", "strlen", "strcmp", "strncmp", "strcasecmp", "strncasecmp", "memcmp",
                     "write", "fwrite", "getenv", "strstr", "strchr", "strrchr", "atoi", "strtol", "strtoul", "open", "fopen", "regcomp", "regexec"}
WRITES_ARG0 = {"snprintf", "vsnprintf", "sprintf", "vsprintf", "memcpy", "memset", "memmove", "strcpy", "strncpy", "strcat", "strncat", "fgets"}


def global_writes(P):
    """{(unit, func, name): [(event, how)]} for objects with static storage: direct stores and address-taken in a call."""
    out = {}
    for f in P.funcs:
        for ev in f.events():
            if ev.kind in ("assign", "incdec"):
                l = strip(ev.lhs)
                root = l
                while root is not None and root["k"] in ("member", "index"):
                    if root["k"] == "member" and root["arrow"]:
                        root = None
                        break
                    root = strip(root["base"])
                if root is not None and root["k"] == "var" and root.get("vk") in ("global", "slocal"):
                    out.setdefault(root["name"], []).append((ev, "store"))
            if ev.kind == "call":
                # an array with static storage handed (decayed, possibly with an offset) to a callee that may write through it
                for i_, a in enumerate(ev.args):
                    sa0 = strip(a)
                    cand = sa0
                    if sa0 is not None and sa0["k"] == "bin" and sa0["op"] in ("+", "-"):
                        cand = strip(sa0["l"])
                    if cand is not None and cand["k"] == "index":
                        continue
                    if cand is not None and cand["k"] == "var" and cand.get("vk") in ("global", "slocal") and "[" in (cand.get("ct") or cand.get("t") or "") \
                            and "const" not in (cand.get("ct") or cand.get("t") or ""):
                        cn = ev.callee or ""
                        if cn in READ_ONLY_CALLEES or (cn in WRITES_ARG0 and i_ != 0):
                            continue
                        out.setdefault(cand["name"], []).append((ev, "array handed to %s" % (cn or S(ev.e["fn"]))))
                for a in ev.args:
                    sa = strip(a)
                    if sa is not None and sa["k"] == "un" and sa["op"] == "&":
                        r = strip(sa["e"])
                        while r is not None and r["k"] in ("member", "index") and not (r["k"] == "member" and r["arrow"]):
                            r = strip(r["base"])
                        if r is not None and r["k"] == "var" and r.get("vk") in ("global", "slocal"):
                            out.setdefault(r["name"], []).append((ev, "address passed to %s" % (ev.callee or S(ev.e["fn"]))))
    return out


def run(ck, P):
    X = Ctx(P)
    cg = X.cg
    E = P.enums

    # ------------------------------------------------------------------ 1. shared statics
    ck.rule("C14.1-SHARED-STATIC", "R-SHARED-STATIC: every object with static storage in the library is (a) never written, (b) written only by "
            "constructors/destructors or by m_set_memhook (documented: before first use), (c) the pthread key/once pair, touched only through "
            "pthread_once/pthread_key_create/get/setspecific, or else it is shared mutable state reachable from per-context code — which must not exist",
            floor=8)
    writes = global_writes(P)
    objs = [g for g in P.globals if g["is_def"]]
    ck.need(len(objs) >= 8, "static-storage inventory shrank to %d objects" % len(objs))
    for g in objs:
        name = g["name"]
        ws = writes.get(name, [])
        # restrict to the defining unit/function for function-scope statics and file-scope statics
        if g["func"]:
            ws = [(ev, how) for (ev, how) in ws if ev.fn.name == g["func"] and ev.fn.unit == g["unit"]]
        elif g["storage"] == "static":
            ws = [(ev, how) for (ev, how) in ws if ev.fn.unit == g["unit"]]
        site = "%s:%s%s" % (g["unit"], (g["func"] + "::") if g["func"] else "", name)
        if not ws:
            ck.ob("C14.1-SHARED-STATIC", site, True, "'%s %s' is never written (effectively constant)" % (g["t"], name), nontrivial=False)
            continue
        writers = {ev.fn for (ev, how) in ws}
        if all(w.raw.get("ctor") or w.name in INIT_WRITERS for w in writers):
            ck.ob("C14.1-SHARED-STATIC", site, True, "written only by %s (library constructor / documented pre-use initialiser)" % sorted(w.name for w in writers))
            continue
        if name in ("key", "key_once") and g["unit"] == "Lib/core/ctx.c":
            ok = all((ev.callee in ("pthread_once", "pthread_key_create")) for (ev, how) in ws)
            ck.ob("C14.1-SHARED-STATIC", site, ok, "thread-specific key machinery: %s" % sorted({how for (_e, how) in ws}))
            continue
        # mutable and written by ordinary code: which entry points reach the writers?
        ev0, how0 = ws[0]
        reach = [f.name for f in P.funcs if f.public and ev0.fn.key in cg.closure([f.key])][:4]
        ck.ob("C14.1-SHARED-STATIC", site, False,
              "mutable object with static storage '%s %s' is written at line %d in %s (%s), reachable from %s: every context's thread writes "
              "the same object without synchronisation (data race; one context's value depends on another's)"
              % (g["t"], name, ev0.line, ev0.fn.name, how0, reach or [ev0.fn.name]))
    # positive fixture: the rule must see the key pair
    ck.need(any(g["name"] == "key" for g in objs) and "key" in writes, "fixture: the pthread key is no longer seen as written via pthread_key_create")

    # ------------------------------------------------------------------ 2. same-thread guard on the module API
    ck.rule("C14.2-THREAD-GUARD", "R-GUARD-TABLE over every public function taking a module handle: all but the plain getters establish "
            "mod->ctx == m_ctx() (-EPERM) before any effect, directly or by acting only through register_mod_src/deregister_mod_src/"
            "mod_deregister which carry the guard; m_mod_lookup answers NULL; m_mod_src_deregister_task refuses unconditionally", floor=38)
    eff = X.effects()
    pubs = [f for f in P.funcs if f.public and f.params and "m_mod_t" in f.params[0]["t"] and f.unit.startswith("Lib/core/")]
    ck.need(len(pubs) >= 40, "only %d public module functions found" % len(pubs))
    for name in DELEGATES:
        d = P.fn(name)
        ck.analysed(d)
        arg = "mod" if name != "mod_deregister" else "*mod"
        check_guarded_entry(ck, X, d, "C14.2-THREAD-GUARD", [(("(%s->ctx == m_ctx())" % arg, True), -1)], name)
    for f in sorted(pubs, key=lambda f: f.name):
        ck.analysed(f)
        if f.name in GETTERS:
            effs = [ev for ev in f.events() if eff.is_effect(ev)]
            ck.ob("C14.2-THREAD-GUARD", f.site("getter"), not effs, "plain getter without effects: %s" % (not effs), nontrivial=False)
            continue
        p0 = f.params[0]["name"]
        own = guard_retvals(f, "(%s->ctx == m_ctx())" % p0, True)
        if own:
            check_guarded_entry(ck, X, f, "C14.2-THREAD-GUARD", [(("(%s->ctx == m_ctx())" % p0, True), -1)], f.name)
            continue
        if f.name == "m_mod_lookup":
            gs = guard_retvals(f, "(c == m_ctx())", True)
            decl = [e for e in f.events() if e.kind == "decl" and e.e.get("name") == "c" and S(e.rhs) == "%s->ctx" % p0]
            gets = [e for e in f.calls("m_map_get")]
            ok = bool(gs) and all(g.retval == 0 for g in gs) and bool(decl) and all(has(X.facts(f, e, passed=True), "(c == m_ctx())") for e in gets)
            ck.ob("C14.2-THREAD-GUARD", f.site("NULL from foreign thread"), ok, "lookup guarded by c == m_ctx(): %s" % ok)
            continue
        effs = [ev for ev in f.events() if eff.is_effect(ev)]
        if not effs:
            rv = rules.returned_values(P, f)
            ok = all(isinstance(v, int) and v < 0 for v in rv)
            ck.ob("C14.2-THREAD-GUARD", f.site("no effect"), ok, "no effect at all, returns %s" % sorted(rv, key=str))
            continue
        bad = [ev for ev in effs if not (ev.kind == "call" and ev.callee in DELEGATES and ev.args and S(ev.args[0]).lstrip("&") == p0)]
        ck.ob("C14.2-THREAD-GUARD", f.site("acts via guarded callee"), not bad,
              "acts only through %s" % sorted({e.callee for e in effs}) if not bad else
              "effect '%s' at line %d is reachable from a foreign thread (no mod->ctx == m_ctx() guard)" % (S(bad[0].e)[:60], bad[0].line))

    # ------------------------------------------------------------------ 3. same-context addressing
    ck.rule("C14.3-SAME-CTX", "R-GUARD: m_mod_ps_tell and m_mod_ps_poisonpill send only under mod->ctx == recipient->ctx (-EINVAL); publish and "
            "broadcast iterate only the sender's own context (send_msg hands mod->ctx down, tell_pubsub_msg/tell_subscribers use that "
            "context's module map only)", floor=4)
    for name in ("m_mod_ps_tell", "m_mod_ps_poisonpill"):
        f = P.fn(name, "Lib/core/ps.c")
        check_guarded_entry(ck, X, f, "C14.3-SAME-CTX", [(("(mod->ctx == recipient->ctx)", True), -22)], name)
    sm = P.fn("send_msg", "Lib/core/ps.c")
    tp = [e for e in sm.calls("tell_pubsub_msg")]
    ck.ob("C14.3-SAME-CTX", sm.site("own context"), bool(tp) and all(S(e.args[2]) == "mod->ctx" for e in tp), "send_msg delivers within %s" % [S(e.args[2]) for e in tp])
    okc = True
    det = []
    for name in ("tell_pubsub_msg", "tell_subscribers"):
        f = P.fn(name, "Lib/core/ps.c")
        ck.analysed(f)
        for ev in f.events():
            e = ev.e if ev.kind != "decl" else ev.rhs
            if e is None:
                continue
            for n in walk(e):
                if n.get("k") == "member" and n["field"] == "modules":
                    det.append(S(n))
                    if S(n) != "c->modules":
                        okc = False
    ck.ob("C14.3-SAME-CTX", "Lib/core/ps.c:recipient maps", okc and bool(det), "module maps iterated when delivering: %s" % sorted(set(det)))

    # ------------------------------------------------------------------ 4. what a task thread may touch
    ck.rule("C14.4-TASK-THREAD", "effect analysis from task_thread (the user function excluded): the pool thread writes only the source's retval "
            "field and the source's eventfd; the source object handed to the thread is reference-held for the thread's lifetime (R-REFPTR-STORE)",
            floor=2)
    tt = P.fn("task_thread", "Lib/core/src.c")
    ck.analysed(tt)
    stores = [S(e.lhs) for e in tt.events() if e.kind in ("assign", "incdec") and rules.lvalue_class(e.lhs) != "local"]
    calls = [e for e in tt.calls()]
    allowed_calls = {"poll_notify_userevent"}
    badc = [e for e in calls if not (e.callee in allowed_calls or (e.callee is None and "USERTASK" in cg.pt.vals(e.e["fn"], tt)))]
    pn = P.fn("poll_notify_userevent")
    ck.analysed(pn)
    pn_eff = [e for e in pn.events() if X.effects().is_effect(e)]
    okn = all(e.kind == "call" and e.callee == "write" for e in pn_eff) and bool(pn_eff)
    ck.ob("C14.4-TASK-THREAD", tt.site("effects"), stores == ["src->task_src.retval"] and not badc and okn,
          "task thread stores %s, calls %s; poll_notify_userevent only writes the eventfd: %s" % (stores, [e.callee or S(e.e["fn"]) for e in calls], okn))
    st = P.fn("start_task", "Lib/core/src.c")
    ck.analysed(st)
    adds = [e for e in st.calls("m_thpool_add")]
    ck.need(adds, "start_task no longer submits to the pool")
    for e in adds:
        a = strip(e.args[2])
        ok = a["k"] == "call" and a.get("callee") == "m_mem_ref"
        ck.ob("C14.4-TASK-THREAD", st.site("m_thpool_add(arg=%s)" % S(e.args[2])), ok,
              "source handed to the pool thread %s" % ("under its own reference" if ok else
                                                       "WITHOUT a reference: stop() destroys the source while the task thread still reads src->mod / writes retval / the eventfd"))

    ck.not_decided += ["absence of data races as a whole-program claim (user callbacks and allocator are outside)", "observational independence of traces"]
    ck.assumptions.append("m_set_memhook is called before any other library call (documented)")
