"""C13 — priorities and batching (DESIGN §4 C13): decision table of push_evt + registration/setter/reset rules."""
import lm
import rules
from lm import S, strip, cval, atoms
from props.common import Ctx, has, fmt_facts, guard_retvals, check_guarded_entry, TMR_REMOVERS, TMR_CHARGED
from props.reset import reset_obligations
from units import AnalysisBroken

LEVEL = "other"
CTXC = "Lib/core/ctx.c"


from rules import tri_and, tri_or, tri_not, eval_bool, sym_value, simulate


def run(ck, P):
    X = Ctx(P)
    E = P.enums
    for n in ("M_SRC_PRIO_LOW", "M_SRC_PRIO_NORM", "M_SRC_PRIO_HIGH", "M_SRC_TYPE_FD", "M_SRC_ONESHOT"):
        ck.need(n in E, "%s vanished" % n)
    LOW, NORM, HIGH = E["M_SRC_PRIO_LOW"], E["M_SRC_PRIO_NORM"], E["M_SRC_PRIO_HIGH"]
    INTERNAL = 1 << 7
    pe = P.fn("push_evt", CTXC)
    ck.analysed(pe)

    # ------------------------------------------------------------------ 1. decision table of push_evt
    ck.rule("C13.1-DECISION", "R-DECISION: every feasible path of push_evt (acyclic; boolean locals copy-propagated), abstracted to "
            "(atom valuation -> effects), agrees with the table written from the statement: a non-internal event is enqueued exactly once and "
            "never released here, an internal one is released once and never enqueued; userdata is taken from the source whenever one exists; "
            "the handler is invoked iff the accumulated queue is non-empty and (HIGH source, or the batch timer, or — unless the event is "
            "LOW — the accumulated count reached batch.len); on invocation a fresh queue is installed before the handler runs and the "
            "detached one is what it receives", floor=6)
    ck.need(not pe.back_edges(), "push_evt is no longer acyclic")
    evtp = pe.params[1]["name"]
    aI = "(src->flags & %d)" % INTERNAL
    aH = "(src->flags & %d)" % HIGH
    aL = "(src->flags & %d)" % LOW
    aB = "(src->userptr == &mod->batch)"
    aE = "m_queue_len(mod->batch.events)"
    aR = "(m_queue_len(mod->batch.events) < mod->batch.len)"
    npaths = 0
    nfeasible = 0
    bad = {}
    seen_vals = set()
    for path in pe.paths(prune=False):
        npaths += 1
        feas, env, a, evs = simulate(pe, path)
        if not feas:
            continue
        # a failed allocation on the path (e.g. of the fresh batch queue): outside the property's quantifier, DESIGN §10.7
        allocd_ = {S(d.lhs) for d in evs if d.kind in ("decl", "assign") and d.rhs is not None and d.lhs is not None and strip(d.lhs)["k"] == "var"
                   and strip(d.rhs)["k"] == "call" and strip(d.rhs).get("callee") in ("m_queue_new", "m_mem_new")}
        if any(a.get(x_) is False for x_ in allocd_):
            continue
        nfeasible += 1
        # conditions written over locals (an `owner` pointer saved before the release, a cached queue length) are read through the
        # locals' definitions
        a0 = dict(a)
        for (k_, v_) in rules.resolve_atoms(pe, [(k, v) for k, v in a0.items() if v in (True, False)]):
            a.setdefault(k_, v_)
        Ssrc = a.get("src")
        I = tri_and(Ssrc, a.get(aI)) if Ssrc is not False else False
        enq = [e for e in evs if e.kind == "call" and e.callee == "m_queue_enqueue" and S(e.args[1]) == evtp]
        unr = [e for e in evs if e.kind == "call" and e.callee in ("m_mem_unref", "m_mem_unrefp") and S(e.args[0]).lstrip("&") == evtp]
        inv = [e for e in evs if e.kind == "call" and e.callee == "call_pubsub_cb"]
        ud = [e for e in evs if e.kind == "assign" and (S(e.lhs).endswith("->userdata") or S(e.lhs).endswith(".userdata"))]
        pdesc = rules.fmt_path(pe, path)
        if I is None:
            bad.setdefault("undetermined", ("path does not determine whether the event is internal", pdesc))
            continue
        H, L, B = a.get(aH), a.get(aL), a.get(aB)
        Emp = tri_not(a.get(aE)) if aE in a else None
        R = tri_not(a.get(aR)) if aR in a else None
        seen_vals.add((I, Ssrc, H, L, B, Emp, R))
        # 1. routing
        if I is False and not (len(enq) == 1 and not unr and S(enq[0].args[0]) == "mod->batch.events"):
            bad.setdefault("routing", ("non-internal event: %d enqueue(s), %d release(s)" % (len(enq), len(unr)), pdesc))
        if I is True and not (len(unr) == 1 and not enq):
            bad.setdefault("routing", ("internal event: %d release(s), %d enqueue(s)" % (len(unr), len(enq)), pdesc))
        # 2. userdata
        if I is False and Ssrc is True and not (len(ud) == 1 and S(ud[0].rhs) == "src->userptr"):
            bad.setdefault("userdata", ("event of a source does not take the source's user pointer", pdesc))
        if (I is True or Ssrc is False) and ud:
            bad.setdefault("userdata", ("userdata overwritten for an event without (user) source", pdesc))
        # 3. invocation
        high = tri_and(tri_and(tri_not(I), Ssrc), H)
        low_only = tri_and(tri_and(tri_and(tri_not(I), Ssrc), L), tri_not(H))
        timer = tri_and(I, B)
        if low_only is True:
            expected = False
        else:
            trig = tri_or(tri_or(high, timer), tri_and(tri_not(low_only), R))
            expected = tri_and(tri_not(Emp), trig)
            # short-circuit evaluation never reads R when HIGH/timer forces, never reads anything when empty
            if Emp is True:
                expected = False
            elif high is True or timer is True:
                expected = tri_not(Emp)
        actual = bool(inv)
        if expected is None:
            bad.setdefault("undetermined-inv", ("path does not determine whether the handler must run (atoms %s)" % sorted(a.items()), pdesc))
        elif expected != actual:
            bad.setdefault("invocation", ("handler %s although the table says it %s  [internal=%s src=%s HIGH=%s LOW=%s batch-timer=%s empty=%s reached=%s]"
                                          % ("runs" if actual else "does not run", "must" if expected else "must not", I, Ssrc, H, L, B, Emp, R), pdesc))
        # 4. queue swap
        if inv:
            ce = inv[0]
            qa = strip(ce.args[1])
            cap = [e for e in evs if e.kind == "decl" and e.e.get("name") == qa.get("name") and S(e.rhs) == "mod->batch.events"]
            fresh_ = {S(d.lhs) for d in evs if d.kind in ("decl", "assign") and d.rhs is not None and d.lhs is not None
                      and strip(d.rhs)["k"] == "call" and strip(d.rhs).get("callee") == "m_queue_new"}
            sw = [e for e in evs if e.kind == "assign" and S(e.lhs) == "mod->batch.events" and
                  (strip(e.rhs).get("callee") == "m_queue_new" or S(e.rhs) in fresh_)]
            ids = [id(e) for e in evs]
            ok = len(inv) == 1 and len(cap) == 1 and len(sw) == 1 and ids.index(id(cap[0])) < ids.index(id(sw[0])) < ids.index(id(ce)) \
                and S(ce.args[0]) == "mod"
            if not ok:
                bad.setdefault("swap", ("handler is not given the detached queue / fresh queue not installed first", pdesc))
    ck.need(nfeasible >= 8, "push_evt: only %d feasible paths (of %d) — decision table would be vacuous" % (nfeasible, npaths))
    ck.extra["push_evt_paths"] = {"enumerated": npaths, "feasible": nfeasible, "distinct_valuations": len(seen_vals)}
    for clause in ("routing", "userdata", "invocation", "swap"):
        b = bad.get(clause)
        ck.ob("C13.1-DECISION", pe.site(clause), b is None, "%d feasible path(s) agree with the table" % nfeasible if b is None else b[0],
              path=b[1] if b else None)
    for clause in ("undetermined", "undetermined-inv"):
        if clause in bad:
            # on the reference tree every path is decided by the table's atoms; an undecided path means the logic changed
            ck.ob("C13.1-DECISION", pe.site("decided by table atoms"), False,
                  "push_evt decides on conditions the decision table does not know: %s" % bad[clause][0][:300], path=bad[clause][1])
    # comparison operator of the size test: with batch.len == 0 (default) it must be a tautology for unsigned lengths
    sizecmp = [b.term["cond"] for b in pe.blocks.values() if b.term and b.term.get("cond") is not None and "batch.len" in S(b.term["cond"])]
    # however it is spelt (a >= b, !(a < b), b <= a, with either arm first), the handler runs exactly on "pending >= batch.len"
    okop = bool(sizecmp)
    pdefs = rules.pure_local_defs(pe)
    for sc in sizecmp:
        c0 = strip(sc)
        neg = False
        while c0["k"] == "un" and c0["op"] == "!":
            c0 = strip(c0["e"])
            neg = not neg
        if c0["k"] != "bin":
            okop = False
            continue
        l_, r_, op_ = S(c0["l"]), S(c0["r"]), c0["op"]
        pol = None
        if r_ == "mod->batch.len" and op_ in (">=", "<"):
            pol = op_ == ">="
        elif l_ == "mod->batch.len" and op_ in ("<=", ">"):
            pol = op_ == "<="
        if pol is not None and neg:
            pol = not pol
        if pol is None:
            okop = False
            continue
        blk = [b for b in pe.blocks.values() if b.term and b.term.get("cond") is sc][0]
        inv = {e.block.id for e in pe.calls("call_pubsub_cb")}

        def reaches(start):
            seen_, st_ = set(), [start]
            while st_:
                x_ = st_.pop()
                if x_ in inv:
                    return True
                if x_ in seen_ or x_ is None:
                    continue
                seen_.add(x_)
                st_.extend(s_ for s_ in pe.blocks[x_].succs if s_ is not None)
            return False
        arms = {br_: s_ for (s_, _c, br_) in pe.edges(blk.id)}
        okop = okop and reaches(arms.get(pol)) and not reaches(arms.get(not pol))
    ck.ob("C13.1-DECISION", pe.site("size test >="), okop, "size test is '%s'" % [S(c) for c in sizecmp])
    lowret = [b for b in pe.blocks.values() if b.term and b.term.get("cond") is not None and S(b.term["cond"]) == aL]
    ck.ob("C13.1-DECISION", pe.site("LOW tested after HIGH"), bool(lowret), "LOW early return present: %s" % bool(lowret), nontrivial=False)

    # ------------------------------------------------------------------ 2. exactly one priority bit; fds are HIGH; internal timers wired
    ck.rule("C13.2-PRIO", "R-GUARD: register_mod_src and m_mod_ps_subscribe accept only zero or one priority bit (-EINVAL) before creating "
            "anything and default to NORM; m_mod_src_register_fd rejects LOW/NORM; create_src ORs HIGH into fd sources; the internal timers are "
            "registered with INTERNAL|HIGH and the very user pointers (&mod->batch, &mod->tb) push_evt recognises", floor=6)
    for (fname, unit, creators) in (("register_mod_src", "Lib/core/src.c", ("create_src",)), ("m_mod_ps_subscribe", "Lib/core/ps.c", ("m_mem_new", "regcomp"))):
        f = P.fn(fname, unit)
        ck.analysed(f)
        targets = [e for e in f.calls() if e.callee in creators]
        ck.need(targets, "%s no longer creates a source" % fname)
        bad_p = None
        n = 0
        for path in f.paths(loop_fragments=True):
            evs = list(rules.path_events(f, path))
            if not any(e in targets for e in evs):
                continue
            n += 1
            a = rules.path_assumes(path)
            # M_RET_ASSERT evaluates `prio_flags == 0 || popcount == 1` as a value: the branch atom is the whole disjunction
            if not (a.get("prio_flags") is False or any(v is True and "(__builtin_popcount(prio_flags) == 1)" in k and "||" in k or
                                                       (v is True and k == "(__builtin_popcount(prio_flags) == 1)") for k, v in a.items())):
                bad_p = path
                break
            if a.get("prio_flags") is False:
                ors = [e for e in evs if e.kind == "assign" and S(e.lhs) == "flags" and e.e["op"] == "|=" and cval(e.rhs) == NORM]
                first = min(i for i, e in enumerate(evs) if e in targets)
                if not ors or evs.index(ors[0]) > first:
                    bad_p = path
                    break
        gs = [g for g in rules.bailouts(f) if any("popcount" in a for (a, p) in g.cont_atoms)]
        ok = bad_p is None and n > 0 and bool(gs) and all(g.retval == -22 for g in gs)
        ck.ob("C13.2-PRIO", f.site("one priority bit"), ok, "%d creating path(s) pass the priority check (default NORM), failure -> %s" % (n, [g.retval for g in gs]),
              path=rules.fmt_path(f, bad_p) if bad_p else None)
        pf = [e for e in f.events() if e.kind == "decl" and e.e.get("name") == "prio_flags"]
        okm = bool(pf) and S(pf[0].rhs) == "(flags & %d)" % ((HIGH << 1) - 1)
        ck.ob("C13.2-PRIO", f.site("priority mask"), okm, "prio_flags = %s" % [S(e.rhs) for e in pf], nontrivial=False)
    rf = P.fn("m_mod_src_register_fd", "Lib/core/src.c")
    ck.analysed(rf)
    regs = list(rf.calls("register_mod_src"))
    bad_p = None
    for path in rf.paths():
        evs = list(rules.path_events(rf, path))
        if any(e in regs for e in evs):
            a = rules.path_assumes(path)
            if not (a.get("prio_flags") is False or any(v is True and ("(prio_flags == %d)" % HIGH) in k and ("||" in k or k == "(prio_flags == %d)" % HIGH)
                                                       for k, v in a.items())):
                bad_p = path
    ck.ob("C13.2-PRIO", rf.site("fd: LOW/NORM rejected"), bad_p is None and bool(regs), "descriptor sources accept only no priority or HIGH",
          path=rules.fmt_path(rf, bad_p) if bad_p else None)
    cs = P.fn("create_src", "Lib/core/src.c")
    ck.analysed(cs)
    ors = [e for e in cs.events() if e.kind == "assign" and S(e.lhs) == "src->flags" and e.e["op"] == "|=" and cval(e.rhs) == HIGH]
    # decided per kind (create_src specialised to that type): every path creating an FD source sets HIGH, no path creating another kind does
    from props.common import flag_forced_for_type
    tot_fd, set_fd = flag_forced_for_type(cs, E["M_SRC_TYPE_FD"], HIGH)
    others_ = [flag_forced_for_type(cs, v_, HIGH) for k_, v_ in E.items() if k_.startswith("M_SRC_TYPE_") and k_ not in ("M_SRC_TYPE_FD", "M_SRC_TYPE_END")]
    okh = bool(ors) and tot_fd > 0 and set_fd == tot_fd and all(s_ == 0 for (_t, s_) in others_)
    ck.ob("C13.2-PRIO", cs.site("fd forced HIGH"), okh, "src->flags |= HIGH under type == M_SRC_TYPE_FD: %s" % okh,
          witness=[("del_event", cs.unit, cs.name, e.block.id, e.idx) for e in ors])
    # what push_evt compares a source's user pointer with — in a boolean local, in a branch, directly or through a saved copy
    recog = {}
    import re as _re
    cand = []
    for ev in pe.events():
        if ev.kind == "decl" and ev.rhs is not None:
            cand += [(x, ev) for x in atoms(ev.rhs, True)]
    for b_ in pe.blocks.values():
        if b_.term and b_.term.get("cond") is not None:
            cand += [(x, b_) for x in atoms(b_.term["cond"], True)]
    for (x, where) in cand:
        for (a_, _p) in rules.resolve_atoms(pe, [x]):
            m_ = _re.match(r"^\(src->userptr == (&[\w>.\-]+)\)$", a_)
            if m_:
                recog.setdefault(m_.group(1), where)
    for (fname, unit, ptr) in (("m_mod_set_batch_timeout", "Lib/core/evts.c", "&mod->batch"), ("m_mod_set_tokenbucket", "Lib/core/mod.c", "&mod->tb")):
        f = P.fn(fname, unit)
        ck.analysed(f)
        regs = [e for e in f.calls("m_mod_src_register_tmr")]
        ok = bool(regs) and all(cval(e.args[2]) == (INTERNAL | HIGH) and S(e.args[3]) == ptr and S(e.args[1]) == ptr + ".timer" for e in regs) and ptr in recog
        ck.ob("C13.2-PRIO", f.site("internal timer wiring"), ok, "registered with flags %s userptr %s; push_evt recognises %s"
              % ([cval(e.args[2]) for e in regs], [S(e.args[3]) for e in regs], sorted(recog)))

    # ------------------------------------------------------------------ 3. setters
    ck.rule("C13.3-SETTERS", "m_mod_set_batch_timeout removes the previous internal timer (when one was set) before storing the new period and "
            "forces batch.len = SIZE_MAX only when size batching was off and a timeout is being set; m_mod_set_batch_size stores its argument; "
            "both act only for a live same-thread module", floor=4)
    bt = P.fn("m_mod_set_batch_timeout", "Lib/core/evts.c")
    dr = [e for e in bt.calls() if e.callee in TMR_REMOVERS]
    stores = [e for e in bt.events() if e.kind == "assign" and S(e.lhs) == "mod->batch.timer.ns"]
    ok = bool(dr) and bool(stores) and all(has(X.facts(bt, e), "mod->batch.timer.ns") and S(e.args[1]) == "&mod->batch.timer" for e in dr) \
        and all(bt.ev_dominates(d, s) or not _reaches(bt, s, d) for d in dr for s in stores) and all(S(s.rhs) == bt.params[1]["name"] for s in stores)
    ck.ob("C13.3-SETTERS", bt.site("old timer removed first"), ok, "deregister under timer.ns != 0 precedes the new period store: %s" % ok)
    from props.c18 import _result_checked
    okc = bool(dr) and all(_result_checked(bt, d) for d in dr)
    ck.ob("C13.3-SETTERS", bt.site("refused removal changes nothing"), okc,
          "a refused deregistration of the old batch timer (e.g. -EAGAIN) returns before the new timeout is stored" if okc else
          "the result of the timer deregistration is ignored: when it is refused the new timeout is stored anyway, the old timer stays armed under "
          "a forgotten key")
    ls = [e for e in bt.events() if e.kind == "assign" and S(e.lhs) == "mod->batch.len"]
    okl = bool(ls) and all(has(X.facts(bt, e), "mod->batch.len", False) and has(X.facts(bt, e), bt.params[1]["name"]) and cval(e.rhs) == 2**64 - 1 for e in ls)
    ck.ob("C13.3-SETTERS", bt.site("len=SIZE_MAX only if 0"), okl, "batch.len forced to %s under %s" % ([S(e.rhs) for e in ls],
                                                                                                       [fmt_facts(frozenset(x for x in X.facts(bt, e) if "batch" in x[0] or "timeout" in x[0])) for e in ls]))
    bs = P.fn("m_mod_set_batch_size", "Lib/core/evts.c")
    ck.analysed(bt, bs)
    ws = [e for e in bs.events() if e.kind == "assign" and S(e.lhs) == "mod->batch.len"]
    ck.ob("C13.3-SETTERS", bs.site("stores len"), len(ws) == 1 and S(ws[0].rhs) == bs.params[1]["name"], "batch.len = %s" % [S(e.rhs) for e in ws], nontrivial=False)
    for f in (bt, bs):
        check_guarded_entry(ck, X, f, "C13.3-SETTERS", X.mod_assert_atoms("mod"), f.name)
    lw = {w.fn.name for w in P.writes_to_field("mod_batch_t", "len")}
    ck.ob("C13.3-SETTERS", "Lib/core:mod_batch_t.len writers", lw <= {"m_mod_set_batch_size", "m_mod_set_batch_timeout", "reset_module"},
          "batch.len written by %s" % sorted(lw), nontrivial=False)

    # ------------------------------------------------------------------ 4. reset on stop
    ck.rule("C13.4-RESET", "R-RESET-ALL: stop(mod, stopping) always runs reset_module, which discards the accumulated events and writes every "
            "field of the batching settings (len = 0, timer zeroed)", floor=5)
    reset_obligations(ck, P, X, "C13.4-RESET", containers=[("batch.events", "m_queue_clear")], scalar_fields=[("mod->batch.len", 0)],
                      memset_fields=["mod->batch.timer"])
    fields = {f["name"] for f in P.record("mod_batch_t")["fields"]}
    ck.ob("C13.4-RESET", "Lib/core/mod.h:mod_batch_t fields", fields == {"len", "timer", "events"}, "mod_batch_t has fields %s (each is reset above)" % sorted(fields),
          nontrivial=False)

    ck.not_decided += ["expiry timing of the batch timer", "interleavings of setter calls with deliveries beyond the per-event decision table",
                       "that the accumulated queue is non-empty right after an enqueue (container semantics, C12)"]


def _reaches(f, a, b):
    seen, st = set(), [a.block.id]
    while st:
        n = st.pop()
        if n == b.block.id and (n != a.block.id or a.idx < b.idx):
            return True
        if n in seen:
            continue
        seen.add(n)
        st.extend(s for s in f.blocks[n].succs if s is not None)
    return False
