"""C04 — memory and lifetime safety: the ownership discipline (necessary conditions only; DESIGN §4 C04)."""
import lm
import rules
from lm import S, strip, cval, walk, Func
from props.common import Ctx, has, fmt_facts
from props.containers import is_free_call
from props.nullable import unguarded_derefs

LEVEL = "other"

RT = {"m_mod_t *", "m_ctx_t *", "ev_src_t *", "ps_priv_t *", "evt_priv_t *", "const m_mod_t *"}
FRESH = frozenset({"m_mem_new", "create_src", "register_ctx_src", "new_evt", "alloc_ps_msg"})
CONSUMERS = {"m_map_put": 2, "m_bst_insert": 1, "m_queue_enqueue": 1, "m_list_insert": 1, "m_stack_push": 1, "pthread_setspecific": 1,
             "push_evt": 1}
RELEASE = {"m_mem_unref": 0, "m_mem_unrefp": 0}
ALLOCATORS = {"m_mem_new", "m_map_new", "m_queue_new", "m_stack_new", "m_list_new", "m_bst_new", "mem_strdup", "new_evt", "alloc_ps_msg",
              "create_src", "m_thpool_new", "dlopen"}
CONTAINER_FREE = {"m_map_t *": "m_map_free", "m_queue_t *": "m_queue_free", "m_stack_t *": "m_stack_free", "m_list_t *": "m_list_free",
                  "m_bst_t *": "m_bst_free"}


def provenance(P, X, f, e, depth=0, seen=None):
    """Classify where a pointer value comes from: set of tags among heap / fresh / stack(&x) / literal / global / param-unknown."""
    seen = seen or set()
    e0 = strip(e)
    if e0 is None:
        return {"unknown"}
    k = e0["k"]
    if k == "null":
        return {"null"}
    if k == "str":
        return {"literal"}
    if k == "call":
        return {"call:%s" % (e0.get("callee") or "indirect")}
    if k == "member" or k == "index":
        return {"heap-field"}
    if k == "un" and e0["op"] == "&":
        b = strip(e0["e"])
        if b is not None and b["k"] == "var":
            return {"stack(&%s)" % b["name"]} if b.get("vk") in ("local", "param") else {"global(&%s)" % b["name"]}
        return {"interior-pointer"}
    if k == "un" and e0["op"] == "*":
        return {"heap-field"}
    if k == "cond":
        return provenance(P, X, f, e0["a"], depth, seen) | provenance(P, X, f, e0["b"], depth, seen)
    if k == "var":
        vk = e0.get("vk")
        if vk in ("global", "slocal"):
            return {"global"}
        name = e0["name"]
        defs = [d for d in f.events() if d.kind in ("decl", "assign") and d.lhs is not None and S(d.lhs) == name and d.rhs is not None]
        out = set()
        for d in defs:
            if (f.key, name, d.line) in seen:
                continue
            out |= provenance(P, X, f, d.rhs, depth, seen | {(f.key, name, d.line)})
        if vk == "param" or not defs:
            idx = [i for i, p in enumerate(f.params) if p["name"] == name]
            if idx and depth < 4:
                i = idx[0]
                callers = []
                for g in P.funcs:
                    for cev in g.calls():
                        for t in X.cg.callees_of_event(cev):
                            if t is f:
                                # direct argument or bound as callback (m_map_iterate(m, f, up): up -> param 0)
                                if cev.callee == f.name and i < len(cev.args):
                                    callers.append((g, cev.args[i]))
                                elif cev.callee in ("m_map_iterate",) and i == 0 and len(cev.args) > 2:
                                    callers.append((g, cev.args[2]))
                if not callers:
                    out.add("param(%s of %s)" % (name, f.name))
                for (g, a) in callers:
                    out |= provenance(P, X, g, a, depth + 1, seen | {(f.key, name, 0)})
            elif idx:
                out.add("param(%s of %s)" % (name, f.name))
        return out or {"unknown"}
    return {"unknown"}


def run(ck, P):
    X = Ctx(P)
    cg = X.cg
    core = [f for f in P.funcs if f.unit.startswith("Lib/core/")]

    # ------------------------------------------------------------------ 1. provenance of ref/unref arguments
    ck.rule("C04.1-UNREF-PROV", "R-UNREF-PROV: the argument of m_mem_ref/m_mem_unref (and the pointee of m_mem_unrefp) never originates from the "
            "address of a local/parameter object, a string literal or a global — followed through assignments, casts, ?: arms, parameters "
            "(all call sites) and the m_map_iterate user-pointer binding", floor=25)
    nsites = 0
    for f in core:
        for ev in f.calls({"m_mem_ref", "m_mem_unref", "m_mem_unrefp"}):
            nsites += 1
            ck.analysed(f)
            ck.call_sites += 1
            a = ev.args[0]
            if ev.callee == "m_mem_unrefp":
                sa = strip(a)
                # &ptr -> the pointer variable itself
                if sa is not None and sa["k"] == "un" and sa["op"] == "&":
                    a = sa["e"]
                elif sa is not None and sa["k"] == "var":
                    # a `T **` parameter: the object it points to is the caller's handle
                    a = {"k": "un", "op": "*", "e": sa, "t": ""}
            pv = provenance(P, X, f, a)
            bad = sorted(p for p in pv if p.startswith("stack") or p.startswith("global(") or p == "literal" or p == "interior-pointer")
            ck.ob("C04.1-UNREF-PROV", f.site("%s(%s)@%d" % (ev.callee, S(ev.args[0]), _ordinal(f, ev))), not bad,
                  "argument '%s' comes from %s" % (S(ev.args[0]), sorted(pv)) if not bad else
                  "argument '%s' at line %d may be %s: not memory obtained from m_mem_new" % (S(ev.args[0]), ev.line, bad), nontrivial=bool(pv - {"heap-field"}))
    ck.need(nsites >= 25, "only %d ref/unref call sites found" % nsites)

    # ------------------------------------------------------------------ 2. stored ref-counted pointers hold a reference
    ck.rule("C04.2-REFPTR-STORE", "R-REFPTR-STORE: a pointer to a ref-counted object (module, context, source, message, event) stored into a field "
            "of a heap object, registered with the kernel (epoll data) or handed to another thread is the result of m_mem_ref(), a fresh "
            "allocation being transferred, or NULL; frozen exception: ctx->curr_mod (scoped by the callback bracket of C01.5)", floor=12)
    nst = 0
    for f in core:
        ex = None
        for ev in f.events():
            if ev.kind == "assign" and ev.e["op"] == "=" and rules.lvalue_class(ev.lhs) != "local":
                r = strip(ev.rhs)
                rt_, lt_ = (r or {}).get("t", ""), strip(ev.lhs).get("t", "")
                is_epoll = S(ev.lhs).endswith("data.ptr")
                if not (rt_ in RT or lt_ in RT or (is_epoll and rt_ in RT)):
                    continue
                nst += 1
                ck.analysed(f)
                lv = S(ev.lhs)
                if lv.endswith("->curr_mod"):
                    ck.ob("C04.2-REFPTR-STORE", f.site("store %s" % lv.split("->")[-1] + "=" + S(ev.rhs)), True, "scoped current-module marker (frozen exception)", nontrivial=False)
                    continue
                if ex is None:
                    ex = rules.Expander(f, stable=False)
                xs = ex.at(ev, ev.rhs)
                ok = xs.startswith("m_mem_ref(") or xs == "NULL" or any(xs.startswith(a + "(") for a in FRESH)
                ck.ob("C04.2-REFPTR-STORE", f.site("store %s = %s" % (_tail(lv), S(ev.rhs))), ok,
                      "'%s = %s' at line %d stores %s" % (lv, S(ev.rhs), ev.line, "a counted reference / fresh object" if ok else
                                                         "a borrowed pointer: the holder can outlive the object it names (no reference is taken)"))
    # bulk copies: memcpy(fresh, template, sizeof(R)) copies R's ref-counted pointer fields as borrowed pointers; each must be
    # re-stored as a counted reference (or NULL) on every path that hands the fresh object out
    INS0 = {"m_map_put": 2, "m_bst_insert": 1, "m_queue_enqueue": 1, "m_list_insert": 1, "m_stack_push": 1}

    def _flat(rec, prefix=""):
        out = []
        r = P.record(rec)
        for fd in (r or {}).get("fields", []):
            if fd.get("rec") and not fd.get("is_ptr"):
                out += _flat(fd["rec"], prefix + fd["name"] + ".")
            elif fd.get("is_ptr") and fd["t"] in RT:
                out.append(prefix + fd["name"])
        return out
    for f in core:
        for mc in f.calls("memcpy"):
            d0 = strip(mc.args[0])
            if d0["k"] != "var" or d0.get("vk") != "local":
                continue
            dn = d0["name"]
            fresh = [d for d in f.events() if d.kind in ("decl", "assign") and d.lhs is not None and S(d.lhs) == dn and d.rhs is not None
                     and strip(d.rhs)["k"] == "call" and strip(d.rhs).get("callee") == "m_mem_new"]
            rec = (d0.get("t", "") or "").replace("*", "").replace("const ", "").strip()
            if not fresh or not P.record(rec) or cval(mc.args[2]) != P.record(rec).get("size"):
                continue
            flds = _flat(rec)
            if not flds:
                continue
            nst += 1
            ck.analysed(f)
            exm = rules.Expander(f, stable=False)
            badc = None
            np_ = 0
            def _escapes(e):
                # the copy leaves the function: returned, written to a pipe by address, or put into a container
                if e.kind == "ret" and e.e is not None and S(e.e) == dn:
                    return True
                if e.kind == "call" and e.callee in ("write",) and len(e.args) > 1 and S(e.args[1]) == "&" + dn:
                    return True
                return e.kind == "call" and e.callee in INS0 and S(e.args[INS0[e.callee]]) == dn
            for path in f.paths():
                evs = list(rules.path_events(f, path))
                if mc not in evs:
                    continue
                after = evs[evs.index(mc) + 1:]
                esc = [k_ for k_, e in enumerate(after) if _escapes(e)]
                if not esc:
                    continue
                np_ += 1
                rest = after[:esc[0]]
                for fp in flds:
                    st_ = [e for e in rest if e.kind == "assign" and e.e["op"] == "=" and S(e.lhs) == "%s->%s" % (dn, fp)]
                    if not st_ or not all(exm.at(e, e.rhs).startswith("m_mem_ref(") or exm.at(e, e.rhs) == "NULL" for e in st_):
                        badc = (fp, path)
            ck.need(np_ > 0, "the bulk copy in %s never leaves the function on any enumerated path" % f.name)
            ck.ob("C04.2-REFPTR-STORE", f.site("memcpy(%s, …, sizeof(%s))" % (dn, rec)), badc is None and np_ > 0,
                  "%d path(s) hand out the copy; the copied ref-counted pointers %s are each re-stored as counted references" % (np_, flds) if badc is None else
                  "the copy keeps the template's '%s' as a borrowed pointer on a path that hands it out: the in-flight object can outlive what it names "
                  "(no reference is taken)" % badc[0], path=rules.fmt_path(f, badc[1]) if badc else None)
    # container inserts: a ref-counted object put into a container that releases its elements (mem_dtor) goes in with a reference
    # of its own — m_mem_ref(x), a fresh object, or the owned parameter of a consuming function
    INS = {"m_map_put": 2, "m_bst_insert": 1, "m_queue_enqueue": 1, "m_list_insert": 1, "m_stack_push": 1}
    for ev in P.calls_to(set(INS)):
        f = ev.fn
        if not f.unit.startswith("Lib/core/"):
            continue
        a_ = ev.args[INS[ev.callee]]
        at_ = (strip(a_) or {}).get("t", "")
        inner_t = at_
        sa_ = strip(a_)
        if sa_["k"] == "call" and sa_.get("callee") == "m_mem_ref" and sa_["args"]:
            inner_t = strip(sa_["args"][0]).get("t", "")
        if not (at_ in RT or inner_t in RT):
            continue
        nst += 1
        ck.analysed(f)
        xs = rules.Expander(f, stable=False).at(ev, a_)
        okc = xs.startswith("m_mem_ref(") or any(xs.startswith(fr + "(") for fr in FRESH) or \
            (sa_["k"] == "var" and sa_.get("vk") == "param" and f.name in CONSUMERS)
        if not okc and sa_["k"] == "var":
            # a local with several definitions (NULL first, the fresh object under a condition): every non-NULL value it can hold is fresh/counted
            vs_ = {x for x in rules.value_sources(f, sa_["name"]) if x not in ("NULL", "0")}
            okc = bool(vs_) and all(x.startswith("m_mem_ref(") or any(x.startswith(fr + "(") for fr in FRESH) for x in vs_)
        ck.ob("C04.2-REFPTR-STORE", f.site("%s(%s, %s)" % (ev.callee, _tail(S(ev.args[0])), S(a_))), okc,
              "'%s' goes into %s %s" % (S(a_), S(ev.args[0]), "with a reference of its own / as a fresh object" if okc else
                                        "as a borrowed pointer: the container releases it when cleared, so the object loses a reference it never received "
                                        "(freed under its other holders)"))
    for ev in P.calls_to("m_thpool_add"):
        if ev.fn.unit.startswith("Lib/core/"):
            nst += 1
            a = strip(ev.args[2])
            ok = a["k"] == "call" and a.get("callee") == "m_mem_ref"
            ck.ob("C04.2-REFPTR-STORE", ev.fn.site("m_thpool_add(arg=%s)" % S(ev.args[2])), ok,
                  "object handed to another thread %s" % ("with its own reference" if ok else "without a reference (the thread keeps using it after stop() destroyed it)"))
    ck.need(nst >= 12, "only %d stores of ref-counted pointers found" % nst)

    # ------------------------------------------------------------------ 3. fresh objects are owned on every path
    ck.rule("C04.3-OWN", "R-OWN: the result of an allocating call (m_mem_new, create_src, new_evt, alloc_ps_msg) bound to a local is, on every path "
            "to the function exit, stored into a longer-lived object, handed to a consuming callee (container insert, pipe write, push_evt, "
            "pthread_setspecific), returned, or released; when a container insert's result is tested, its failing arm releases", floor=10)
    nown = 0
    for f in core:
        for ev in f.events():
            if ev.kind in ("decl", "assign") and ev.rhs is not None and strip(ev.rhs)["k"] == "call" and \
                    strip(ev.rhs).get("callee") in (FRESH | {"m_mem_ref"}) and strip(ev.lhs)["k"] == "var":
                var = S(ev.lhs)
                nown += 1
                ck.analysed(f)
                bad = None
                twice = None
                n = 0
                aliases = {var}
                allocd = {S(d.lhs) for d in f.events() if d.kind in ("decl", "assign") and d.rhs is not None and d.lhs is not None
                          and strip(d.rhs)["k"] == "call" and (strip(d.rhs).get("callee") in ALLOCATORS or
                                                               (not strip(d.rhs).get("callee") and S(strip(d.rhs)["fn"]).startswith("memhook._")))}
                for path in f.paths(loop_fragments=True, prune=False):
                    feas, _env, a, evs = rules.simulate(f, path)
                    if not feas or ev not in evs:
                        continue
                    if a.get(var) is False:
                        continue
                    if any(a.get(x) is False for x in allocd):
                        continue      # an allocation failed on this path: outside the property's quantifier
                    if any(e.kind == "call" and e.callee in ("__assert_fail", "abort", "exit", "_exit") for e in evs):
                        continue      # the process aborts on this path (assert in the -UNDEBUG configuration)
                    last = path[-1][0]
                    if last != f.exit and not any(last == t and ev.block.id in f.natural_loop(t, h) for (t, h) in f.back_edges()):
                        # the path ends by going round a loop that does not contain the allocation: not the end of its scope
                        ends_exit = any(s == f.exit for s in f.blocks[last].succs if s is not None)
                        if not ends_exit:
                            continue
                    n += 1
                    rest = evs[evs.index(ev) + 1:]
                    done = None
                    al = set(aliases)
                    for e in rest:
                        if e.kind in ("decl", "assign") and e.rhs is not None and e.lhs is not None:
                            rs = S(e.rhs)
                            if rs in al or rs in ("&%s->evt" % x for x in al):
                                if rules.lvalue_class(e.lhs) == "local":
                                    if rs in al:
                                        al.add(S(e.lhs))
                                else:
                                    done = "stored into %s" % S(e.lhs)
                                    break
                        if e.kind == "call":
                            if e.callee in RELEASE and S(e.args[0]).lstrip("&") in al:
                                done = "released"
                                break
                            if e.callee in CONSUMERS and len(e.args) > CONSUMERS[e.callee] and S(e.args[CONSUMERS[e.callee]]) in al:
                                # a container insert whose result is tested does not consume on its failing arm
                                res = [d for d in rest if d.kind in ("decl", "assign") and d.rhs is not None and strip(d.rhs) is strip(e.e)
                                       or (d.kind in ("decl", "assign") and d.rhs is not None and d.block.id == e.block.id and d.idx == e.idx + 1
                                           and strip(d.rhs).get("callee") == e.callee)]
                                failed = False
                                if res and e.callee in ("m_bst_insert", "m_map_put"):
                                    rv_ = S(res[0].lhs)
                                    failed = a.get(rv_) is True or a.get("(%s == 0)" % rv_) is False
                                if not failed and e.callee in ("m_bst_insert", "m_map_put", "m_queue_enqueue", "m_list_insert", "m_stack_push"):
                                    # the result tested in place: `if (m_map_put(…) == 0) { … return 0; }`
                                    cs_ = S(e.e)
                                    failed = a.get(cs_) is True or a.get("(%s == 0)" % cs_) is False or a.get("(%s != 0)" % cs_) is True
                                if failed:
                                    continue
                                done = "consumed by %s" % e.callee
                                break
                            if e.callee == "write" and len(e.args) > 1 and S(e.args[1]).lstrip("&") in al:
                                done = "written to the pipe"
                                break
                            if e.callee is None and any(S(x) in al for x in e.args):
                                tg = cg.callees_of_event(e)
                                # process_cb(this, c, idx, evt) stores the payload into the event it is given: not an escape of evt itself
                                continue
                        if e.kind == "ret" and e.e is not None and S(e.e) in al:
                            done = "returned"
                            break
                    if done is None:
                        if any(a.get(x_) is False for x_ in al):
                            continue          # the object is NULL on this path (tested through a copy of the pointer)
                        bad = path
                        break
                # released once: after a container took the object over (an insert that succeeded on this path), this function does not
                # release it as well.  Own walk over the pruned paths: a result variable that is assigned again (`ret = insert(); if (!ret)
                # { ret = poll(); if (ret) …`) starts a new test.
                if strip(ev.rhs).get("callee") != "m_mem_ref":
                    for path in f.paths(loop_fragments=False):
                        given, pend = None, None
                        started = False
                        for (bid_, at_) in path:
                            for e in f.blocks[bid_].events:
                                if e is ev:
                                    started = True
                                    continue
                                if not started:
                                    continue
                                if e.kind in ("decl", "assign") and e.lhs is not None and S(e.lhs) == var and (e.kind == "decl" or e.e.get("op") == "="):
                                    started = False
                                    given = pend = None
                                    continue
                                if pend is not None and e.kind in ("decl", "assign", "incdec") and e.lhs is not None and S(e.lhs) == pend[1] \
                                        and not (e.rhs is not None and strip(e.rhs) is strip(pend[0].e)) \
                                        and not (e.rhs is not None and strip(e.rhs).get("callee") == pend[0].callee and e.block.id == pend[0].block.id):
                                    given, pend = pend[0], None      # the result was overwritten untested: the insert stands
                                if e.kind == "call" and e.callee in ("m_bst_insert", "m_map_put", "m_queue_enqueue", "m_list_insert", "m_stack_push") \
                                        and len(e.args) > CONSUMERS.get(e.callee, 1) and S(e.args[CONSUMERS.get(e.callee, 1)]) == var and given is None:
                                    res_ = [d for d in f.blocks[bid_].events if d.kind in ("decl", "assign") and d.rhs is not None and
                                            (strip(d.rhs) is strip(e.e) or (strip(d.rhs).get("callee") == e.callee and d.idx == e.idx + 1))]
                                    pend = (e, S(res_[0].lhs) if res_ else S(e.e))
                                    continue
                                if given is not None and e.kind == "call" and e.callee in RELEASE and S(e.args[0]).lstrip("&") == var and twice is None:
                                    twice = (path, e, given)
                            if pend is not None:
                                for (a_, p_) in at_:
                                    nm_ = pend[1]
                                    if a_ == nm_ or a_ == "(%s == 0)" % nm_ or a_ == "(%s != 0)" % nm_:
                                        zero = (a_ == nm_ and p_ is False) or (a_ == "(%s == 0)" % nm_ and p_ is True) or (a_ == "(%s != 0)" % nm_ and p_ is False)
                                        given, pend = (pend[0] if zero else None), None
                                        break
                        if twice is not None:
                            break
                if twice is not None:
                    ck.ob("C04.3-OWN", f.site("own %s released once" % var), False,
                          "'%s' was handed to %s at line %d (the container owns it from there, and releases it when the element is removed) and is released "
                          "again at line %d on the same path: the object is freed while the container — or the removal that just ran — still refers to it"
                          % (var, twice[2].callee, twice[2].line, twice[1].line), path=rules.fmt_path(f, twice[0]))
                ck.ob("C04.3-OWN", f.site("own %s=%s" % (var, strip(ev.rhs)["callee"])), bad is None and n > 0,
                      "%d path(s): the fresh object is stored, consumed, returned or released" % n if bad is None else
                      "fresh object '%s' (line %d) is dropped on this path without being stored or released: leak" % (var, ev.line),
                      path=rules.fmt_path(f, bad) if bad else None)
    ck.need(nown >= 8, "only %d allocation sites bound to locals found" % nown)
    # the other end of a hand-over: a function that takes ownership of a container parameter releases it on every path
    # (call_pubsub_cb owes its callers the m_queue_free of the event queue they built)
    for (fname, pidx, rel) in (("call_pubsub_cb", 1, "m_queue_free"),):
        f = P.fn(fname)
        ck.analysed(f)
        pn_ = f.params[pidx]["name"]
        rl = [e for e in f.calls(rel) if S(e.args[0]) == "&" + pn_]

        def step_rel(st, ev, rl=rl):
            return st | {"released"} if ev in rl else st
        INr = rules.tag_analysis(f, step_rel, must=True)
        okr_ = bool(rl) and f.exit in INr and "released" in INr[f.exit]
        ck.ob("C04.3-OWN", f.site("consumes %s" % pn_), okr_,
              "every path through %s releases the %s it was handed (%s)" % (fname, pn_, rel) if okr_ else
              "%s can return without %s(&%s): its callers built that queue for it and never release it themselves — the queue (and the events in it) "
              "leak on that path" % (fname, rel, pn_))

    # ------------------------------------------------------------------ 4. nullable fields (contradiction rule)
    ck.rule("C04.4-NULLABLE", "R-NULLABLE: for the pointer fields of core structs that are sometimes NULL (a NULL store or a NULL test exists): a "
            "loaded value handed to a callee is dereferenced there only under a non-NULL test (callee summary, one level). Frozen exceptions: "
            "ev_src_t.mod in task_thread (task sources are always module-owned), epoll_priv_t.pevents (valid between poll_init and poll_clear)", floor=6)
    nullable = {("_ev_src", "mod"): "ctx sources are created with mod = NULL", ("_mod", "subscriptions"): "lazily created, freed when empty",
                ("_ctx", "thpool"): "lazily created", ("ctx_tick_t", "src"): "only when a tick is set", ("_ev_src", "ev"): "only while polled",
                ("_ctx", "curr_mod"): "only inside a callback"}
    for (rec, fld), why in nullable.items():
        P.field(rec, fld)
    exceptions = {("task_thread", "_ev_src", "mod")}
    nl = 0
    for f in core:
        for ev in f.calls():
            for i, a in enumerate(ev.args):
                sa = strip(a)
                if sa is None or sa["k"] != "member" or (sa.get("rec"), sa["field"]) not in nullable:
                    continue
                nl += 1
                facts = X.facts(f, ev)
                if has(facts, S(sa)):
                    continue
                for t in cg.callees_of_event(ev):
                    if isinstance(t, Func) and i < len(t.params):
                        d = unguarded_derefs(X, t, t.params[i]["name"])
                        ck.ob("C04.4-NULLABLE", f.site("%s(%s)" % (t.name, S(sa))), not d,
                              "%s tolerates NULL for '%s' (%s)" % (t.name, S(sa), nullable[(sa["rec"], sa["field"])]) if not d else
                              "'%s' may be NULL (%s) and %s dereferences it unconditionally: %s at line %d" % (S(sa), nullable[(sa["rec"], sa["field"])], t.name, d[0][1], d[0][0]),
                              nontrivial=bool(d))
        # direct dereference  X->field->...
        for ev in f.events():
            e = ev.e if ev.kind != "decl" else ev.rhs
            if e is None:
                continue
            for nnode in walk(e):
                if nnode.get("k") == "member" and nnode["arrow"]:
                    b = strip(nnode["base"])
                    if b is not None and b["k"] == "member" and (b.get("rec"), b["field"]) in nullable:
                        nl += 1
                        if (f.name, b["rec"], b["field"]) in exceptions:
                            ck.ob("C04.4-NULLABLE", f.site("%s->%s" % (S(b), nnode["field"])), True, "frozen exception: task sources are module-owned", nontrivial=False)
                            continue
                        facts = X.facts(f, ev)
                        ok = has(facts, S(b)) or _expr_guarded(e, S(b)) or \
                            any(a.startswith("m_mod_is(%s, " % S(b)) and p for (a, p) in facts)     # m_mod_is(NULL, …) is false
                        ck.ob("C04.4-NULLABLE", f.site("%s->%s" % (S(b), nnode["field"])), ok,
                              "dereference of nullable '%s' at line %d %s" % (S(b), ev.line, "under a non-NULL test" if ok else "WITHOUT a test"))
    ck.need(nl >= 6, "only %d loads of nullable fields found" % nl)

    # ------------------------------------------------------------------ 5. no use of a local after the unref that may free it
    ck.rule("C04.5-USE-AFTER-UNREF", "R-PAIR: within one function, after m_mem_unref(x)/m_mem_unrefp(&x) of a local that this function did not "
            "itself reference (M_MEM_LOCK), neither x nor a local derived from x's fields is dereferenced before being re-assigned", floor=5)
    nu = 0
    for f in core:
        unrefs = [e for e in f.calls({"m_mem_unref", "m_mem_unrefp"}) if strip(e.args[0]) is not None]
        if not unrefs:
            continue
        # locals derived from another local:  y = x->f / y = &x->f
        derived = {}
        for d in f.events():
            if d.kind in ("decl", "assign") and d.rhs is not None and d.lhs is not None and strip(d.lhs)["k"] == "var":
                r = strip(d.rhs)
                while r is not None and r["k"] == "un" and r["op"] == "&":
                    r = strip(r["e"])
                root = r
                while root is not None and root["k"] == "member":
                    root = strip(root["base"])
                if r is not None and r["k"] == "member" and root is not None and root["k"] == "var" and root.get("vk") in ("local", "param"):
                    derived.setdefault(root["name"], set()).add(S(d.lhs))
        locked = {S(e.args[0]) for e in f.calls("m_mem_ref") if strip(e.args[0])["k"] == "var"}
        for u in unrefs:
            a = strip(u.args[0])
            if a["k"] == "un" and a["op"] == "&":
                a = strip(a["e"])
            if a["k"] != "var" or a.get("vk") not in ("local", "param"):
                continue
            x = a["name"]
            if u.callee == "m_mem_unrefp":
                continue       # pointer is set to NULL by unrefp
            if x in locked:
                # this function's own temporary reference (M_MEM_LOCK): the object stays owned by someone else — unless a user callback ran
                # under the lock, which may have dropped every other reference (deregistration inside the hook)
                refs = [e for e in f.calls("m_mem_ref") if S(e.args[0]) == x]
                cb_between = any(X.kills_state(e) for r in refs for e in rules.events_between(f, r, u))
                if not cb_between:
                    continue
            nu += 1
            ck.analysed(f)
            dead = {x} | derived.get(x, set())

            def step(st, ev, u=u, dead=dead):
                if ev is u:
                    return st | {"dead"}
                if ev.kind in ("decl", "assign") and ev.lhs is not None and S(ev.lhs) in dead and (ev.kind == "decl" or ev.e["op"] == "="):
                    if S(ev.lhs) == x:
                        return st - {"dead"}
                if ev.kind == "call" and any(S(a) == "&" + x for a in ev.args):
                    return st - {"dead"}    # out-parameter: the callee stores a new value (read(fd, &x, …))
                return st
            IN = rules.tag_analysis(f, step, must=False)
            bad = None
            for ev in f.events():
                if ev is u:
                    continue
                st = f.state_before(IN, ev, step)
                if not st or "dead" not in st:
                    continue
                e = ev.e if ev.kind != "decl" else ev.rhs
                if e is None:
                    continue
                if ev.kind == "call" and ev.callee not in ("m_mem_ref", "m_mem_unref", "m_mem_unrefp"):
                    # handing the released object to a callee that dereferences that parameter
                    for i, a_ in enumerate(ev.args):
                        sa_ = strip(a_)
                        if sa_ is not None and sa_["k"] == "var" and sa_["name"] in dead:
                            for t_ in cg.callees_of_event(ev):
                                if isinstance(t_, Func) and i < len(t_.params) and _derefs_param(t_, t_.params[i]["name"]):
                                    bad = (ev, sa_["name"])
                if bad:
                    break
                for nnode in walk(e):
                    b = None
                    if nnode.get("k") == "member" and nnode["arrow"]:
                        b = strip(nnode["base"])
                    elif nnode.get("k") == "un" and nnode["op"] == "*":
                        b = strip(nnode["e"])
                    if b is not None and b["k"] == "var" and b["name"] in dead:
                        if ev.kind in ("decl", "assign") and S(ev.lhs) == b["name"]:
                            continue
                        bad = (ev, b["name"])
                        break
                if bad:
                    break
            ck.ob("C04.5-USE-AFTER-UNREF", f.site("after unref(%s)@%d" % (x, _ordinal(f, u))), bad is None,
                  "nothing derived from '%s' is dereferenced after its release at line %d" % (x, u.line) if bad is None else
                  "'%s' (derived from '%s') is dereferenced at line %d after m_mem_unref(%s) at line %d may have freed it" % (bad[1], x, bad[0].line, x, u.line))
    ck.need(nu >= 5, "only %d local releases found" % nu)

    # the hook may have deregistered (and, with the last user reference, destroyed) the module: start()/stop() see it as -ENOENT from
    # optional_hook and must hand a non-zero result back, because their public callers touch the module again only under `ret == 0`
    for fname in ("start", "stop"):
        fx = P.fn(fname, "Lib/core/mod.c")
        ck.analysed(fx)
        badr = None
        nr = 0
        hooks_ = [e for e in fx.events() if e.kind in ("assign", "decl") and e.rhs is not None and strip(e.rhs).get("callee") == "optional_hook"]
        ck.need(hooks_, "%s no longer binds the result of optional_hook" % fname)
        hv = S(hooks_[0].lhs)
        for path in fx.paths():
            evs_ = list(rules.path_events(fx, path))
            if hooks_[0] not in evs_:
                continue
            asm = rules.path_assumes_after(path, hooks_[0])
            # the hook's verdict on this path: 0 (fine), -1 (refused start) or "the module is gone" — spelt as a switch case, an if chain or an else
            ok0 = asm.get("(%s == 0)" % hv) is True or asm.get(hv) is False
            okm1 = asm.get("(%s == -1)" % hv) is True
            gone = asm.get("(%s == -2)" % hv) is True or (not ok0 and not okm1 and (asm.get(hv) is True or asm.get("(%s == 0)" % hv) is False))
            if not gone:
                continue
            rets_ = [e for e in evs_ if e.kind == "ret" and e.e is not None]
            if not rets_:
                continue
            nr += 1
            if cval(rets_[-1].e) == 0:
                badr = path
        ck.ob("C04.5-USE-AFTER-UNREF", fx.site("-ENOENT handed back"), badr is None and nr > 0,
              "%d path(s) on which the hook deregistered the module return a non-zero result" % nr if badr is None else
              "%s() returns 0 although its hook deregistered the module (optional_hook == -ENOENT): m_mod_%s() then walks mod->bound_mods of a module "
              "that may already be freed" % (fname, fname), path=rules.fmt_path(fx, badr) if badr else None)
    for fname in ("m_mod_start", "m_mod_stop", "m_mod_pause", "m_mod_resume"):
        fx = P.fn(fname, "Lib/core/mod.c")
        ck.analysed(fx)
        inner = [e for e in fx.events() if e.kind in ("decl", "assign") and e.rhs is not None and strip(e.rhs).get("callee") in ("start", "stop")]
        ck.need(len(inner) == 1, "%s no longer binds the result of start()/stop()" % fname)
        rv_ = S(inner[0].lhs)
        uses = [e for e in fx.events() if e is not inner[0] and fx.ev_dominates(inner[0], e) and e.kind != "ret" and
                any(x.get("k") == "var" and x.get("name") == fx.params[0]["name"] for x in walk(e.e if e.kind != "decl" else (e.rhs or {})))]
        oku = all(has(X.facts(fx, e, passed=True), rv_, False) or has(X.facts(fx, e, passed=True), "(%s == 0)" % rv_) for e in uses)
        ck.ob("C04.5-USE-AFTER-UNREF", fx.site("module touched only after success"), oku,
              "%s touches the module after %s() only under %s == 0 (%d use(s))" % (fname, strip(inner[0].rhs)["callee"], rv_, len(uses)) if oku else
              "%s uses the module after %s() without testing its result: the hook may have destroyed it" % (fname, strip(inner[0].rhs)["callee"]))

    # ------------------------------------------------------------------ allocation sizes
    ck.rule("C04.8-ALLOC-SIZE", "R-LAYOUT: a block obtained with a constant size (m_mem_new / memhook._calloc / _malloc) and bound to a pointer to a record "
            "is at least as large as that record (sizeof of the pointer instead of the pointee is the classic slip): later field stores stay inside "
            "the block", floor=10)
    nal = 0
    for f in P.funcs:
        for ev in f.events():
            if ev.kind not in ("decl", "assign") or ev.rhs is None or ev.lhs is None:
                continue
            r_ = strip(ev.rhs)
            if r_["k"] != "call":
                continue
            cal = r_.get("callee") or S(r_["fn"])
            if cal == "m_mem_new":
                n_ = cval(r_["args"][0])
            elif cal.endswith("_calloc") or cal == "calloc":
                a_, b_ = cval(r_["args"][0]), cval(r_["args"][1])
                n_ = a_ * b_ if a_ is not None and b_ is not None else None
            elif cal.endswith("_malloc") or cal == "malloc":
                n_ = cval(r_["args"][0])
            else:
                continue
            if n_ is None:
                continue
            lt = (strip(ev.lhs).get("ct") or strip(ev.lhs).get("t") or "") if ev.kind == "assign" else (ev.e.get("ct") or ev.e.get("t") or "")
            lt2 = (strip(ev.lhs).get("t") or "") if ev.kind == "assign" else (ev.e.get("t") or "")
            rec = None
            for cand_t in (lt2, lt):
                base = cand_t.replace("const ", "").strip()
                if base.count("*") != 1:
                    continue
                base = base.replace("*", "").replace("struct ", "").strip()
                rec = P.records_by_unit.get((f.unit, base)) or P.records.get(base)
                if rec:
                    break
            if not rec or not rec.get("size"):
                continue
            nal += 1
            ck.analysed(f)
            ok_ = n_ >= rec["size"]
            ck.ob("C04.8-ALLOC-SIZE", f.site("%s = %s(%d)" % (_tail(S(ev.lhs)), cal.split(".")[-1], n_)), ok_,
                  "%d bytes for a '%s' of %d bytes" % (n_, rec["name"], rec["size"]) if ok_ else
                  "%d bytes are allocated for '%s', whose record '%s' needs %d: the fields stored later (by this function or by the consumer of the object) "
                  "land beyond the block" % (n_, S(ev.lhs), rec["name"], rec["size"]))
    ck.need(nal >= 10, "only %d constant-size record allocations found" % nal)

    ck.rule("C04.5-REG-REF-UNDER-LOCK", "R-PAIR: the call that drops a module's registration reference (removal from the context's module map, whose "
            "destructor is mem_dtor) happens only while the function holds its own temporary reference on that module and keeps using it afterwards", floor=1)
    nrm = 0
    for f in core:
        rms = [e for e in f.calls("m_map_remove") if S(e.args[0]).endswith("->modules")]
        for e in rms:
            nrm += 1
            ck.analysed(f)
            # module variable: the one whose ->name is the key
            key = strip(e.args[1])
            mv = S(key["base"]) if key["k"] == "member" and key["field"] == "name" else None

            def step_r(st, ev, mv=mv):
                if ev.kind == "call" and ev.callee == "m_mem_ref" and mv and S(ev.args[0]) == mv:
                    return st | {"pinned"}
                if ev.kind == "call" and ev.callee == "m_mem_unref" and mv and S(ev.args[0]) == mv:
                    return st - {"pinned"}
                return st
            INr = rules.tag_analysis(f, step_r, must=True)
            stt = f.state_before(INr, e, step_r)
            ok = mv is not None and stt is not None and "pinned" in stt
            ck.ob("C04.5-REG-REF-UNDER-LOCK", f.site("m_map_remove(modules) pinned"), ok,
                  "registration reference of '%s' dropped at line %d while a temporary reference is held" % (mv, e.line) if ok else
                  "the module is removed from the context's map at line %d (dropping what may be its last reference) before the function pinned it: "
                  "everything the function does with it afterwards reads freed memory" % e.line)
    ck.need(nrm >= 1, "removal from the module map vanished")

    # ------------------------------------------------------------------ 6. destructor completeness
    ck.rule("C04.6-DTOR-COMPLETE", "R-RESET-ALL flavour: module_dtor and ctx_dtor release every owning field of their struct: each container field "
            "through its *_free, the context reference, name/userdata under their AUTOFREE flags", floor=10)
    for (dn, rec, var) in (("module_dtor", "_mod", "mod"), ("ctx_dtor", "_ctx", "context")):
        d = P.fn(dn)
        ck.analysed(d)
        r = P.record(rec)
        for fl in r["fields"]:
            t = fl["t"].replace("const ", "")
            base_t = t.split("[")[0].strip()
            if base_t in CONTAINER_FREE:
                fn = CONTAINER_FREE[base_t]
                evs = [e for e in d.calls(fn) if S(e.args[0]).startswith("&%s->%s" % (var, fl["name"]))]
                if fl["name"] == "thpool":
                    continue
                ck.ob("C04.6-DTOR-COMPLETE", d.site("free " + fl["name"]), bool(evs), "%s(&%s->%s) %s" % (fn, var, fl["name"], "present" if evs else "MISSING: the container leaks"),
                      witness=[("del_event", d.unit, d.name, e.block.id, e.idx) for e in evs])
        for fld, flag in (("name", "NAME_AUTOFREE"), ("userdata", "USERDATA_AUTOFREE")):
            fr = [e for e in d.events() if is_free_call(e) and S(e.args[0]) == "%s->%s" % (var, fld)]
            ok = len(fr) == 1 and any(("flags & " in a) and p for (a, p) in X.facts(d, fr[0]))
            ck.ob("C04.6-DTOR-COMPLETE", d.site("free %s under flag" % fld), ok, "%s->%s freed only under its AUTOFREE flag: %s" % (var, fld, ok))
    md = P.fn("module_dtor")
    ck.ob("C04.6-DTOR-COMPLETE", md.site("unref ctx"), any(S(e.args[0]) == "mod->ctx" for e in md.calls("m_mem_unref")), "module drops its context reference", nontrivial=False)
    cd = P.fn("ctx_dtor")
    ck.ob("C04.6-DTOR-COMPLETE", cd.site("poll+tick"), bool(list(cd.calls("poll_destroy"))) and bool(list(cd.calls("deregister_ctx_src"))),
          "context releases its poll handle and tick source", nontrivial=False)

    # ------------------------------------------------------------------ 7. layout assumptions behind the casts
    ck.rule("C04.7-LAYOUT", "R-LAYOUT: offsetof(ps_priv_t, msg) == 0 (evt_dtor releases the message through evt.ps_evt), offsetof(evt_priv_t, evt) == 0 "
            "(m_mod_stash casts the user's m_evt_t* back), every payload member of m_evt_t's union is a pointer at one offset (evt_dtor releases all "
            "payloads through fd_evt)", floor=3)
    ck.ob("C04.7-LAYOUT", "Lib/core/src.h:ps_priv_t.msg", P.field("ps_priv_t", "msg")["off"] == 0, "offsetof(ps_priv_t, msg) = %d" % P.field("ps_priv_t", "msg")["off"])
    ck.ob("C04.7-LAYOUT", "Lib/core/evts.h:evt_priv_t.evt", P.field("_ev_priv", "evt")["off"] == 0, "offsetof(evt_priv_t, evt) = %d" % P.field("_ev_priv", "evt")["off"])
    me = P.record("m_evt_t")
    un = [f for f in me["fields"] if f["in_union"]]
    oku = len(un) == 8 and len({f["off"] for f in un}) == 1 and all(f["is_ptr"] and f["size"] == 8 for f in un)
    ck.ob("C04.7-LAYOUT", "Lib/core/public/module/mod.h:m_evt_t payload union", oku, "%d union members at offset(s) %s, all pointers: %s" % (len(un), sorted({f["off"] for f in un}), oku))

    ck.not_decided += ["absence of use-after-free/double-free for arbitrary histories", "leaks at context teardown as a whole",
                       "behaviour on allocation failure (outside the quantifier)"]


def _ordinal(f, ev):
    n = 0
    for e in f.events():
        if e.kind == "call" and e.callee == ev.callee and S(e.args[0]) == S(ev.args[0]):
            n += 1
            if e is ev:
                return n
    return 0


def _tail(lv):
    parts = lv.split("->")
    return "->".join(parts[-2:]) if len(parts) > 1 else lv


def _expr_guarded(e, target):
    from props.c02 import _guarded_in_expr
    return _guarded_in_expr(e, target)


def _derefs_param(f, name):
    for ev in f.events():
        e = ev.e if ev.kind != "decl" else ev.rhs
        if e is None:
            continue
        for n in walk(e):
            if n.get("k") == "member" and n["arrow"] and strip(n["base"]) is not None and strip(n["base"]).get("k") == "var" and strip(n["base"])["name"] == name:
                return True
            if n.get("k") == "un" and n["op"] == "*" and strip(n["e"]) is not None and strip(n["e"]).get("k") == "var" and strip(n["e"])["name"] == name:
                return True
    return False
