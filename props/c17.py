"""C17 — become / unbecome (DESIGN §4 C17)."""
import lm
import rules
from lm import S, strip, cval, walk
from props.common import Ctx, has, fmt_facts, check_guarded_entry, guard_retvals
from props.reset import reset_obligations

LEVEL = "other"
U = "Lib/core/evts.c"


def run(ck, P):
    X = Ctx(P)
    bc = P.fn("m_mod_become", U)
    ub = P.fn("m_mod_unbecome", U)
    cb = P.fn("call_pubsub_cb")
    ck.analysed(bc, ub, cb)

    # ------------------------------------------------------------------ 1. only stack operations touch the handler stack
    ck.rule("C17.1-WHO-TOUCHES", "R-WHO-CALLS: _mod.recvs is used only as: m_stack_push in m_mod_become, m_stack_pop in m_mod_unbecome, "
            "m_stack_peek in call_pubsub_cb, m_stack_clear in reset_module, creation in m_mod_register, m_stack_free in module_dtor", floor=5)
    allowed = {("m_mod_become", "m_stack_push"), ("m_mod_unbecome", "m_stack_pop"), ("call_pubsub_cb", "m_stack_peek"),
               ("reset_module", "m_stack_clear"), ("module_dtor", "m_stack_free"), ("m_mod_register", "m_stack_new")}
    seen = set()
    for f in P.funcs:
        for ev in f.events():
            e = ev.e if ev.kind != "decl" else ev.rhs
            if e is None:
                continue
            if not any(n.get("k") == "member" and n.get("field") == "recvs" and n.get("rec") == "_mod" for n in walk(e)):
                continue
            if ev.kind == "call":
                key = (f.name, ev.callee)
            elif ev.kind == "assign":
                key = (f.name, strip(ev.rhs).get("callee") if strip(ev.rhs)["k"] == "call" else "store")
            elif ev.kind in ("decl", "ret"):
                continue    # value flows into a local / is returned: the call event itself was classified
            else:
                key = (f.name, ev.kind)
            if key[1] is None:
                key = (f.name, "indirect")
            if key in seen:
                continue
            seen.add(key)
            ck.analysed(f)
            ck.ob("C17.1-WHO-TOUCHES", f.site("recvs:%s" % key[1]), key in allowed, "%s uses mod->recvs through %s at line %d" % (f.name, key[1], ev.line),
                  nontrivial=False)
    for b in [b for f in P.funcs for b in f.blocks.values() if b.term and b.term.get("cond") is not None]:
        pass
    must_see = {("m_mod_become", "m_stack_push"), ("m_mod_unbecome", "m_stack_pop"), ("call_pubsub_cb", "m_stack_peek")}
    if ("call_pubsub_cb", "m_stack_peek") not in seen:
        # the dispatcher no longer looks at the handler stack: whatever else it consults (a cached "current handler" field) has to be kept
        # in step by every operation that changes the stack — stop's reset among them
        cbf_ = P.fn("call_pubsub_cb", required=False)
        if cbf_ is not None:
            ucs_ = rules.indirect_calls(P, cbf_, "USERCB")
            srcs_ = set()
            for uc_ in ucs_:
                h_ = strip(uc_.e["fn"])
                srcs_ |= rules.value_sources(cbf_, h_["name"]) if h_["k"] == "var" else {S(h_)}
            ck.rule("C17.2-SELECTION", "dataflow in call_pubsub_cb: the handler invoked is the top of mod->recvs read at dispatch, or hook.on_evt when the "
                    "stack is empty", floor=1)
            ck.ob("C17.2-SELECTION", cbf_.site("handler read from the stack at dispatch"), False,
                  "call_pubsub_cb picks its handler from %s without consulting mod->recvs: the stack (pushed by become, popped by unbecome, emptied when "
                  "the module stops) and the handler actually invoked can disagree — after become; stop; start the old handler still receives every "
                  "event" % sorted(srcs_))
    ck.need(must_see <= seen, "handler-stack anchor vanished: %s" % sorted(must_see - seen))

    # ------------------------------------------------------------------ 2. selection at delivery time
    ck.rule("C17.2-SELECTION", "dataflow in call_pubsub_cb: the handler invoked is the value of m_stack_peek(mod->recvs) read once before the "
            "call or, when that is NULL, hook.on_evt; the stack is not read again after the call (a change made by the handler affects "
            "the next invocation only)", floor=1)
    ucalls = rules.indirect_calls(P, cb, "USERCB")
    ck.need(len(ucalls) == 1, "call_pubsub_cb must contain exactly one handler invocation")
    uc = ucalls[0]
    hv = strip(uc.e["fn"])
    ok = hv["k"] == "var" and hv.get("vk") == "local"
    det = "handler expression %s" % S(hv)
    if ok:
        # ultimate definitions of the handler value, looking through copies between locals (the selection may live in an inlined helper)
        seen_names, todo, srcs = set(), [hv["name"]], []
        while todo:
            nm_ = todo.pop()
            if nm_ in seen_names:
                continue
            seen_names.add(nm_)
            for d in cb.events():
                if d.kind in ("decl", "assign") and d.lhs is not None and S(d.lhs) == nm_ and d.rhs is not None:
                    r_ = strip(d.rhs)
                    # `cb = peeked ? peeked : mod->hook.on_evt`: each arm is a source of its own, under the condition's outcome
                    arms_ = [(r_, None)] if r_["k"] != "cond" else [(strip(r_["a"]), (S(r_["c"]), True)), (strip(r_["b"]), (S(r_["c"]), False))]
                    for (x_, g_) in arms_:
                        if x_["k"] == "var" and x_.get("vk") in ("local", "param"):
                            todo.append(x_["name"])
                        else:
                            srcs.append((nm_, d, x_, g_))
        peek = [(n_, d) for (n_, d, x_, g_) in srcs if x_.get("callee") == "m_stack_peek" and S(x_["args"][0]) == "mod->recvs"]
        fall = [(n_, d, g_) for (n_, d, x_, g_) in srcs if S(x_) == "mod->hook.on_evt"]
        ok = len(srcs) == 2 and len(peek) == 1 and len(fall) == 1 and cb.ev_dominates(peek[0][1], uc) and S(uc.args[0]) == "mod"
        if ok:
            names_ = sorted(seen_names) + [S(peek[0][1].rhs)]
            under = any(has(X.facts(cb, fall[0][1]), nm__, False) for nm__ in names_) or \
                (fall[0][2] is not None and fall[0][2][1] is False and fall[0][2][0] in names_)
            ok = under
        later = [e for e in cb.calls("m_stack_peek") if cb.ev_dominates(uc, e)]
        ok = ok and not later
        det = "handler = %s, fallback %s under !%s, invoked with (%s, %s)" % ([S(d.rhs) for (_n, d) in peek], [S(d.rhs) for (_n, d, _g) in fall],
                                                                             fall[0][0] if fall else "?", S(uc.args[0]), S(uc.args[1]) if len(uc.args) > 1 else "")
    ck.ob("C17.2-SELECTION", cb.site("handler selection"), ok, det)

    # ------------------------------------------------------------------ 3. guards
    ck.rule("C17.3-GUARDS", "R-GUARD: become/unbecome act only for a live, same-thread, RUNNING module; become rejects a NULL handler with "
            "-EINVAL and pushes exactly its argument; unbecome pops once and returns 0 only when the pop yielded a handler, else -EINVAL", floor=10)
    run_atom = ("m_mod_is(mod, %d)" % X.RUNNING, True)
    for f in (bc, ub):
        check_guarded_entry(ck, X, f, "C17.3-GUARDS", X.mod_assert_atoms("mod") + [(run_atom, -13)], f.name)
    hp = bc.params[1]["name"]
    g = guard_retvals(bc, hp, True)
    push = [e for e in bc.calls("m_stack_push")]
    okb = bool(g) and all(x.retval == -22 for x in g) and len(push) == 1 and S(push[0].args[0]) == "mod->recvs" and S(push[0].args[1]) == hp \
        and push[0].block.id not in bc.in_loop_blocks()
    ck.ob("C17.3-GUARDS", bc.site("push argument"), okb, "NULL handler -> %s; pushes %s" % ([x.retval for x in g], [S(e.args[1]) for e in push]))
    pops = list(ub.calls("m_stack_pop"))
    bad = None
    n = 0
    for path in ub.paths():
        evs = list(rules.path_events(ub, path))
        if not any(e in pops for e in evs):
            continue
        n += 1
        rets = [cval(e.e) for e in evs if e.kind == "ret"]
        a = rules.path_assumes(path)
        popped = a.get("m_stack_pop(mod->recvs)")
        npop = sum(1 for e in evs if e in pops)
        if npop != 1:
            bad = ("pops %d times" % npop, path)
        elif popped is True and rets != [0]:
            bad = ("pop yielded a handler but %s is returned" % rets, path)
        elif popped is False and rets != [-22]:
            bad = ("empty stack but %s is returned" % rets, path)
        elif popped is None:
            bad = ("result of the pop is not tested", path)
        if bad:
            break
    ck.ob("C17.3-GUARDS", ub.site("pop result"), bad is None and n > 0, "%d path(s): 0 iff a handler was popped, else -EINVAL" % n if bad is None else bad[0],
          path=rules.fmt_path(ub, bad[1]) if bad else None)

    # ------------------------------------------------------------------ 4. reset on stop
    ck.rule("C17.4-STOP-RESETS", "R-RESET-ALL: stop(mod, stopping) always runs reset_module, which clears mod->recvs", floor=3)
    reset_obligations(ck, P, X, "C17.4-STOP-RESETS", containers=[("recvs", "m_stack_clear")])
    ck.not_decided += ["LIFO behaviour of the stack container itself (C12)"]
