"""C01 — module lifecycle state machine, callback pairing (DESIGN §4 C01)."""
import lm
import rules
from lm import S, strip, cval, atoms
from props.common import Ctx, has, guard_retvals, fmt_facts, check_guarded_entry
from units import AnalysisBroken

LEVEL = "other"


def run(ck, P):
    X = Ctx(P)
    cg = X.cg
    E = P.enums

    # ------------------------------------------------------------------ 1. transition guards
    ck.rule("C01.1-GUARD", "R-GUARD-TABLE: each public state setter reaches start()/stop() only under M_MOD_ASSERT "
            "(non-NULL -EINVAL, not ZOMBIE -EACCES, same-thread ctx -EPERM) and m_mod_is(mod, MASK) with MASK from "
            "docs/concepts/mod.md (start: IDLE|STOPPED, pause: RUNNING, resume: PAUSED, stop: RUNNING|PAUSED), failing "
            "-EACCES before any effect; the transition body gets the documented starting/stopping flag", floor=16)
    table = [
        ("m_mod_start", X.IDLE | X.STOPPED, "start", 1),
        ("m_mod_pause", X.RUNNING, "stop", 0),
        ("m_mod_resume", X.PAUSED, "start", 0),
        ("m_mod_stop", X.RUNNING | X.PAUSED, "stop", 1),
    ]
    for (name, mask, body, flag) in table:
        fn = P.fn(name)
        ck.analysed(fn)
        needed = X.mod_assert_atoms("mod") + [(("m_mod_is(mod, %d)" % mask, True), -13)]
        check_guarded_entry(ck, X, fn, "C01.1-GUARD", needed, name)
        calls = rules.find_calls(fn, body)
        ck.need(len(calls) >= 1, "%s no longer calls %s()" % (name, body))
        ck.call_sites += len(calls)
        for ev in calls:
            a0 = S(ev.args[0]) if ev.args else "?"
            fl = rules.const_arg(ev, 1)
            ck.ob("C01.1-GUARD", fn.site("%s(%s)" % (body, "flag")), a0 == "mod" and fl == flag,
                  "%s calls %s(%s, %s); documented transition needs (%s, %s)" % (name, body, a0, fl, "mod", flag),
                  nontrivial=False)
        # the opposite body must not be called directly
        other = "stop" if body == "start" else "start"
        oc = rules.find_calls(fn, other)
        ck.ob("C01.1-GUARD", fn.site("no-" + other), not oc, "%s must not call %s() directly" % (name, other), nontrivial=False)

    # ------------------------------------------------------------------ 2. who writes the state
    ck.rule("C01.2-STATEWR", "R-WHO-WRITES: _mod.state is stored only by start (=RUNNING), stop (=stopping ? STOPPED : PAUSED), "
            "mod_deregister (=ZOMBIE) and m_mod_register (=IDLE)", floor=4)
    allowed = {
        "start": {X.RUNNING}, "stop": {X.STOPPED, X.PAUSED}, "mod_deregister": {X.ZOMBIE}, "m_mod_register": {X.IDLE},
    }
    seen_vals = set()
    for ev in P.writes_to_field("_mod", "state"):
        fn = ev.fn
        ck.analysed(fn)
        vals = set()
        r = strip(ev.rhs) if ev.kind == "assign" else None
        desc = S(ev.e)
        if ev.kind == "assign" and ev.e["op"] == "=" and r is not None:
            if r["k"] == "cond":
                va, vb = cval(r["a"]), cval(r["b"])
                vals = {va, vb}
                if fn.name == "stop":
                    # the selector must be the `stopping` parameter, STOPPED on its true arm
                    sel = S(r["c"])
                    okc = sel == (fn.params[1]["name"] if len(fn.params) > 1 else "?") and va == X.STOPPED and vb == X.PAUSED
                    ck.ob("C01.2-STATEWR", fn.site("state=cond"), okc,
                          "stop stores (%s ? %s : %s); documented: stopping ? STOPPED : PAUSED" % (sel, va, vb))
            else:
                vals = {cval(r)}
        else:
            vals = {None}
        okw = fn.name in allowed and vals <= allowed[fn.name]
        seen_vals |= {v for v in vals if v is not None}
        ck.ob("C01.2-STATEWR", fn.site("state=%s" % ",".join(str(v) for v in sorted(vals, key=str))), okw,
              "store '%s' at line %d in %s (allowed writers/values: %s)" % (desc, ev.line, fn.name, allowed))
    for v, n in ((X.IDLE, "IDLE"), (X.RUNNING, "RUNNING"), (X.PAUSED, "PAUSED"), (X.STOPPED, "STOPPED"), (X.ZOMBIE, "ZOMBIE")):
        ck.need(v in seen_vals, "no store of M_MOD_%s to _mod.state found (anchor vanished)" % n)

    # callers of start()/stop(): only along the documented edges, decided after the last user callback
    ck.rule("C01.2-EDGES", "R-GUARD(kill=USERCB/state writers): every call of a transition body happens under a must-fact "
            "m_mod_is(x, MASK) whose MASK lies inside the documented source states of that edge (start/starting: IDLE|STOPPED, "
            "start/resume: PAUSED, stop/pause: RUNNING, stop/stopping: RUNNING|PAUSED; mod_deregister: any state but ZOMBIE), "
            "established after the last call that may run a user callback (callbacks may call any setter)", floor=8)
    kill = X.state_kill()
    src_states = {("start", 1): X.IDLE | X.STOPPED, ("start", 0): X.PAUSED, ("stop", 0): X.RUNNING, ("stop", 1): X.RUNNING | X.PAUSED}
    for body in ("start", "stop"):
        for ev in P.calls_to(body):
            fn = ev.fn
            tgt = P.resolve(fn, body)
            if tgt is None or tgt.unit != "Lib/core/mod.c":
                continue
            ck.analysed(fn)
            ck.call_sites += 1
            arg = S(ev.args[0]) if ev.args else "?"
            flag = rules.const_arg(ev, 1)
            facts = X.facts(fn, ev, kill)
            allowed_mask = src_states.get((body, flag))
            ok = False
            why = ""
            if allowed_mask is None:
                why = "the starting/stopping flag is not a constant"
            for (a, p) in facts or ():
                if allowed_mask is not None and a.startswith("m_mod_is(%s, " % arg):
                    m = int(a[len("m_mod_is(%s, " % arg):-1])
                    if p and m and not (m & ~allowed_mask):
                        ok, why = True, a
                    if fn.name == "mod_deregister" and not p and (m & X.ZOMBIE):
                        ok, why = True, "!" + a
            ck.ob("C01.2-EDGES", fn.site("%s(%s,%s)" % (body, arg, flag)), ok,
                  ("guarded by %s" % why) if ok else "call %s(%s, %s) at line %d: no fact places the module in the source states "
                  "%s of this edge after the last user callback %s(facts %s)"
                  % (body, arg, flag, ev.line, allowed_mask, ("[" + why + "] ") if why else "", fmt_facts(facts)))

    ck.rule("C01.2-STORE-BEFORE-HOOK", "R-PAIR: in start()/stop() the new state is stored before any call that may run a user callback (the hook sees — "
            "and re-entrant calls are judged against — the new state; a deregistration inside the hook is not overwritten afterwards)", floor=2)
    for fname in ("start", "stop"):
        f = P.fn(fname, "Lib/core/mod.c")
        stores_ = [e for e in P.writes_to_field("_mod", "state") if e.fn is f]
        ucb = X.usercb_set()

        def step_u(st, ev):
            # the hook runners themselves (manage_srcs reaches call_pubsub_cb only through the never-delivering NULL-key flush, C02.8)
            if ev.kind == "call" and ev.callee in ("optional_hook", "call_pubsub_cb"):
                return st | {"cb"}
            if ev.kind == "call" and ev.callee is None and cg.event_may_reach(ev, ucb):
                return st | {"cb"}
            return st
        INu = rules.tag_analysis(f, step_u, must=False)
        late = [w for w in stores_ if "cb" in (f.state_before(INu, w, step_u) or ())]
        ck.ob("C01.2-STORE-BEFORE-HOOK", f.site("state store precedes callbacks"), bool(stores_) and not late,
              "the state store in %s() is not preceded by any call that may run a user callback" % fname if not late else
              "state store at line %d can execute after a user callback ran: while the hook runs the module still shows its old state (setters are "
              "accepted re-entrantly) and a ZOMBIE set by a deregistration inside the hook is overwritten" % late[0].line)

    # ------------------------------------------------------------------ 3. running counter pairing
    ck.rule("C01.3-COUNTER", "R-PAIR: stats.running_modules is written only by start (++ next to the RUNNING store, no call in "
            "between) and stop (-- exactly on paths where the module was RUNNING, before the state store)", floor=3)
    writers = list(P.writes_to_field("ctx_stats_t", "running_modules"))
    crec = "ctx_stats_t"
    if not writers:
        # the counter moved to another record of the context: found by its name
        for rn_, r_ in P.records.items():
            if any(fd_["name"] == "running_modules" for fd_ in r_.get("fields", [])):
                ws_ = list(P.writes_to_field(rn_, "running_modules"))
                if ws_:
                    writers, crec = ws_, rn_
                    break
    ck.need(writers, "no writer of ctx_stats_t.running_modules found")
    cfd = [fd_ for fd_ in P.record(crec)["fields"] if fd_["name"] == "running_modules"]
    ck.ob("C01.3-COUNTER", "Lib/core:%s.running_modules width" % crec, bool(cfd) and cfd[0].get("size", 0) >= 8,
          "the counter of RUNNING modules is %d bytes wide" % (cfd[0].get("size", 0) if cfd else 0) + ("" if cfd and cfd[0].get("size", 0) >= 8 else
          ": it wraps after %d running modules — the reported count no longer equals the number of RUNNING modules, and at a multiple of that the loop "
          "believes nothing runs and returns" % (1 << (8 * (cfd[0].get("size", 0) if cfd else 0)))), nontrivial=False)
    for ev in writers:
        fn = ev.fn
        op = ev.e.get("op")
        okw = (fn.name == "start" and ev.kind == "incdec" and op == "++") or (fn.name == "stop" and ev.kind == "incdec" and op == "--")
        ck.ob("C01.3-COUNTER", fn.site("running_modules" + str(op)), okw, "write '%s' at line %d in %s" % (S(ev.e), ev.line, fn.name), nontrivial=False)
    st_fn, sp_fn = P.fn("start", "Lib/core/mod.c"), P.fn("stop", "Lib/core/mod.c")
    ck.analysed(st_fn, sp_fn)
    # start: store RUNNING <-> ++ in the same block, no call between
    stores = [ev for ev in P.writes_to_field("_mod", "state") if ev.fn is st_fn]
    incs = [ev for ev in writers if ev.fn is st_fn]
    for sev in stores:
        pair = [i for i in incs if i.block.id == sev.block.id]
        ok = False
        det = "state = RUNNING at line %d has no running_modules++ in the same basic block" % sev.line
        if pair:
            lo, hi = sorted((sev.idx, pair[0].idx))
            between = [x for x in sev.block.events[lo + 1:hi] if x.kind == "call"]
            ok = not between
            det = "store at line %d and ++ at line %d are adjacent" % (sev.line, pair[0].line) if ok else \
                "call %s between RUNNING store and counter update" % S(between[0].e)
        ck.ob("C01.3-COUNTER", st_fn.site("RUNNING<->++"), ok, det, witness=[("del_event", st_fn.unit, st_fn.name, i.block.id, i.idx) for i in pair])
    ck.ob("C01.3-COUNTER", st_fn.site("++ only with store"), all(any(s.block.id == i.block.id for s in stores) for i in incs),
          "every running_modules++ sits next to a RUNNING store", nontrivial=False)
    # stop: path check
    stores = [ev for ev in P.writes_to_field("_mod", "state") if ev.fn is sp_fn]
    decs = [ev for ev in writers if ev.fn is sp_fn]
    ck.need(stores, "stop() lost its state store")
    run_atom = "m_mod_is(mod, %d)" % X.RUNNING
    bad = None
    npaths = 0
    for path in sp_fn.paths():
        evs = list(rules.path_events(sp_fn, path))
        ids = [id(e) for e in evs]
        if not any(id(s) in ids for s in stores):
            continue
        npaths += 1
        first_store = min(ids.index(id(s)) for s in stores if id(s) in ids)
        ndec = sum(1 for d in decs if id(d) in ids and ids.index(id(d)) < first_store)
        ndec_after = sum(1 for d in decs if id(d) in ids and ids.index(id(d)) > first_store)
        assumed = rules.path_assumes(path)
        if run_atom not in assumed:
            bad = ("path stores the new state without testing RUNNING", path)
        elif assumed[run_atom] and ndec != 1:
            bad = ("RUNNING module stopped with %d decrement(s) before the store" % ndec, path)
        elif not assumed[run_atom] and (ndec != 0):
            bad = ("non-RUNNING module decrements the counter", path)
        elif ndec_after:
            bad = ("decrement after the state store", path)
        if bad:
            break
    ck.ob("C01.3-COUNTER", sp_fn.site("RUNNING=>--"), bad is None,
          "all %d path(s) through the state store decrement exactly when RUNNING" % npaths if bad is None else bad[0],
          path=rules.fmt_path(sp_fn, bad[1]) if bad else None,
          witness=[("del_event", sp_fn.unit, sp_fn.name, d.block.id, d.idx) for d in decs])

    # ZOMBIE is final and is never entered from RUNNING: the only store of a state outside start/stop/registration is the ZOMBIE store of
    # mod_deregister, preceded by stop(m, true).  stop() runs on_stop(), which may call back into the library: a restart from there is
    # refused because (a) the module has already left the context's registry when stop() is called and (b) start() refuses, before any
    # effect, a module that is not registered in its context.
    md = P.fn("mod_deregister", "Lib/core/mod.c")
    ck.analysed(md)
    zs = [e for e in P.writes_to_field("_mod", "state") if e.fn is md]
    others = [e for e in P.writes_to_field("_mod", "state") if e.fn.name not in ("start", "stop", "mod_deregister", "m_mod_register")]
    ck.ob("C01.3-COUNTER", "Lib/core:_mod.state writers", not others and bool(zs) and all(cval(e.rhs) == E["M_MOD_ZOMBIE"] for e in zs),
          "state is stored only by start, stop, m_mod_register (IDLE) and mod_deregister (ZOMBIE): %s" % sorted({e.fn.name for e in P.writes_to_field("_mod", "state")}),
          nontrivial=False)
    rmv = [e for e in md.events() if e.kind in ("call", "assign", "decl") and
           ((e.kind == "call" and e.callee == "m_map_remove") or (e.kind != "call" and e.rhs is not None and strip(e.rhs).get("callee") == "m_map_remove"))]
    stp = list(md.calls("stop"))
    gate = [g for g in rules.bailouts(st_fn) if any(a.startswith("(m_map_get(") and a.endswith(" == mod)") and pol is True for (a, pol) in g.cont_atoms)]
    eff_st = [e for e in st_fn.events() if (e.kind in ("assign", "incdec") and rules.lvalue_class(e.lhs) != "local") or
              (e.kind == "call" and e.callee in ("init_pubsub_fd", "manage_srcs", "optional_hook"))]
    unguarded = [e for e in eff_st if not any(a.startswith("(m_map_get(") and pol is True for (a, pol) in (X.facts(st_fn, e, passed=True) or ()))]
    okz = bool(rmv) and bool(stp) and all(any(md.ev_dominates(r, s_) for r in rmv) for s_ in stp) and bool(gate) and all(g.retval is not None and g.retval < 0 for g in gate) \
        and not unguarded
    ck.ob("C01.3-COUNTER", md.site("no restart while deregistering"), okz,
          "the module leaves the registry before its final stop(), and start() refuses an unregistered module before any effect: on_stop() cannot bring the "
          "module back to RUNNING under the ZOMBIE store" if okz else
          "a module's on_stop() hook, run by its deregistration, can restart it (m_mod_start is accepted: %s): the ZOMBIE store then buries a RUNNING module — "
          "it stays counted in running_modules, keeps its pipe open and its sources polled"
          % ("start() has no registry-membership guard" if not gate else ("effect '%s' of start() precedes the guard" % S(unguarded[0].e)[:50] if unguarded else
                                                                           "stop() is called before the module left the registry")))

    # ------------------------------------------------------------------ 4. hook invocation sites
    ck.rule("C01.4-HOOKSITES", "R-WHO-CALLS + constants: hook.on_start/on_stop/on_eval are invoked only in optional_hook under "
            "the matching request (MOD_START/MOD_STOP/MOD_EVAL); optional_hook is called with MOD_START only from start under "
            "`starting`, MOD_STOP only from stop under `stopping`, MOD_EVAL only from evaluate_module under IDLE; never inside a loop",
            floor=6)
    for n in ("MOD_EVAL", "MOD_START", "MOD_STOP"):
        ck.need(n in E, "enum constant %s vanished" % n)
    oh = P.fn("optional_hook")
    ck.analysed(oh)
    hookmap = {"on_start": E["MOD_START"], "on_stop": E["MOD_STOP"], "on_eval": E["MOD_EVAL"]}
    found = set()
    for f in P.funcs:
        for ev in f.calls():
            if ev.callee is not None:
                continue
            fe = strip(ev.e["fn"])
            if fe is None or fe["k"] != "member" or fe.get("rec") != "m_mod_hook_t" or fe["field"] not in hookmap:
                continue
            ck.call_sites += 1
            found.add(fe["field"])
            req = oh.params[1]["name"] if len(oh.params) > 1 else "?"
            facts = X.facts(f, ev)
            okc = f is oh and has(facts, "(%s == %d)" % (req, hookmap[fe["field"]])) and ev.block.id not in f.in_loop_blocks()
            ck.ob("C01.4-HOOKSITES", f.site("hook." + fe["field"]), okc,
                  "hook.%s invoked at line %d in %s under %s" % (fe["field"], ev.line, f.name, fmt_facts(facts)))
    ck.need(found == set(hookmap), "hook invocation sites not found: %s" % (set(hookmap) - found))
    expected_callers = {
        E["MOD_START"]: ("start", "starting"), E["MOD_STOP"]: ("stop", "stopping"), E["MOD_EVAL"]: ("evaluate_module", None),
    }
    for ev in P.calls_to("optional_hook"):
        f = ev.fn
        ck.analysed(f)
        ck.call_sites += 1
        req = rules.const_arg(ev, 1)
        exp = expected_callers.get(req)
        facts = X.facts(f, ev)
        ok = exp is not None and f.name == exp[0] and ev.block.id not in f.in_loop_blocks()
        if ok and exp[1]:
            ok = has(facts, exp[1])
        if ok and f.name == "evaluate_module":
            ok = has(X.facts(f, ev, kill), "m_mod_is(mod, %d)" % X.IDLE)
        ck.ob("C01.4-HOOKSITES", f.site("optional_hook(%s)" % req), ok,
              "optional_hook(%s, %s) at line %d in %s under %s" % (S(ev.args[0]), req, ev.line, f.name, fmt_facts(facts)))

    # ------------------------------------------------------------------ 5. hooks run under a module reference
    ck.rule("C01.5-REFBRACKET", "R-PAIR: every user-callback call in optional_hook/call_pubsub_cb is bracketed by "
            "m_mem_ref(mod)…m_mem_unref(mod) and curr_mod = mod … curr_mod = NULL on every path; optional_hook re-tests ZOMBIE "
            "after the hook and reports it as -ENOENT", floor=3)
    for fname in ("optional_hook", "call_pubsub_cb"):
        f = P.fn(fname)
        ck.analysed(f)
        ucalls = rules.indirect_calls(P, f, "USERCB")
        ck.need(ucalls, "%s no longer calls a user callback" % fname)

        def step(st, ev):
            if ev.kind == "call" and ev.callee == "m_mem_ref" and ev.args and S(ev.args[0]) == "mod":
                return st | {"ref"}
            if ev.kind == "call" and ev.callee == "m_mem_unref" and ev.args and S(ev.args[0]) == "mod":
                return st - {"ref"}
            if ev.kind == "assign" and S(ev.lhs).endswith("->curr_mod"):
                if S(ev.rhs) == "mod":
                    return st | {"curr"}
                return st - {"curr"}
            return st
        INm = rules.tag_analysis(f, step, must=True)
        INy = rules.tag_analysis(f, step, must=False)
        for ev in ucalls:
            ck.call_sites += 1
            st = f.state_before(INm, ev, step)
            ck.ob("C01.5-REFBRACKET", f.site("usercb@%s" % S(ev.e["fn"])), st is not None and {"ref", "curr"} <= st,
                  "callback %s at line %d runs with %s held" % (S(ev.e["fn"]), ev.line, sorted(st or ())))
        endst = f.state_at_end(INy, f.exit, step) if f.exit in INy else frozenset()
        # state flowing into exit
        ck.ob("C01.5-REFBRACKET", f.site("released-at-exit"), not endst,
              "at function exit the temporary reference / curr_mod are released on every path (may-held: %s)" % sorted(endst))
    ck.ob("C01.5-REFBRACKET", oh.site("zombie->-ENOENT"), _hook_reports_zombie(ck, P, X),
          "optional_hook returns -ENOENT on every path on which the module is ZOMBIE after the hook")

    # ------------------------------------------------------------------ 6. no handler for a non-RUNNING module
    ck.rule("C01.6-HANDLER-RUNNING", "R-GUARD(kill=USERCB/state writers): every delivery into call_pubsub_cb happens for a module "
            "known to be RUNNING since the last call that may run a user callback: m_mod_unstash at the call, "
            "flush_pubsub_msgs at each enqueue into the flushed queue, push_evt at each of its call sites", floor=3)
    run_atom = "m_mod_is(%s, %d)"
    for ev in P.calls_to("call_pubsub_cb"):
        f = ev.fn
        ck.analysed(f)
        ck.call_sites += 1
        marg = S(ev.args[0])
        qarg = S(ev.args[1])
        if f.name == "push_evt":
            callers = list(P.calls_to("push_evt"))
            ck.need(callers, "push_evt has no caller")
            for cev in callers:
                cf = cev.fn
                ck.analysed(cf)
                m2 = S(cev.args[0])
                facts = X.facts(cf, cev, kill)
                ok = has(facts, run_atom % (m2, X.RUNNING))
                ck.ob("C01.6-HANDLER-RUNNING", cf.site("push_evt(%s)" % m2), ok,
                      "push_evt at line %d: RUNNING(%s) %s after the last user callback (facts %s)"
                      % (cev.line, m2, "established" if ok else "NOT established", fmt_facts(facts)))
            continue
        # enqueue sites into the delivered queue inside this function
        enq = [e for e in f.calls("m_queue_enqueue") if e.args and S(e.args[0]) == qarg]
        if enq:
            for e in enq:
                facts = X.facts(f, e, kill)
                ok = has(facts, run_atom % (marg, X.RUNNING))
                killers = [x for x in rules.events_between(f, e, ev) if X.kills_state(x)]
                ok2 = ok and not killers
                ck.ob("C01.6-HANDLER-RUNNING", f.site("enqueue(%s)" % qarg), ok2,
                      "enqueue at line %d under RUNNING=%s, state-changing calls before delivery: %s"
                      % (e.line, ok, [S(k.e) for k in killers][:3]))
        else:
            facts = X.facts(f, ev, kill)
            ok = has(facts, run_atom % (marg, X.RUNNING))
            ck.ob("C01.6-HANDLER-RUNNING", f.site("call_pubsub_cb(%s)" % marg), ok,
                  "delivery at line %d with facts %s" % (ev.line, fmt_facts(facts)))

    # an empty batch never reaches the handler: flush_pubsub_msgs delivers whatever it collected, which is nothing at all for a
    # module that is not RUNNING (its messages are dropped or left alone), so the emptiness test inside call_pubsub_cb is what keeps
    # the handler of a non-RUNNING module from being run with an empty queue at every loop stop
    cpc = P.fn("call_pubsub_cb")
    qpar = cpc.params[1]["name"] if len(cpc.params) > 1 else "evts"
    for ev in rules.indirect_calls(P, cpc, "USERCB"):
        facts = X.facts(cpc, ev)
        ok = any(has(facts, a, pol) for a, pol in (("m_queue_len(%s)" % qpar, True), ("(m_queue_len(%s) > 0)" % qpar, True),
                                                  ("(m_queue_len(%s) != 0)" % qpar, True), ("(m_queue_len(%s) >= 1)" % qpar, True)))
        ck.ob("C01.6-HANDLER-RUNNING", cpc.site("non-empty-batch@%d" % ev.line), ok,
              "the handler at line %d runs only for a non-empty batch (flush_pubsub_msgs delivers an empty one for every module "
              "that is not RUNNING); facts %s" % (ev.line, fmt_facts(facts)))

    # ------------------------------------------------------------------ 7. per-module passes cannot be aborted
    ck.rule("C01.7-ITERZERO", "R-ITER-ZERO: a function bound to the callback slot of m_map_iterate over a context's module map "
            "returns 0 on every path (m_map_iterate stops at the first non-zero result), so no module's outcome aborts the pass",
            floor=3)
    bound = {}
    for ev in P.calls_to("m_map_iterate"):
        if len(ev.args) < 2:
            continue
        m = strip(ev.args[0])
        if m is None or m["k"] != "member" or m["field"] != "modules":
            continue
        ck.call_sites += 1
        for v in cg.pt.vals(ev.args[1], ev.fn):
            bound.setdefault(v, []).append(ev)
    ck.need("evaluate_module" in bound, "evaluate_module is no longer bound to a module pass")
    for name in sorted(bound):
        f = P.resolve(bound[name][0].fn, name)
        if f is None:
            continue
        ck.analysed(f)
        rv = rules.returned_values(P, f)
        ok = rv == {0}
        ck.ob("C01.7-ITERZERO", f.site("return"), ok,
              "%s (bound at %s) may return %s" % (name, ", ".join(sorted({e.fn.name for e in bound[name]})), sorted(rv, key=str)))

    ck.rule("C01.7-EVALPASS", "R-MUST-PASS: loop_start (after the context became LOOPING) and recv_events (after a batch, outside "
            "the per-event loop, gated by a counter that every processed event increments) run m_map_iterate(c->modules, evaluate_module)", floor=3)
    for fname in ("loop_start", "recv_events"):
        f = P.fn(fname)
        ck.analysed(f)
        evs = [e for e in bound.get("evaluate_module", []) if e.fn is f]
        ok = bool(evs)
        det = "no evaluation pass in %s" % fname
        if ok:
            e = evs[0]
            if fname == "recv_events":
                ok = e.block.id not in f.in_loop_blocks()
                det = "evaluation pass at line %d %s the per-event loop" % (e.line, "outside" if ok else "INSIDE")
            else:
                stores = [w for w in f.events() if w.kind == "assign" and S(w.lhs).endswith("->state")]
                ok = bool(stores) and all(f.ev_dominates(w, e) for w in stores) and _postdominates_until_exit(f, stores[0], e)
                det = "evaluation pass at line %d follows the LOOPING store on every path" % e.line if ok else \
                    "a path from the LOOPING store to the exit skips the evaluation pass"
        ck.ob("C01.7-EVALPASS", f.site("evaluate pass"), ok, det,
              witness=[("del_event", f.unit, f.name, e.block.id, e.idx) for e in evs])

    # every event of the batch that was handed to its process callback counts, so that the batch is followed by an evaluation pass
    rvf = P.fn("recv_events")
    gate = [e for e in bound.get("evaluate_module", []) if e.fn is rvf]
    cnt_var = None
    if gate:
        fc = X.facts(rvf, gate[0])
        for (a, p_) in fc:
            m_ = a.startswith("(") and a.endswith(" > 0)")
            if m_ and p_:
                cnt_var = a[1:-5]
    ck.need(cnt_var is not None, "the evaluation pass of recv_events is no longer gated by a positive event count")
    bad = None
    nproc = 0
    for path in rvf.paths(loop_fragments=True):
        feas, _env, a, evs = rules.simulate(rvf, path)
        if not feas:
            continue
        procs = [e for e in evs if e.kind == "call" and e.callee is None and S(e.e["fn"]).endswith("->process")]
        if not procs:
            continue
        # only iterations that complete normally: no error, an event was produced (module sources) or it is a context source
        if a.get("err") is True or a.get("evt") is False or a.get("msg->fd_evt") is False:
            continue
        last = path[-1][0]
        if last == rvf.exit:
            continue
        nproc += 1
        incs = [e for e in evs if (e.kind == "incdec" and S(e.lhs) == cnt_var and e.e["op"] == "++") and evs.index(e) > evs.index(procs[-1])]
        if not incs:
            bad = path
    ck.ob("C01.7-EVALPASS", rvf.site("every processed event counts"), bad is None and nproc > 0,
          "%d loop path(s) that process an event all increment '%s', the counter gating the evaluation pass" % (nproc, cnt_var) if bad is None else
          "an event is processed without incrementing '%s': a batch made only of such events (e.g. context tick) is not followed by an evaluation pass" % cnt_var,
          path=rules.fmt_path(rvf, bad) if bad else None)

    # a refused start/stop changes nothing: the steps that can fail (pipe creation, (re)arming or removing the sources) all come
    # before the state store and the counter update — after the store only the hook's verdict can change the outcome
    for fx in (st_fn, sp_fn):
        stores_x = [e for e in P.writes_to_field("_mod", "state") if e.fn is fx]
        fall = [e for e in fx.calls() if e.callee in ("init_pubsub_fd", "manage_srcs")]
        def _after(a_, b_, fx=fx):
            """b_ can execute after a_"""
            if a_.block.id == b_.block.id and b_.idx > a_.idx:
                return True
            seen_, st_ = set(), [x for x in a_.block.succs if x is not None]
            while st_:
                n_ = st_.pop()
                if n_ == b_.block.id:
                    return True
                if n_ in seen_:
                    continue
                seen_.add(n_)
                st_.extend(x for x in fx.blocks[n_].succs if x is not None)
            return False
        late = [e for e in fall if any(_after(s_, e) for s_ in stores_x)]
        ck.ob("C01.2-EDGES", fx.site("fallible steps precede the state store"), bool(fall) and bool(stores_x) and not late,
              "%s: %s all precede the state store" % (fx.name, sorted({e.callee for e in fall})) if not late else
              "%s stores the new state before %s() has succeeded: when that step fails the call returns an error but the module already is in the new "
              "state (and counted), its start/stop callback never ran — a refused call changed the state" % (fx.name, late[0].callee))

    ck.rule("C01.8-FLAG-BITS", "R-FLAG-BITS: the module states are single distinct bits (state sets are tested with `&`)", floor=1)
    from props.flags import flag_bits
    flag_bits(ck, P, "C01.8-FLAG-BITS", "m_mod_states", "Lib/core")

    ck.not_decided += [
        "that arbitrary call sequences keep the counter equal to the number of RUNNING modules (follows from C01.2+C01.3 only)",
        "'exactly once' over re-entrant histories; termination of the loop",
    ]
    ck.assumptions.append("user callbacks may call any public API (they kill every fact about module state)")


_zmemo = {}


def _hook_reports_zombie(ck, P, X):
    key = id(P)
    if key in _zmemo:
        return _zmemo[key]
    oh = P.fn("optional_hook")
    zat = "m_mod_is(mod, %d)" % X.ZOMBIE
    ucalls = rules.indirect_calls(P, oh, "USERCB")
    ok = True
    npaths = 0
    for path in oh.paths():
        evs = list(rules.path_events(oh, path))
        npaths += 1
        # last assignment to the returned variable
        rets = [e for e in evs if e.kind == "ret"]
        if not rets:
            continue
        rvar = S(rets[-1].e)
        # where on the path is the last user callback?
        idx_cb = max([i for i, e in enumerate(evs) if any(e is u for u in ucalls)], default=-1)
        # is ZOMBIE assumed true on a test located after idx_cb ?
        zombie_true = False
        pos = 0
        for (bid, at) in path:
            pos += len(oh.blocks[bid].events)
            for (a, p) in at:
                if a == zat and p and pos > idx_cb:
                    zombie_true = True
        tested = any(a == zat for (_b, at) in path for (a, p) in at)
        if not tested:
            ok = False
            break
        if zombie_true:
            last = None
            for e in evs:
                if e.kind in ("assign", "decl") and e.lhs is not None and S(e.lhs) == rvar and e.rhs is not None:
                    last = e
            if last is None or cval(last.rhs) != -2:
                ok = False
                break
    _zmemo[key] = ok and npaths > 0
    return _zmemo[key]


def _postdominates_until_exit(f, a, b):
    """Every path from event a to the function exit passes event b (b after a)."""
    def step(st, ev):
        if ev is a:
            return st | {"pending"}
        if ev is b:
            return st - {"pending"}
        return st
    IN = rules.tag_analysis(f, step, must=False)
    if f.exit not in IN:
        return True
    return "pending" not in IN[f.exit]
