"""C19 — system notifications mirror loop and module transitions one-to-one (DESIGN §4 C19)."""
import lm
import rules
from lm import S, strip, cval
from props.common import Ctx, has, fmt_facts

LEVEL = "other"
MODC, CTXC, PSC = "Lib/core/mod.c", "Lib/core/ctx.c", "Lib/core/ps.c"


def run(ck, P):
    X = Ctx(P)
    tsm = P.fn("tell_system_pubsub_msg", PSC)
    ck.analysed(tsm)

    # ------------------------------------------------------------------ 1. emission sites
    ck.rule("C19.1-SITES", "R-WHO-CALLS: tell_system_pubsub_msg (not part of the public API) is called with MOD_STARTED only in start, MOD_STOPPED "
            "only in stop, CTX_STARTED only in loop_start, CTX_STOPPED only in loop_stop, CTX_TICK only in process_tick, the poison pill only in "
            "m_mod_ps_poisonpill", floor=6)
    want = {"LIBMODULE_MOD_STARTED": "start", "LIBMODULE_MOD_STOPPED": "stop", "LIBMODULE_CTX_STARTED": "loop_start",
            "LIBMODULE_CTX_STOPPED": "loop_stop", "LIBMODULE_CTX_TICK": "process_tick", "LIBMODULE_MOD_POISONPILL": "m_mod_ps_poisonpill"}
    sites = {}
    for ev in P.calls_to("tell_system_pubsub_msg"):
        t = strip(ev.args[3])
        topic = t.get("v") if t["k"] == "str" else None
        ck.call_sites += 1
        ck.analysed(ev.fn)
        if topic is None:
            # which notification goes out is fixed by the transition being made, not looked up at run time (a hook that changes the
            # module's state in between would flip it)
            ck.ob("C19.1-SITES", ev.fn.site("topic fixed by the call site@%d" % ev.line), False,
                  "the topic of the notification sent at line %d in %s is computed at run time (%s): a lifecycle hook that changes the module's state "
                  "before this point makes the transition announce the opposite notification" % (ev.line, ev.fn.name, S(ev.args[3])[:80]))
            continue
        sites.setdefault(topic, []).append(ev)
        ck.ob("C19.1-SITES", ev.fn.site("emit %s" % topic), topic in want and want[topic] == ev.fn.name,
              "%s emitted at line %d in %s" % (topic, ev.line, ev.fn.name))
    for t in sorted(set(want) - set(sites)):
        ck.ob("C19.1-SITES", "%s:%s:emit %s" % (MODC if "MOD_ST" in t else CTXC, want[t], t), False,
              "%s is never emitted: %s no longer announces its transition" % (t, want[t]))
        sites[t] = []
    ck.ob("C19.1-SITES", tsm.site("private"), not tsm.public, "tell_system_pubsub_msg is not exported", nontrivial=False)
    # the emitter does not second-guess its callers: a notification asked for is sent whatever the sender's or the context's state (the
    # STOPPED notification of a module being deregistered is sent after the module left the context's map)
    import re as _re
    refus = [(a_, p_, g_.retval, g_.line) for g_ in rules.bailouts(tsm) if isinstance(g_.retval, int) and g_.retval < 0
             for (a_, p_) in g_.cont_atoms if not _re.match(r"^[\w>.*\-\[\]&]+$", a_) and ("->" in a_ or _re.search(r"\b[a-z_]\w*\(", a_))]
    ck.ob("C19.1-SITES", tsm.site("never refuses on state"), not refus,
          "tell_system_pubsub_msg has no refusal that depends on module or context state" if not refus else
          "tell_system_pubsub_msg returns %d unless %s%s (line %d): a transition whose notification is asked for while that fails (e.g. the STOPPED of a "
          "module being deregistered, already out of the context's map) is not mirrored by a notification" % (refus[0][2], "" if refus[0][1] else "!", refus[0][0], refus[0][3]))

    # ------------------------------------------------------------------ 2. one per transition
    ck.rule("C19.2-ONE-PER-TRANSITION", "R-PAIR: in start/stop every path that stores the new state emits exactly one notification unless the "
            "module was deregistered inside its hook (-ENOENT) or on_start refused (stop emits instead); the emission follows the store and "
            "the hook and is not in a loop; loop_start emits exactly once on its success path and loop_stop exactly once on every path", floor=4)
    for (fname, topic) in (("start", "LIBMODULE_MOD_STARTED"), ("stop", "LIBMODULE_MOD_STOPPED")):
        f = P.fn(fname, MODC)
        ems = [e for e in sites[topic] if e.fn is f]
        stores = [e for e in P.writes_to_field("_mod", "state") if e.fn is f]
        hooks = list(f.calls("optional_hook"))
        bad = None
        n = 0
        for path in f.paths():
            evs = list(rules.path_events(f, path))
            if not any(e in stores for e in evs):
                continue
            n += 1
            a = rules.path_assumes(path)
            ne = [e for e in evs if e in ems]
            if fname == "start":
                expect = 1 if a.get("(ret == 0)") is True else 0
                if a.get("(ret == 0)") is None and a.get("(ret == -1)") is None and a.get("(ret == -2)") is None:
                    expect = len(ne)      # default arm: not constrained here
            else:
                expect = 0 if a.get("(ret == -2)") is True else 1
            if len(ne) != expect:
                bad = ("%d notification(s) on a path that must emit %d" % (len(ne), expect), path)
                break
            ids = [id(e) for e in evs]
            for e in ne:
                if not all(ids.index(id(s)) < ids.index(id(e)) for s in stores if id(s) in ids) or \
                        not all(ids.index(id(h)) < ids.index(id(e)) for h in hooks if id(h) in ids):
                    bad = ("notification precedes the state store or the hook", path)
        ok = bad is None and n > 0 and all(e.block.id not in f.in_loop_blocks() for e in ems)
        ck.ob("C19.2-ONE-PER-TRANSITION", f.site("one " + topic), ok, "%d state-changing path(s) emit exactly as documented" % n if bad is None else bad[0],
              path=rules.fmt_path(f, bad[1]) if bad else None, witness=[("del_event", f.unit, f.name, e.block.id, e.idx) for e in ems])
    # stop() stays silent on -ENOENT (the module deregistered itself inside on_stop) because the nested mod_deregister -> stop(m, true)
    # has emitted: that nested stop must therefore run on every deregistering path, whatever state the module is in by then
    md = P.fn("mod_deregister", MODC)
    ck.analysed(md)
    zs = [e for e in md.events() if e.kind == "assign" and S(e.lhs).endswith("->state") and cval(e.rhs) == P.enums.get("M_MOD_ZOMBIE")]
    ck.need(zs, "mod_deregister no longer stores M_MOD_ZOMBIE")
    badz = None
    nz = 0
    for path in md.paths():
        evs = list(rules.path_events(md, path))
        if not any(e in zs for e in evs):
            continue
        nz += 1
        zi = min(i for i, e in enumerate(evs) if e in zs)
        if not any(e.kind == "call" and e.callee == "stop" and len(e.args) > 1 and cval(e.args[1]) == 1 for e in evs[:zi]):
            badz = path
    ck.ob("C19.2-ONE-PER-TRANSITION", md.site("deregistration always stops"), badz is None and nz > 0,
          "%d deregistering path(s) run stop(m, true) before the module becomes a zombie" % nz if badz is None else
          "a deregistering path skips stop(m, true) (e.g. for a module that is already STOPPED): when a module deregisters itself inside on_stop() the "
          "outer stop() stays silent on -ENOENT and nobody emits MOD_STOPPED; sources/subscriptions registered while stopped are never dropped",
          path=rules.fmt_path(md, badz) if badz else None)
    ls = P.fn("loop_start", CTXC)
    bad = None
    n = 0
    for path in ls.paths(loop_fragments=True):
        evs = list(rules.path_events(ls, path))
        a = rules.path_assumes(path)
        ne = [e for e in evs if e in sites["LIBMODULE_CTX_STARTED"]]
        st = [e for e in evs if e.kind == "assign" and S(e.lhs) == "c->state"]
        n += 1
        if len(ne) != (1 if st else 0):
            bad = ("%d CTX_STARTED on a path that %s the LOOPING state" % (len(ne), "stores" if st else "does not store"), path)
    ck.ob("C19.2-ONE-PER-TRANSITION", ls.site("one CTX_STARTED"), bad is None and n > 0, "CTX_STARTED exactly when the context becomes LOOPING" if bad is None else bad[0],
          path=rules.fmt_path(ls, bad[1]) if bad else None)
    lp = P.fn("loop_stop", CTXC)
    bad = None
    for path in lp.paths(loop_fragments=True):
        evs = list(rules.path_events(lp, path))
        if not any(e.kind == "ret" for e in evs):
            continue
        ne = [e for e in evs if e in sites["LIBMODULE_CTX_STOPPED"]]
        if len(ne) != 1:
            bad = ("%d CTX_STOPPED on a path through loop_stop" % len(ne), path)
    ck.ob("C19.2-ONE-PER-TRANSITION", lp.site("one CTX_STOPPED"), bad is None, "every path through loop_stop emits CTX_STOPPED once" if bad is None else bad[0],
          path=rules.fmt_path(lp, bad[1]) if bad else None)

    # ------------------------------------------------------------------ 3. sender and flags
    ck.rule("C19.3-SENDER-FLAGS", "dataflow: the sender argument is the module whose state was stored (NULL for context notifications), the "
            "recipient is NULL (subscribers) except for the poison pill; the message tell_system_pubsub_msg builds has system = true, data = NULL, "
            "flags = 0 with sender/topic from its parameters; send_msg (user messages) builds system = false", floor=8)
    for topic, evs in sites.items():
        for ev in evs:
            rec, ctxa, snd = S(ev.args[0]), S(ev.args[1]), S(ev.args[2])
            if topic.startswith("LIBMODULE_MOD_ST"):
                ok = rec == "NULL" and snd == "mod" and ctxa == "c"
            elif topic.startswith("LIBMODULE_CTX_"):
                ok = rec == "NULL" and snd == "NULL" and ctxa == "c"
            else:
                ok = rec == "recipient" and snd == "mod" and ctxa == "mod->ctx"
            ck.ob("C19.3-SENDER-FLAGS", ev.fn.site("args " + topic), ok, "tell_system_pubsub_msg(%s, %s, %s, …)" % (rec, ctxa, snd))

    def msg_init(f):
        for ev in f.events():
            if ev.kind == "decl" and ev.e.get("t", "").startswith("ps_priv_t") and ev.rhs is not None and strip(ev.rhs)["k"] == "init":
                return ev
        return None
    d = msg_init(tsm)
    okm = d is not None
    det = "no ps_priv_t initialiser"
    if okm:
        el = strip(d.rhs)["elems"]
        inner = strip(el[0])["elems"]
        okm = cval(inner[0]) == 1 and S(inner[1]) == tsm.params[2]["name"] and S(inner[2]) == tsm.params[3]["name"] and S(inner[3]) == "NULL" \
            and cval(el[1]) == 0 and S(el[2]) == "NULL"
        det = "message = %s" % S(d.rhs)
    ck.ob("C19.3-SENDER-FLAGS", tsm.site("message template"), okm, det)
    sm = P.fn("send_msg", PSC)
    ck.analysed(sm)
    d = msg_init(sm)
    oks = d is not None
    if oks:
        el = strip(d.rhs)["elems"]
        inner = strip(el[0])["elems"]
        oks = cval(inner[0]) == 0 and [S(x) for x in inner[1:]] == [sm.params[0]["name"], sm.params[2]["name"], sm.params[3]["name"]] \
            and S(el[1]) == sm.params[4]["name"] and S(el[2]) == "NULL"
    ck.ob("C19.3-SENDER-FLAGS", sm.site("user template"), oks, "user message = %s" % (S(d.rhs) if d else None))
    sysw = [w for w in P.writes_to_field("m_evt_ps_t", "system")]
    ck.ob("C19.3-SENDER-FLAGS", "Lib/core:m_evt_ps_t.system writers", not sysw, "nobody rewrites the system flag after construction: %s" % [w.fn.name for w in sysw],
          nontrivial=False)

    # ------------------------------------------------------------------ 4. CTX_STOPPED is delivered by the final flush
    ck.rule("C19.4-STOPPED-DELIVERED", "R-MUST-PASS: in loop_stop the CTX_STOPPED emission precedes the flush pass over the modules, which "
            "precedes poll_clear", floor=1)
    ck.need(sites["LIBMODULE_CTX_STOPPED"], "CTX_STOPPED emission vanished")
    em = sites["LIBMODULE_CTX_STOPPED"][0]
    fl = [e for e in lp.calls("m_map_iterate") if "flush_pubsub_msgs" in X.cg.pt.vals(e.args[1], lp)]
    pc = list(lp.calls("poll_clear"))
    ok = bool(fl) and bool(pc) and lp.ev_dominates(em, fl[0]) and lp.ev_dominates(fl[0], pc[0])
    ck.ob("C19.4-STOPPED-DELIVERED", lp.site("emit;flush;clear"), ok, "order emission(%d) < flush(%s) < poll_clear(%s)" % (em.line, [e.line for e in fl], [e.line for e in pc]),
          witness=[("del_event", lp.unit, lp.name, e.block.id, e.idx) for e in fl])

    # ------------------------------------------------------------------ 5. tick period is (re)armed whenever it is (re)configured
    ck.rule("C19.5-TICK-REARM", "R-PAIR: the tick period is stored only by m_ctx_set_tick; every path that stores a non-zero period first removes the "
            "previous tick source (deregister_ctx_src) and then registers a fresh one (register_ctx_src with &c->tick, process_tick) — the timer "
            "descriptor is armed from the period at registration time only, so an in-place update would keep ticking at the old period", floor=1)
    st_ = P.fn("m_ctx_set_tick", CTXC)
    ck.analysed(st_)
    ws = list(P.writes_to_field("m_src_tmr_t", "ns"))
    tick_ws = [w for w in ws if "tick" in S(w.lhs)]
    # (the whole timer description stored at once — struct assignment or memcpy — stores the period too)
    tick_ws += [e for e in P.all_events() if (e.kind == "assign" and e.lhs is not None and S(e.lhs).endswith("tick.tmr")) or
                (e.kind == "call" and e.callee == "memcpy" and e.args and S(e.args[0]).endswith("tick.tmr"))]
    okw = bool(tick_ws) and all(w.fn is st_ for w in tick_ws)
    bad = None
    n = 0
    for path in st_.paths():
        evs = list(rules.path_events(st_, path))
        stores = [e for e in evs if e in tick_ws]
        if not stores:
            continue
        n += 1
        dr = [e for e in evs if e.kind == "call" and e.callee == "deregister_ctx_src"]
        rg = [e for e in evs if e.kind == "call" and e.callee == "register_ctx_src" and S(e.args[3]) == "&c->tick" and S(e.args[2]) == "process_tick"]
        if not dr or not rg or not (evs.index(dr[0]) < evs.index(stores[0]) < evs.index(rg[0])):
            bad = path
    ck.ob("C19.5-TICK-REARM", st_.site("period store re-arms the source"), okw and bad is None and n > 0,
          "%d path(s) storing a period: old source removed before, fresh source registered after" % n if okw and bad is None else
          "a new tick period is stored without re-registering the tick source: the running timer keeps its old period",
          path=rules.fmt_path(st_, bad) if bad else None)
    # src-level period of other sources must not be edited in place either
    inplace = [w for w in ws if w.fn.unit.startswith("Lib/core/") and "tmr_src" in S(w.lhs)]
    ck.ob("C19.5-TICK-REARM", "Lib/core:ev_src_t.tmr_src.its.ns writers", not inplace, "nobody edits a registered timer's period in place: %s" % [(w.fn.name, w.line) for w in inplace],
          nontrivial=False)

    # the configured period reaches the kernel in full width (ticks, like every timer, are armed by create_timerfd)
    from props.common import narrowing_casts
    ctf = P.fn("create_timerfd")
    ck.analysed(ctf)
    nar = []
    for ev in ctf.events():
        e0 = ev.e if ev.kind != "decl" else (ev.rhs or {})
        for (fr_, to_, inner_) in narrowing_casts(e0, explicit=True):
            if "its.ns" in inner_ or "->ns" in inner_:
                nar.append((inner_, fr_, to_, ev.line))
    arms = [e for e in ctf.events() if e.kind == "assign" and ("tv_sec" in S(e.lhs) or "tv_nsec" in S(e.lhs))]
    ck.ob("C19.5-TICK-REARM", ctf.site("period in full width"), not nar and len(arms) >= 2,
          "the period is split into seconds/nanoseconds in 64-bit arithmetic" if not nar else
          "'%s' is converted from '%s' to '%s' at line %d before the timer is armed: periods that do not fit (≥ 2^31 ns ≈ 2.1 s) arm a much shorter timer — "
          "ticks arrive more often than configured" % nar[0])

    ck.not_decided += ["which subscribers receive the notification (C02)", "tick period as wall-clock behaviour (only the re-arming shape is decided)"]
