"""R-RESET-ALL shared by C13/C16/C17/C18: what stop(mod, stopping=true) clears."""
import rules
from lm import S, strip, cval

MOD = "Lib/core/mod.c"


def reset_obligations(ck, P, X, rule, containers=(), scalar_fields=(), memset_fields=()):
    """containers: [(field, clear_fn)], scalar_fields: [(lvalue string, expected constant or None)],
    memset_fields: lvalue strings that must be zeroed with memset."""
    rm = P.fn("reset_module", MOD)
    sp = P.fn("stop", MOD)
    ck.analysed(rm, sp)
    # stop(…, true) always passes through reset_module, before the stop hook
    calls = list(sp.calls("reset_module"))
    ok = bool(calls)
    bad = None
    for path in sp.paths():
        a = rules.path_assumes(path)
        evs = list(rules.path_events(sp, path))
        has_call = any(any(e is c for c in calls) for e in evs)
        if a.get("stopping") is True and not has_call:
            bad = path
        if a.get("stopping") is False and has_call:
            bad = path
    ck.ob(rule, sp.site("stopping=>reset_module"), ok and bad is None,
          "every stopping path of stop() resets the module, no pausing path does" if ok and bad is None else "a stopping path skips reset_module (or a pause resets)",
          path=rules.fmt_path(sp, bad) if bad else None,
          witness=[("del_event", sp.unit, sp.name, c.block.id, c.idx) for c in calls])
    hooks = list(sp.calls("optional_hook"))
    ck.ob(rule, sp.site("reset before on_stop"), bool(hooks) and bool(calls) and all(sp.ev_dominates(calls[0], h) for h in hooks),
          "reset_module precedes the stop hook", nontrivial=False)
    for (field, fn) in containers:
        evs = [e for e in rm.calls(fn) if e.args and S(e.args[0]) == "mod->" + field]
        uncond = [e for e in evs if e.block.id in rm.dominators()[rm.exit] or _on_all_paths(rm, e)]
        ck.ob(rule, rm.site("clear " + field), bool(uncond), "%s(mod->%s) %s" % (fn, field, "on every path of reset_module" if uncond else "MISSING"),
              witness=[("del_event", rm.unit, rm.name, e.block.id, e.idx) for e in evs])
    for (lv, const) in scalar_fields:
        evs = [e for e in rm.events() if e.kind == "assign" and S(e.lhs) == lv and _on_all_paths(rm, e)]
        ok = bool(evs) and (const is None or all(cval(e.rhs) == const for e in evs))
        ck.ob(rule, rm.site("reset " + lv), ok, "%s = %s" % (lv, [S(e.rhs) for e in evs] or "MISSING"),
              witness=[("del_event", rm.unit, rm.name, e.block.id, e.idx) for e in evs])
    for lv in memset_fields:
        evs = [e for e in rm.calls("memset") if e.args and S(e.args[0]) == "&" + lv and cval(e.args[1]) == 0 and _on_all_paths(rm, e)]
        ck.ob(rule, rm.site("zero " + lv), bool(evs), "memset(&%s, 0, …) %s" % (lv, "present" if evs else "MISSING"),
              witness=[("del_event", rm.unit, rm.name, e.block.id, e.idx) for e in evs])


def _on_all_paths(f, ev):
    def step(st, e):
        if e is ev:
            return st | {"seen"}
        return st
    IN = rules.tag_analysis(f, step, must=True)
    return f.exit in IN and "seen" in IN[f.exit]
