#!/usr/bin/env python3
"""Regenerates /verif/MANIFEST.json from the table below (claimed checks + not_applicable)."""
import json
import os
import subprocess
import sys

VERIF = os.path.dirname(os.path.dirname(os.path.abspath(__file__)))

NOTE_COMMON = ("Trusted base: clang 14 front end/CFG/record layouts, the function-pointer binding analysis of engine/lm.py, "
               "'memhook allocator and context logger do not re-enter the library', 'callers respect documented preconditions'. "
               "A pass means the listed structural obligations (necessary conditions) hold on the current tree, not that behaviour was observed.")

CLAIMED = {
    "C01": dict(
        text="Static rules over the CFG/call graph of the lifecycle code: guard table of the four setters (masks from docs/concepts/mod.md, "
             "errno of each failing edge, no effect before the guards), who-writes-state, every call of start()/stop() only from the documented "
             "source states decided after the last user callback, running-counter pairing, hook invocation sites and their request constants, "
             "callbacks bracketed by a module reference, handler only for RUNNING modules on all three delivery paths, module passes that no "
             "callback result can abort, both evaluation passes present and gated by a counter that every processed event increments, the state store precedes every hook. Decides these necessary conditions for every history; does not explore sequences.",
        tech="custom CFG must-fact dataflow with user-callback kill sets + who-writes/who-calls queries + path enumeration (libTooling facts)",
        ref="DESIGN.md §4 C01"),
    "C07": dict(
        text="Static rules: EEXIST guard and single attach/detach sites of the thread-specific slot, guard table of the 13 m_ctx_* entry points "
             "(-EPIPE/NULL before any effect), typestate 'no context lookup after detach' over the call graph, teardown order pass→detach→unref on every "
             "successful path with a callback that cannot abort the pass, no re-entrant release and no registration during the pass (teardown marker), IDLE guard, agreement of the two "
             "auto-release sites, release decision not taken before a call that can run a user callback, finalize gate, interprocedural must-analysis that pthread_once precedes every use of the key.",
        tech="typestate + must-pass dataflow over CFG and call graph, sibling comparison, guard tables",
        ref="DESIGN.md §4 C07"),
    "C11": dict(
        text="Structural clauses of the ordered set decided statically: the default comparator does not narrow a pointer difference; in "
             "remove_node the destructor receives the payload of the node that is freed and payloads moved between nodes are swapped, never "
             "duplicated; the node is unlinked on every path before its destructor runs; the three traversals have the documented visiting order and stop on a non-zero result; -EEXIST iff the search ended on "
             "a node; node allocation/free pair with len++/len-- on every path; the destructor is reachable exactly from the removing operations; iterator remove/get refuse after a removal; no full-width difference in the default comparator. "
             "Sortedness for all insertion orders and iterator survival are not decided (shape dependent).",
        tech="AST/CFG shape rules with copy propagation, implicit-cast (narrowing) inspection, path enumeration, who-calls over resolved function pointers",
        ref="DESIGN.md §4 C11"),
    "C12": dict(
        text="Structural clauses of queue/stack/list decided statically: who writes the queue tail and that NULL is stored there only under a test "
             "of head/len; node allocation/free pair with len++/len-- on every path of every function; destructor only in the removing operations, "
             "under a non-NULL test, on the payload of the freed node, never reachable from operations that hand the element back; link/advance "
             "primitives (enqueue at tail, dequeue/peek at head, push/pop/peek at top, list walks next from data); the tail never keeps pointing at a freed node; every list-iterator step resets its compensation; iterator operations refuse after a removal. Arbitrary operation/iterator "
             "sequences are not decided.",
        tech="who-writes + control-dependence (must-facts) on CFG, per-path bookkeeping counts, resolved indirect-call reachability",
        ref="DESIGN.md §4 C12"),
    "C05": dict(
        text="Structural clauses of the map decided statically: every key duplicated by the map is stored into an entry or released on every "
             "path (ownership followed into the callee) and the key handed to a put is released only where the map is known not to duplicate keys; a replaced/cleared value is destroyed first exactly when a destructor is set, keys are "
             "released exactly when owned, the destructor is reachable only from put-update and clear; whole-entry memcpy is a move; key stores "
             "pair with length++/--; table_size only takes power-of-two values and matches the allocation; growth precedes the slot search and "
             "probe loops are bounded and the back-shift decision involves the table size; a no-update map refuses with -EPERM without effect; the destructor never runs for a value that stays stored; iterator operations refuse after a removal. Probing/back-shift correctness for colliding or wrapping "
             "clusters and exactly-once iteration depend on hash values and are not decided.",
        tech="path-sensitive ownership (escape) analysis, per-path pairing counts, who-writes with constant evaluation (libTooling CFG facts)",
        ref="DESIGN.md §4 C05"),
    "C10": dict(
        level="proof",
        text="Proof by abstract interpretation of the SSA form of Lib/mem/mem.c: for each of the 16 residue classes of the requested size "
             "(size = 16*K + r, K>=0 symbolic — together all sizes) the returned pointer is base + a constant multiple of alignof(max_align_t), "
             "the allocator request covers header+padding+size, header stores are disjoint and below the user data, get_header(returned) is the "
             "allocation base, the header holds refs=1/size/dtor, m_mem_size returns the requested size; abstract execution of new/ref/unref "
             "sequences shows the destructor runs exactly once on the user pointer before the base is freed exactly once, and nothing happens "
             "while a reference remains. CFG rules add: who writes refs, destructor/free control-dependent on --refs == 0, NULL tolerated, no "
             "direct libc allocator call in Lib/.",
        tech="abstract interpretation over LLVM IR (affine forms a*K+b with residue case split) + CFG who-writes/guard rules",
        ref="DESIGN.md §4 C10, §2.4, A.8",
        note="Trusted base: clang-14 lowering + opt-14 mem2reg/simplifycfg, the transfer functions of engine/absint.py, the allocator returning "
             "max_align_t-aligned memory, no unsigned wrap-around of size+header. The proof is about mem.c as compiled for this target (x86-64, "
             "header 24 bytes, max alignment 16); 'returned to the configured allocator' assumes m_set_memhook is called before first use."),
    "C06": dict(
        text="Lock discipline of the thread pool decided statically: lock/unlock pairing on every path of every function (failed lock modelled), "
             "lockset per thread role (worker / submitters / freeing thread / constructor) for the fields declared lock protected, condition "
             "variable used in a predicate loop with signal/broadcast under the lock, the worker's hand-off shape (dequeue under lock, never when "
             "WAITCURR or empty, one unlocked call fn(arg), then free; fn/arg stored once from the parameters; shutdown mode re-tested after waking; lazy growth adds one thread below max_threads; no mutable static storage shared between pools), join dominating the 'no active "
             "threads' store and reverse-order teardown. These are the necessary conditions for race/deadlock freedom; schedules are not explored "
             "(deadlock freedom, lost wake-ups, liveness of free are not decided). Known finding K5 (detached pools are not awaited) is reported.",
        tech="lockset/typestate dataflow on the CFG with a thread-role table, loop-fragment path enumeration, dominance",
        ref="DESIGN.md §4 C06, A.9"),
    "C13": dict(
        text="Decision-table check of push_evt: all acyclic CFG paths are enumerated, boolean locals are copy-propagated, and each feasible path's "
             "effects (enqueue / release / userdata / handler invocation / queue swap) are compared with the table written from the statement "
             "(HIGH forces, batch timer forces, LOW never invokes, NORM invokes when the count reached batch.len, >= makes the default a tautology). "
             "Plus guard rules: one priority bit (default NORM) before any source is created, descriptor sources only HIGH, fd sources forced HIGH, "
             "internal timers registered with INTERNAL|HIGH and the user pointers push_evt recognises, setter ordering, reset of every batching field "
             "on stop. Timer expiry and interleavings with setters are not decided.",
        tech="path enumeration with copy propagation against a decision table (R-DECISION), guard/must-pass rules on CFG facts",
        ref="DESIGN.md §4 C13"),
    "C16": dict(
        text="Static rules for stash/unstash: entry guards (live, same thread, RUNNING; HIGH-priority events refused before the enqueue; len>0), "
             "induction-variable analysis of the move loop proving that exactly `len` events have been moved when its counted exit fires, oldest-first "
             "iteration, reference taken before the stash entry is destroyed, returned value read before the handler runs, one delivery after the "
             "loop, stash cleared by reset_module on every stopping path.",
        tech="induction-variable / trip-count analysis of one natural loop + guard tables + must-pass",
        ref="DESIGN.md §4 C16, A.7"),
    "C17": dict(
        text="Static rules for become/unbecome: who may touch the handler stack (one stack primitive per API), handler selection dataflow in "
             "call_pubsub_cb (peek read once before the call, registration-time fallback under NULL, no re-read after the call), entry guards, "
             "push of exactly the argument, 0/-EINVAL tied to the pop result on every path, stack cleared by reset_module on every stopping path.",
        tech="who-calls query + reaching definitions + guard tables + path enumeration",
        ref="DESIGN.md §4 C17"),
    "C15": dict(
        text="Static guard rules: a live name is replaced only after ALLOW_REPLACE and a successful deregistration (path enumeration of "
             "m_mod_register), the modules map forbids updates, DENY_PUB/DENY_SUB tests dominate every effect of the five pub/sub entry points with "
             "-EPERM, m_ctx() yields NULL while a DENY_CTX module's callback executes and every context entry point goes through it, the persist "
             "test precedes every effect of mod_deregister, publish refuses the reserved prefix and the prefix constant covers every system topic "
             "the library emits.",
        tech="guard tables (must-facts with passed-edge semantics), path enumeration, constant/string checks over call sites",
        ref="DESIGN.md §4 C15"),
    "C18": dict(
        text="Accounting discipline of the token bucket decided statically: each of the 17 rate-limited entry points tests tokens > 0 (-EAGAIN, no "
             "effect), decrements once, and every other effect is behind the decrement; the 13 public source calls act only through them; the "
             "counter is decremented only under tokens > 0, incremented only in push_evt for the bucket's own timer under tokens < burst, stored "
             "only with burst/UINT64_MAX at the three documented sites; refill timer period/flags/user pointer agree with what push_evt recognises; "
             "rate 0 (which also removes a registered refill timer first) and stop restore every field. The bound b + r*t over wall-clock time is not decided.",
        tech="guard tables + must-pass (tag) dataflow + who-writes with constant evaluation",
        ref="DESIGN.md §4 C18"),
    "C19": dict(
        text="Static rules: each system topic is emitted at exactly one site in the function that performs the corresponding transition; per-path "
             "counts in start/stop/loop_start/loop_stop (exactly one emission on paths that store the new state, none on the -ENOENT/refusing arms), "
             "after the store and the hook; argument dataflow (sender = the module whose state changed, NULL for context notifications), the "
             "message template (system=true, data=NULL, flags=0), nobody rewrites the system flag, CTX_STOPPED emitted before the final flush, a tick period store is bracketed by deregistration and fresh registration of the tick source.",
        tech="who-calls with string constants + per-path pairing counts + initialiser dataflow",
        ref="DESIGN.md §4 C19"),
    "C09": dict(
        text="Static rules for the per-kind source registries: for each ordered set mod->srcs[T] the static type of every key handed to "
             "m_bst_insert/remove (followed through one level of parameter passing, all constant TYPEs of all callers) must contain, at offset 0 of "
             "its record layout, the type the comparator bound for T reads; comparators must not return a narrowed/overflowing difference (int "
             "differences accepted only for keys public guards keep non-negative); a refused insertion releases the new source and returns the "
             "error; validation precedes registration; m_mod_src_len's type parameter must influence the result and internal sources are skipped; "
             "registry removal only for (RM, stop) and on every path of stop(); an accepted source is never released while in its set; task deregistration always refuses; same-topic/same-flags subscription updates in place (regex released), a replaced subscription is removed with its key, the map is keyed by the subscription own topic; library-internal sources (token-bucket refill, batch timeout) have a key space of their own: the kind comparator never equates an internal with a user source nor two internal ones with different userptr, user deregistration builds a user key, the library removes its own source through an internal key with the registered userptr.",
        tech="type/record-layout compatibility between call sites and function-pointer-bound comparators, implicit-cast inspection, path enumeration, def-use",
        ref="DESIGN.md §4 C09, A.6"),
    "C14": dict(
        text="Static rules: inventory of every object with static storage in the 19 units, each classified never-written / written only by "
             "constructors or m_set_memhook / the pthread key pair — any other written static reachable from context code is reported (this is "
             "how the shared idle-time static was found); guard table over all 41 public functions taking a module handle (thread check before "
             "any effect, directly or through the three guarded internal entry points; getters effect-free; lookup answers NULL); same-context "
             "test before tell/poison pill and delivery confined to the sender's context; effect set of the task thread. Races inside user "
             "callbacks/allocator and observational independence are not decided. Known finding K4 (source handed to the pool thread unreferenced).",
        tech="writes-to-globals effect analysis over the call graph + guard tables + who-calls",
        ref="DESIGN.md §4 C14"),
    "C03": dict(
        text="Static rules for the receive loop: errno typestate (a read of errno that feeds the loop's error variable must be CLEAN: reset since "
             "the last call that may run a user callback), who writes quit/quit_code and who may call loop_quit (error arm only under err and "
             "neither EINTR nor EAGAIN), loop condition atoms, quit code read before the automatic release, agreement of the two event producers on "
             "the initialised field set {type, payload, userdata, ts} (followed through the process_* callbacks and push_evt), owner = p->mod, "
             "EPOLLONESHOT wiring and one-shot removal from the registries, forced one-shot kinds, dispatch vs. blocking loop reaching the same "
             "primitives under the same stop atoms. Which ready sources of a batch are delivered and equality of delivery sequences are not decided.",
        tech="may-typestate dataflow with user-callback kill set, who-writes/who-calls, sibling (effect-set) comparison through resolved callbacks",
        ref="DESIGN.md §4 C03"),
    "C02": dict(
        text="Static rules for pub/sub: eligibility facts dominating the single pipe write (RUNNING|PAUSED, subscription for publishes), who writes/"
             "reads the pipe and who can reach tell_if, whole-template copy with sender reference, ownership of the per-recipient copy on the "
             "pipe-full path (written or released, nothing else released), payload-owner rule for M_PS_AUTOFREE (no per-recipient destructor frees "
             "the payload; one ref-counted holder per send, referenced by each copy, dropped by the sender after fan-out), flush pass on every path "
             "of loop_stop between CTX_STOPPED and poll_clear, contradiction rule on the nullable subscription pointer followed into callees, drain "
             "before removal on every stop path, direct tells deliverable whatever their topic (poison pill), broadcast pass not abortable, one fate per flushed message. Recipient sets for concrete subscription populations, regex matching and >= 8192 pending messages are not decided.",
        tech="must-fact guards, path-sensitive ownership, allocation-multiplicity (per-recipient vs per-send) over the resolved call graph, null-deref contradiction rule with callee summaries",
        ref="DESIGN.md §4 C02"),
    "C04": dict(
        text="Memory safety of all histories is not statically decidable here; the check decides the ownership discipline the code documents "
             "(necessary conditions): provenance of every m_mem_ref/unref argument (never a stack/global/literal address, followed through "
             "parameters and the iterate binding), every stored/registered/thread-handed pointer to a ref-counted object is a counted reference or "
             "a transferred fresh object, every fresh object is stored/consumed/returned/released on every feasible path (allocation-failure paths "
             "exempt), nullable fields are not dereferenced unguarded (callee summaries), no dereference after the releasing unref within a "
             "function, destructors release every owning field, the registration reference is dropped only under a temporary reference, layout facts behind the casts. Known findings K1, K3, K4 (borrowed pointers whose "
             "holder can outlive the object) are reported, each with the failing history.",
        tech="inter-procedural provenance/taint, escape (ownership) analysis over feasible paths, contradiction rule for NULL, record layouts",
        ref="DESIGN.md §4 C04"),
    "C20": dict(
        text="Static rules: every close() site is one of six listed kinds with the facts that make it safe (own pipe ends, epoll handle, internal "
             "descriptor under type > FD on RM, auto-close descriptor of a PS/FD source — decided over feasible paths with constant propagation); "
             "every descriptor-creating call is in the pairing table with its closing counterpart (internal descriptors only on ADD, dup forces "
             "AUTOCLOSE, pipe read end registered auto-close, a descriptor is created only together with a fresh poll record, every required close site present); all per-kind descriptors alias fd_src.fd at offset 0; the poll removal in the source "
             "destructor must be reached on every path; a closed field is reset to -1. Counts of open descriptors per history are not decided. "
             "Known finding K2 (poll removal only while the owner is RUNNING) is reported.",
        tech="who-calls/provenance tables, must-pass dataflow, record layouts, feasible-path enumeration",
        ref="DESIGN.md §4 C20"),
}

NOT_APPLICABLE = {
    "C08": "Delivery order is a relation between runtime send/receive sequences under arbitrary interleavings; no sound static ordering "
           "argument is in reach with the tools present (the only shape clause, single FIFO channel per module, is an obligation of C02). See DESIGN.md §6.",
}

PENDING_REASON = "(no longer used) check not built yet in this revision of /verif (static rules designed in DESIGN.md §4); not claimed until its command exists"

ALL = ["C%02d" % i for i in range(1, 21)]


def main():
    checks = []
    for pid in ALL:
        if pid not in CLAIMED or not os.path.exists(os.path.join(VERIF, "props", pid.lower() + ".py")):
            continue
        c = CLAIMED[pid]
        checks.append({
            "property_id": pid,
            "quick_cmd": "python3 engine/check.py %s --tier quick" % pid,
            "thorough_cmd": "python3 engine/check.py %s --tier thorough" % pid,
            "evidence_file": "evidence/%s.json" % pid,
            "replay_cmd_template": "cat {path}",
            "engine": "lmcheck",
            "level_claimed": {"category": c.get("level", "other"), "text": c["text"], "design_ref": c["ref"]},
            "level_note": c.get("note", NOTE_COMMON),
            "technique": c["tech"],
        })
    claimed = {c["property_id"] for c in checks}
    na = []
    for pid in ALL:
        if pid in claimed:
            continue
        na.append({"property_id": pid, "reason": NOT_APPLICABLE.get(pid, PENDING_REASON)})
    try:
        commits = subprocess.run(["git", "-C", "/repo", "log", "--format=%h %s", "2cc6505..HEAD"], stdout=subprocess.PIPE, text=True).stdout.strip().splitlines()
    except Exception:
        commits = []
    man = {
        "version": 1,
        "setup_cmd": "make -C /verif",
        "hooks": {
            "guard": "LIBMODULE_VERIF",
            "enable": "none needed: the checks read /repo's sources (clang AST/CFG); no instrumentation is compiled in",
            "baseline_off_cmd": "cmake -G Ninja -B /repo/_build -S /repo -DBUILD_TESTS=ON -DCMAKE_BUILD_TYPE=RelWithDebInfo -DCMAKE_C_FLAGS=-Wno-error "
                                "&& cmake --build /repo/_build && ctest --test-dir /repo/_build -j8 --timeout 900",
            "source_commits": [],
            "add_only": True,
        },
        "engines": [{
            "name": "lmcheck", "path": "engine/", "serves_properties": sorted(claimed),
            "kind_free_text": "repository-specific static analyser: libTooling fact extractor (engine/lmfacts.cc: clang CFG, events, layouts) + "
                              "Python dataflow/typestate/call-graph rule library (engine/lm.py, rules.py) + per-property obligation tables (props/)",
        }],
        "checks": checks,
        "not_applicable": na,
        "notes": "Static analysis only: no check runs the library. exit 2 = analysis broken (anchor vanished / instance floor). "
                 "fix: commits in /repo (genuine defects repaired): " + "; ".join(commits),
    }
    with open(os.path.join(VERIF, "MANIFEST.json"), "w") as fh:
        json.dump(man, fh, indent=1)
    print("MANIFEST.json: %d checks, %d not_applicable" % (len(checks), len(na)))


if __name__ == "__main__":
    main()
