#!/bin/bash
# preverify.sh <worktree>...  — run verify_seed.sh for every seed of the given worktrees (worktrees in parallel, seeds of one
# worktree in sequence) and cache the verdict line in <seed>/verify.txt for process_seeds.sh.
V=/verif
for WT in "$@"; do
  ( for SD in $WT/_seed/*/; do SD=${SD%/}; [ -f $SD/patch.diff ] && bash $V/tools/verify_seed.sh "$WT" "$SD" > $SD/verify.txt 2>&1; done ) &
done
wait
for WT in "$@"; do cat $WT/_seed/*/verify.txt 2>/dev/null | grep "^SEED"; done
