#!/usr/bin/env python3
"""try_seed.py <patch.diff> [Cxx ...]  — apply a seeded change to /repo, run the quick checks, ALWAYS undo it.

Prints one line per property: exit code and the violated obligations.  Never writes evidence."""
import os
import subprocess
import sys

VERIF = os.path.dirname(os.path.dirname(os.path.abspath(__file__)))
ALL = ["C%02d" % i for i in range(1, 21) if i != 8]


def main():
    patch = os.path.abspath(sys.argv[1])
    props = [a.upper() for a in sys.argv[2:]] or ALL
    st = subprocess.run(["git", "-C", "/repo", "status", "--porcelain", "--untracked-files=no"], stdout=subprocess.PIPE, text=True).stdout.strip()
    if st:
        print("refusing: /repo has local modifications:\n" + st)
        sys.exit(3)
    r = subprocess.run(["git", "-C", "/repo", "apply", patch], stderr=subprocess.PIPE, text=True)
    if r.returncode != 0:
        print("patch does not apply: " + r.stderr)
        sys.exit(3)
    fired = {}
    try:
        for p in props:
            r = subprocess.run([sys.executable, os.path.join(VERIF, "engine", "check.py"), p, "--no-write"], stdout=subprocess.PIPE,
                               stderr=subprocess.STDOUT, text=True, cwd=VERIF, timeout=300)
            lines = [l for l in r.stdout.splitlines() if l.startswith("  rule ") or l.startswith("ANALYSIS-BROKEN")]
            if r.returncode != 0:
                fired[p] = (r.returncode, lines)
    finally:
        subprocess.run(["git", "-C", "/repo", "checkout", "--", "."], check=True)
    if not fired:
        print("MISSED: no check fires on this change")
    for p, (rc, lines) in fired.items():
        print("%s exit=%d" % (p, rc))
        for l in lines[:6]:
            print("   " + l.strip()[:260])
    sys.exit(0 if fired else 1)


if __name__ == "__main__":
    main()
