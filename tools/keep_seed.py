#!/usr/bin/env python3
"""keep_seed.py <Cxx> <k> <worktree> <verify-log-line> -- <try_seed output file>
Copies a confirmed seeded change into /verif/seeded/<Cxx>-<k>/ with meta.json."""
import json
import os
import shutil
import sys

VERIF = os.path.dirname(os.path.dirname(os.path.abspath(__file__)))


def main():
    pid, k, wt, verify_line, try_out = sys.argv[1], sys.argv[2], sys.argv[3], sys.argv[4], sys.argv[5]
    src = os.path.join(wt, "_seed", k)
    dst = os.path.join(VERIF, "seeded", "%s-%s" % (pid, k))
    os.makedirs(dst, exist_ok=True)
    for f in ("patch.diff", "demo.c", "build_demo.sh", "meta.txt"):
        if os.path.exists(os.path.join(src, f)):
            shutil.copy(os.path.join(src, f), os.path.join(dst, f))
    needs = open(os.path.join(src, "meta.txt")).read() if os.path.exists(os.path.join(src, "meta.txt")) else ""
    tout = open(try_out).read()
    caught = [l.strip() for l in tout.splitlines() if l.strip().startswith("rule ")]
    fired = [l.split()[0] for l in tout.splitlines() if " exit=" in l]
    meta = {
        "id": "%s-%s" % (pid, k),
        "breaks_property": pid,
        "origin": "independent sub-agent given only the property text and a scratch worktree of /repo (no access to /verif)",
        "what_and_needs_to_manifest": needs,
        "confirmed_by_me": {
            "how": "tools/verify_seed.sh in the scratch worktree: patch applies, library builds, full ctest (ModuleTest + ModuleTest_valgrind) passes "
                   "WITH the change, demo built with ASan/UBSan exits non-zero WITH the change and 0 WITHOUT it",
            "result": verify_line,
        },
        "checks_run": "tools/try_seed.py <patch> : git -C /repo apply, all 19 quick checks with --no-write, git -C /repo checkout -- .",
        "detected": bool(caught),
        "properties_that_fired": fired,
        "violations_reported": caught[:6],
    }
    with open(os.path.join(dst, "meta.json"), "w") as fh:
        json.dump(meta, fh, indent=1)
    print("kept", dst, "detected" if caught else "MISSED")


if __name__ == "__main__":
    main()
