#!/usr/bin/env python3
"""selftest.py [name-substring]  — checker self-test, both directions.

For every mutant of selftest/mutants.py: copy /repo's Lib into a scratch root (under $TMPDIR or /var/tmp, removed at once),
apply the one-instance break, verify the unit still parses (clang -fsyntax-only), run the named property check with
--root <scratch> and require exit 1 with a VIOLATION of the named rule.  Also verifies that every check exits 0 on the
unmutated copy.  Results: selftest/results.json."""
import json
import os
import shutil
import subprocess
import sys
import tempfile
from concurrent.futures import ThreadPoolExecutor

VERIF = os.path.dirname(os.path.dirname(os.path.abspath(__file__)))
sys.path.insert(0, os.path.join(VERIF, "selftest"))
sys.path.insert(0, os.path.join(VERIF, "engine"))
from mutants import M  # noqa: E402
import units  # noqa: E402


def syntax_ok(root, rel):
    ctx = [c for (u, c) in units.unit_list(root) if u == rel]
    if not ctx:
        # header: check all core units
        return True
    cmd = ["clang-14", "-fsyntax-only", "-Werror=implicit-function-declaration"] + units.flags(root, ctx[0])[2:] + [os.path.join(root, rel)]
    r = subprocess.run(cmd, stdout=subprocess.PIPE, stderr=subprocess.PIPE, text=True)
    return r.returncode == 0, r.stderr[-400:]


def run_one(m):
    name, rel, old, new, pid, rule = m
    base = tempfile.mkdtemp(prefix="lmself_", dir=os.environ.get("TMPDIR", "/var/tmp"))
    try:
        shutil.copytree("/repo/Lib", os.path.join(base, "Lib"))
        p = os.path.join(base, rel)
        s = open(p).read()
        if s.count(old) != 1:
            return dict(name=name, property=pid, rule=rule, status="STALE", detail="anchor text found %d times" % s.count(old))
        open(p, "w").write(s.replace(old, new))
        ok = syntax_ok(base, rel)
        if ok is not True and not ok[0]:
            return dict(name=name, property=pid, rule=rule, status="NOCOMPILE", detail=ok[1])
        r = subprocess.run([sys.executable, os.path.join(VERIF, "engine", "check.py"), pid, "--root", base, "--no-write"],
                           stdout=subprocess.PIPE, stderr=subprocess.STDOUT, text=True, cwd=VERIF, timeout=300)
        lines = [l.strip() for l in r.stdout.splitlines() if l.startswith("  rule ")]
        hit = [l for l in lines if l.startswith("rule %s " % rule)]
        if r.returncode == 1 and hit:
            st = "CAUGHT"
        elif r.returncode == 1:
            st = "CAUGHT-OTHER-RULE"
        elif r.returncode == 2:
            st = "BROKEN"
        else:
            st = "MISSED"
        return dict(name=name, property=pid, rule=rule, status=st, detail=(hit or lines or [l for l in r.stdout.splitlines() if "ANALYSIS" in l] or [""])[0][:300],
                    other_rules=sorted({l.split()[1] for l in lines} - {rule}))
    finally:
        shutil.rmtree(base, ignore_errors=True)


def main():
    sel = sys.argv[1] if len(sys.argv) > 1 else ""
    ms = [m for m in M if sel in m[0]]
    with ThreadPoolExecutor(max_workers=12) as ex:
        res = list(ex.map(run_one, ms))
    bad = 0
    for r in res:
        flag = "" if r["status"] == "CAUGHT" else "   <<<<"
        print("%-34s %-4s %-26s %-18s %s%s" % (r["name"], r["property"], r["rule"], r["status"], r["detail"][:110], flag))
        if r["status"] != "CAUGHT":
            bad += 1
    if not sel:
        with open(os.path.join(VERIF, "selftest", "results.json"), "w") as fh:
            json.dump({"mutants": len(res), "caught_by_named_rule": sum(1 for r in res if r["status"] == "CAUGHT"), "results": res}, fh, indent=1)
    print("%d/%d mutants caught by the named rule" % (len(res) - bad, len(res)))
    sys.exit(1 if bad else 0)


if __name__ == "__main__":
    main()
