#!/usr/bin/env python3
"""Prints the catch matrix of /verif/seeded as a markdown table (for DESIGN.md §10.5)."""
import glob
import json
import os
import re

VERIF = os.path.dirname(os.path.dirname(os.path.abspath(__file__)))
rows = []
for f in sorted(glob.glob(os.path.join(VERIF, "seeded", "*", "meta.json"))):
    m = json.load(open(f))
    sid = m["id"]
    meta = m.get("what_and_needs_to_manifest", "")
    first = [l.strip() for l in meta.splitlines() if l.strip()]
    what = (first[0] if first else "")[:120]
    rules = sorted({re.match(r"rule (\S+)", v).group(1) for v in m.get("violations_reported", []) if re.match(r"rule (\S+)", v)})
    status = "obsolete" if "status_on_current_tree" in m else ("detected" if m.get("detected") else "**missed**")
    fp = m.get("first_pass_detected")
    rows.append((sid, m.get("breaks_property"), status, "no" if fp is False else ("yes" if m.get("detected") else "no"), ", ".join(rules), what))
print("| seed | property | status | first pass | rules that fire | change |")
print("|---|---|---|---|---|---|")
for r in rows:
    print("| %s | %s | %s | %s | %s | %s |" % r)
n = len(rows)
det = sum(1 for r in rows if r[2] == "detected")
obs = sum(1 for r in rows if r[2] == "obsolete")
print("\n%d seeds kept: %d detected, %d missed, %d obsolete (neutralised by a later fix of the defect they relied on)" % (n, det, n - det - obs, obs))
