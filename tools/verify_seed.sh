#!/bin/bash
# verify_seed.sh <worktree> <seed-dir>   — confirm a seeded change independently, in the scratch worktree:
#   patch applies; library builds; full ctest passes WITH the change; demo fails WITH it and passes WITHOUT it.
# Prints one summary line; leaves the worktree clean.
WT=$1; SD=$2
cd "$WT" || exit 9
git checkout -q -- Lib 2>/dev/null
git apply --check "$SD/patch.diff" 2>/dev/null || { echo "SEED $SD: patch does not apply"; exit 1; }
git apply "$SD/patch.diff"
B=$(cmake --build _build 2>&1 | grep -c -E "error:|FAILED")
T=$(timeout 900 ctest --test-dir _build --timeout 600 2>&1 | grep -E "tests passed" | head -1)
D=$(mktemp -d /var/tmp/seeddemo.XXXX)
cp "$SD"/demo.c "$SD"/build_demo.sh "$D"/ 2>/dev/null
( cd "$D" && timeout 300 bash build_demo.sh "$WT" >/dev/null 2>&1; timeout 120 ./demo >/dev/null 2>"$D/err_with"; echo $? > "$D/rc_with" )
git checkout -q -- Lib
( cd "$D" && rm -f demo && timeout 300 bash build_demo.sh "$WT" >/dev/null 2>&1; timeout 120 ./demo >/dev/null 2>"$D/err_without"; echo $? > "$D/rc_without" )
cmake --build _build >/dev/null 2>&1
echo "SEED $SD: build_errors=$B ctest_with_change='$T' demo_rc_with=$(cat $D/rc_with) demo_rc_without=$(cat $D/rc_without)"
rm -rf "$D"
