#!/usr/bin/env python3
"""Re-runs every kept seed against the current rules (tools/try_seed.py) and refreshes meta.json 'detected'/'violations_reported'.
first_pass_detected is never changed."""
import glob
import json
import os
import subprocess
import sys

VERIF = os.path.dirname(os.path.dirname(os.path.abspath(__file__)))
bad = 0
for d in sorted(glob.glob(os.path.join(VERIF, "seeded", "*"))):
    mp = os.path.join(d, "meta.json")
    m = json.load(open(mp))
    if "status_on_current_tree" in m:
        continue
    if sys.argv[1:] and not any(os.path.basename(d).startswith(a) for a in sys.argv[1:]):
        continue            # optional id prefixes: refresh only those seeds
    r = subprocess.run([sys.executable, os.path.join(VERIF, "tools", "try_seed.py"), os.path.join(d, "patch.diff")], stdout=subprocess.PIPE,
                       stderr=subprocess.STDOUT, text=True)
    t = r.stdout
    rules = [l.strip() for l in t.splitlines() if l.strip().startswith("rule ")]
    broken = [l.strip() for l in t.splitlines() if "ANALYSIS-BROKEN" in l]
    det = bool(rules)
    if "first_pass_detected" not in m:
        m["first_pass_detected"] = bool(m.get("detected"))
    m["detected"] = det
    m["properties_that_fired"] = [l.split()[0] for l in t.splitlines() if " exit=1" in l]
    m["violations_reported"] = rules[:4]
    json.dump(m, open(mp, "w"), indent=1)
    print("%-10s %s %s" % (m["id"], "detected" if det else "MISSED", (rules or broken or ["-"])[0][:120]))
    bad += 0 if det else 1
print("missed:", bad)
