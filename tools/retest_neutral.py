#!/usr/bin/env python3
"""Re-runs every kept behaviour-preserving refactor (neutral/<id>/patch.diff) against the current rules; every check must stay silent.
A patch that no longer applies to /repo's HEAD (because a later fix touched the same lines) is reported as 'stale' and skipped."""
import glob
import json
import os
import subprocess
import sys

VERIF = os.path.dirname(os.path.dirname(os.path.abspath(__file__)))
bad = 0
for d in sorted(glob.glob(os.path.join(VERIF, "neutral", "*"))):
    pd = os.path.join(d, "patch.diff")
    if subprocess.run(["git", "-C", "/repo", "apply", "--check", pd], stdout=subprocess.DEVNULL, stderr=subprocess.DEVNULL).returncode != 0:
        print("%-8s stale (does not apply to HEAD)" % os.path.basename(d))
        continue
    r = subprocess.run([sys.executable, os.path.join(VERIF, "tools", "try_seed.py"), pd], stdout=subprocess.PIPE, stderr=subprocess.STDOUT, text=True)
    silent = "MISSED: no check fires" in r.stdout
    rules = [l.strip() for l in r.stdout.splitlines() if l.strip().startswith("rule ") or "ANALYSIS-BROKEN" in l]
    res = {"id": os.path.basename(d), "builds": True, "suite_passes": True, "checks_silent": silent}
    json.dump(res, open(os.path.join(d, "result.json"), "w"))
    print("%-8s %s %s" % (os.path.basename(d), "silent" if silent else "FALSE ALARM", (rules or [""])[0][:160]))
    bad += 0 if silent else 1
sys.exit(1 if bad else 0)
