#!/usr/bin/env python3
"""retest_par.py [--jobs N] [--only Cxx,Cyy] [--seeds|--neutral] [id-prefix ...]
Parallel regression of the kept seeded changes and behaviour-preserving commits WITHOUT touching /repo: every patch is applied to a
scratch copy of /repo/Lib (under /var/tmp, removed at once) and the quick checks are run with --root <copy> --no-write.
Seeds must be reported by at least one check (exit 1 with a rule line), neutral commits by none.  With --only, only the named
properties are run (a seed then counts as detected only by those).  Never writes meta.json / result.json: it is a read-only gate."""
import argparse
import glob
import json
import os
import shutil
import subprocess
import sys
import tempfile
from concurrent.futures import ThreadPoolExecutor

VERIF = os.path.dirname(os.path.dirname(os.path.abspath(__file__)))
ALL = ["C%02d" % i for i in range(1, 21) if i != 8]


def run_one(kind, d, props):
    patch = os.path.join(d, "patch.diff")
    base = tempfile.mkdtemp(prefix="rt_", dir="/var/tmp")
    try:
        shutil.copytree("/repo/Lib", os.path.join(base, "Lib"))
        r = subprocess.run(["git", "apply", "--unsafe-paths", "--directory=" + base, patch], stderr=subprocess.PIPE, text=True, cwd=base)
        if r.returncode != 0:
            r = subprocess.run(["patch", "-p1", "-s", "-d", base, "-i", patch], stderr=subprocess.PIPE, stdout=subprocess.PIPE, text=True)
            if r.returncode != 0:
                return (kind, d, "noapply", [])
        fired = []
        for p in props:
            r = subprocess.run([sys.executable, os.path.join(VERIF, "engine", "check.py"), p, "--root", base, "--no-write"],
                               stdout=subprocess.PIPE, stderr=subprocess.STDOUT, text=True, cwd=VERIF, timeout=600)
            if r.returncode != 0:
                rules = [l.strip() for l in r.stdout.splitlines() if l.startswith("  rule ") or "ANALYSIS-BROKEN" in l]
                fired.append((p, r.returncode, rules[:2]))
        return (kind, d, "ok", fired)
    finally:
        shutil.rmtree(base, ignore_errors=True)


def main():
    ap = argparse.ArgumentParser()
    ap.add_argument("--jobs", type=int, default=14)
    ap.add_argument("--only", default="")
    ap.add_argument("--seeds", action="store_true")
    ap.add_argument("--neutral", action="store_true")
    ap.add_argument("prefix", nargs="*")
    a = ap.parse_args()
    props = [p for p in a.only.upper().split(",") if p] or ALL
    work = []
    if not a.neutral:
        for d in sorted(glob.glob(os.path.join(VERIF, "seeded", "*"))):
            m = json.load(open(os.path.join(d, "meta.json")))
            if "status_on_current_tree" in m:
                continue
            if a.only and not (set(m.get("properties_that_fired", [])) & set(props)) and m.get("breaks_property") not in props:
                continue
            work.append(("seed", d))
    if not a.seeds:
        for d in sorted(glob.glob(os.path.join(VERIF, "neutral", "*"))):
            if os.path.exists(os.path.join(d, "patch.diff")):
                work.append(("neutral", d))
    if a.prefix:
        work = [(k, d) for (k, d) in work if any(os.path.basename(d).startswith(p) for p in a.prefix)]
    bad = 0
    with ThreadPoolExecutor(a.jobs) as ex:
        for kind, d, st, fired in ex.map(lambda kd: run_one(kd[0], kd[1], props), work):
            name = os.path.basename(d)
            det = any(rc == 1 and rules for (_, rc, rules) in fired)
            broken = [f for f in fired if f[1] != 1]
            if st != "ok":
                print("%-12s %s patch does not apply to the current tree" % (name, kind)); bad += 1
            elif kind == "seed" and not det:
                m = json.load(open(os.path.join(d, "meta.json")))
                was = m.get("detected")
                print("%-12s seed NOT detected by %s (recorded detected=%s by %s) %s" % (name, ",".join(props) if a.only else "any check", was,
                                                                                      m.get("properties_that_fired"), broken[:1]))
                if was and (not a.only or set(m.get("properties_that_fired", [])) <= set(props)):
                    bad += 1
            elif kind == "neutral" and fired:
                print("%-12s neutral FALSE ALARM %s" % (name, fired[:2])); bad += 1
    print("items: %d  regressions: %d" % (len(work), bad))
    sys.exit(1 if bad else 0)


if __name__ == "__main__":
    main()
