#!/usr/bin/env python3
"""Freezes the names of parameters and locals of every analysed function of the reference tree (/repo HEAD) into engine/namemap.json.
The program model alpha-renames a later tree's variables back to these names (matching by declared type and order), so that a pure
rename of a local/parameter is invisible to the rules."""
import json
import os
import sys

VERIF = os.path.dirname(os.path.dirname(os.path.abspath(__file__)))
sys.path.insert(0, os.path.join(VERIF, "engine"))
import units  # noqa: E402


def decls(rf):
    out = [(p["t"], p["name"]) for p in rf["params"]]
    ds = []
    for b in rf["blocks"]:
        for e in b["events"]:
            if e.get("ev") == "decl" and e.get("name"):
                ds.append((e["line"], e["name"], e.get("t", "")))
    seen = set()
    for (_l, n, t) in sorted(ds):
        if n not in seen:
            seen.add(n)
            out.append((t, n))
    return out


def main():
    facts = units.extract("/repo", True)
    m = {}
    inits = {}
    for u, d in facts.items():
        m[u] = {}
        inits[u] = {}
        for rf in d["functions"]:
            m[u][rf["name"]] = decls(rf)
            # which locals are declared with an initialiser (a later tree that splits/merges declaration and initialisation is
            # brought back to this shape)
            di = {}
            for b in rf["blocks"]:
                for e in b["events"]:
                    if e.get("ev") == "decl" and e.get("name") and not e.get("static"):
                        di[e["name"]] = di.get(e["name"], False) or e.get("init") is not None
            inits[u][rf["name"]] = di
    m["__decl_init__"] = inits
    # typedef spellings of record types, per unit: "struct _mod" -> "m_mod_t" (a later tree that spells the tag is read as the typedef)
    types = {}
    for u, d in facts.items():
        tm = {}

        def visit(n, tm=tm):
            if isinstance(n, dict):
                t, ct = n.get("t"), n.get("ct")
                if isinstance(t, str) and isinstance(ct, str) and t != ct:
                    tb = t.replace("const ", "").replace("*", "").strip()
                    cb = ct.replace("const ", "").replace("*", "").strip()
                    if cb.startswith("struct ") and tb and not tb.startswith("struct ") and " " not in tb and t.count("*") == ct.count("*"):
                        tm.setdefault(cb, set()).add(tb)
                for v in n.values():
                    visit(v)
            elif isinstance(n, list):
                for v in n:
                    visit(v)
        visit(d["functions"])
        types[u] = {k: sorted(v)[0] for k, v in tm.items() if len(v) == 1}
    m["__types__"] = types
    # names under which the rules know the records (a later tree that adds or removes a struct tag keeps these names)
    recs = set()
    for u, d in facts.items():
        for r in d["records"]:
            recs.add(r["name"])
    m["__records__"] = sorted(recs)
    # symbols a later tree may rename consistently (engine/symren.py maps them back): functions with their signature and callees,
    # file-level variables with their type, record fields in declaration order, enumerators with their values
    funcs, globs, fields, enums = {}, {}, {}, {}
    for u, d in facts.items():
        for rf in d["functions"]:
            cal = set()

            def vis(n, cal=cal):
                if isinstance(n, dict):
                    if n.get("k") == "call" and n.get("callee"):
                        cal.add(n["callee"])
                    for v in n.values():
                        vis(v)
                elif isinstance(n, list):
                    for v in n:
                        vis(v)
            vis(rf["blocks"])
            funcs.setdefault(rf["name"], []).append({"unit": u, "static": rf["static"], "ret": rf.get("ret_t", ""),
                                                     "params": [[p["t"], p.get("ct", "")] for p in rf["params"]], "callees": sorted(cal)})
        for g in d["globals"]:
            if g.get("is_def") and not g.get("func"):
                globs.setdefault(g["name"], {"t": g["t"], "file": os.path.relpath(g["file"], "/repo")})
        for r in d["records"]:
            fields.setdefault(r["name"], [[f_["name"], f_["t"]] for f_ in r["fields"]])
        for gname, names in d.get("enum_groups", {}).items():
            enums.setdefault(gname, [[n_, d["enums"].get(n_)] for n_ in names])
    m["__funcs__"], m["__globals__"], m["__fields__"], m["__enums__"] = funcs, globs, fields, enums
    with open(os.path.join(VERIF, "engine", "namemap.json"), "w") as fh:
        json.dump(m, fh, indent=0, sort_keys=True)
    print("namemap: %d functions" % sum(len(v) for k, v in m.items() if not k.startswith("__")))


if __name__ == "__main__":
    main()
