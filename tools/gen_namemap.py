#!/usr/bin/env python3
"""Freezes the names of parameters and locals of every analysed function of the reference tree (/repo HEAD) into engine/namemap.json.
The program model alpha-renames a later tree's variables back to these names (matching by declared type and order), so that a pure
rename of a local/parameter is invisible to the rules."""
import json
import os
import sys

VERIF = os.path.dirname(os.path.dirname(os.path.abspath(__file__)))
sys.path.insert(0, os.path.join(VERIF, "engine"))
import units  # noqa: E402


def decls(rf):
    out = [(p["t"], p["name"]) for p in rf["params"]]
    ds = []
    for b in rf["blocks"]:
        for e in b["events"]:
            if e.get("ev") == "decl" and e.get("name"):
                ds.append((e["line"], e["name"], e.get("t", "")))
    seen = set()
    for (_l, n, t) in sorted(ds):
        if n not in seen:
            seen.add(n)
            out.append((t, n))
    return out


def main():
    facts = units.extract("/repo", True)
    m = {}
    inits = {}
    for u, d in facts.items():
        m[u] = {}
        inits[u] = {}
        for rf in d["functions"]:
            m[u][rf["name"]] = decls(rf)
            # which locals are declared with an initialiser (a later tree that splits/merges declaration and initialisation is
            # brought back to this shape)
            di = {}
            for b in rf["blocks"]:
                for e in b["events"]:
                    if e.get("ev") == "decl" and e.get("name") and not e.get("static"):
                        di[e["name"]] = di.get(e["name"], False) or e.get("init") is not None
            inits[u][rf["name"]] = di
    m["__decl_init__"] = inits
    # typedef spellings of record types, per unit: "struct _mod" -> "m_mod_t" (a later tree that spells the tag is read as the typedef)
    types = {}
    for u, d in facts.items():
        tm = {}

        def visit(n, tm=tm):
            if isinstance(n, dict):
                t, ct = n.get("t"), n.get("ct")
                if isinstance(t, str) and isinstance(ct, str) and t != ct:
                    tb = t.replace("const ", "").replace("*", "").strip()
                    cb = ct.replace("const ", "").replace("*", "").strip()
                    if cb.startswith("struct ") and tb and not tb.startswith("struct ") and " " not in tb and t.count("*") == ct.count("*"):
                        tm.setdefault(cb, set()).add(tb)
                for v in n.values():
                    visit(v)
            elif isinstance(n, list):
                for v in n:
                    visit(v)
        visit(d["functions"])
        types[u] = {k: sorted(v)[0] for k, v in tm.items() if len(v) == 1}
    m["__types__"] = types
    # names under which the rules know the records (a later tree that adds or removes a struct tag keeps these names)
    recs = set()
    for u, d in facts.items():
        for r in d["records"]:
            recs.add(r["name"])
    m["__records__"] = sorted(recs)
    with open(os.path.join(VERIF, "engine", "namemap.json"), "w") as fh:
        json.dump(m, fh, indent=0, sort_keys=True)
    print("namemap: %d functions" % sum(len(v) for k, v in m.items() if not k.startswith("__")))


if __name__ == "__main__":
    main()
