#!/usr/bin/env python3
"""Freezes the names of parameters and locals of every analysed function of the reference tree (/repo HEAD) into engine/namemap.json.
The program model alpha-renames a later tree's variables back to these names (matching by declared type and order), so that a pure
rename of a local/parameter is invisible to the rules."""
import json
import os
import sys

VERIF = os.path.dirname(os.path.dirname(os.path.abspath(__file__)))
sys.path.insert(0, os.path.join(VERIF, "engine"))
import units  # noqa: E402


def decls(rf):
    out = [(p["t"], p["name"]) for p in rf["params"]]
    ds = []
    for b in rf["blocks"]:
        for e in b["events"]:
            if e.get("ev") == "decl" and e.get("name"):
                ds.append((e["line"], e["name"], e.get("t", "")))
    seen = set()
    for (_l, n, t) in sorted(ds):
        if n not in seen:
            seen.add(n)
            out.append((t, n))
    return out


def main():
    facts = units.extract("/repo", True)
    m = {}
    for u, d in facts.items():
        m[u] = {}
        for rf in d["functions"]:
            m[u][rf["name"]] = decls(rf)
    with open(os.path.join(VERIF, "engine", "namemap.json"), "w") as fh:
        json.dump(m, fh, indent=0, sort_keys=True)
    print("namemap: %d functions" % sum(len(v) for v in m.values()))


if __name__ == "__main__":
    main()
