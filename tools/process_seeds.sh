#!/bin/bash
# process_seeds.sh <worktree> <kept-id-prefix> <property> <k...>
# For every seed k of a sub-agent's worktree: confirm it independently (verify_seed.sh), run all quick checks against it on /repo
# (try_seed.py; /repo is always restored) and keep it under /verif/seeded/<prefix>-<k>/ with meta.json.
WT=$1; PFX=$2; PROP=$3; shift 3
V=/verif
mkdir -p /var/tmp/tryout
for k in "$@"; do
  SD=$WT/_seed/$k
  [ -f "$SD/patch.diff" ] || { echo "no seed $SD"; continue; }
  # a cached verdict (written by a parallel pre-verification pass: `verify_seed.sh ... > $SD/verify.txt`) is reused
  if [ -s "$SD/verify.txt" ]; then L=$(grep "^SEED" "$SD/verify.txt"); else L=$(bash $V/tools/verify_seed.sh "$WT" "$SD" 2>&1 | grep "^SEED"); fi
  echo "$L"
  case "$L" in
    *"build_errors=0"*"100% tests passed"*"demo_rc_without=0"*) ;;
    *) echo "  -> NOT CONFIRMED, not kept"; continue;;
  esac
  RW=$(echo "$L" | sed -n 's/.*demo_rc_with=\([0-9]*\).*/\1/p')
  if [ "$RW" = "0" ]; then echo "  -> demo does not fail with the change, not kept"; continue; fi
  timeout 1200 python3 $V/tools/try_seed.py "$SD/patch.diff" > /var/tmp/tryout/$PFX-$k.txt 2>&1
  grep -v conda /var/tmp/tryout/$PFX-$k.txt | cut -c1-260
  mkdir -p /var/tmp/keep_$PFX/_seed && rm -rf /var/tmp/keep_$PFX/_seed/$k && cp -r "$SD" /var/tmp/keep_$PFX/_seed/$k
  python3 $V/tools/keep_seed.py "$PFX" "$k" /var/tmp/keep_$PFX "$L" /var/tmp/tryout/$PFX-$k.txt
  python3 - "$V/seeded/$PFX-$k/meta.json" "$PROP" <<'EOF'
import json,sys
m=json.load(open(sys.argv[1])); m["breaks_property"]=sys.argv[2]; json.dump(m,open(sys.argv[1],"w"),indent=1)
EOF
  rm -rf /var/tmp/keep_$PFX
done
git -C /repo status --short | grep -v _build
