#!/bin/bash
# process_neutral.sh <worktree> <prefix>  — behaviour-preserving refactors from a sub-agent: confirm they build and pass the suite,
# run all quick checks against them (expected: silence), keep them under /verif/neutral/<prefix>-<k>/ with the outcome.
WT=$1; PFX=$2
V=/verif
mkdir -p /var/tmp/tryout
for d in $WT/_neutral/*.diff; do
  k=$(basename $d .diff)
  cd $WT && git checkout -q -- Lib && git clean -fdq Lib && git apply --check $d 2>/dev/null || { echo "NEUTRAL $PFX-$k: patch does not apply"; continue; }
  if [ -s $WT/_neutral/$k.verdict ]; then   # cached by a parallel pre-pass (PREPASS=1)
    B=$(sed -n 1p $WT/_neutral/$k.verdict); T=$(sed -n 2p $WT/_neutral/$k.verdict)
  else
    git apply $d
    B=$(cmake --build _build 2>&1 | grep -c -E "error:|FAILED")
    T=$(timeout 900 ctest --test-dir _build --timeout 600 2>&1 | grep -E "tests passed" | head -1)
    git checkout -q -- Lib; git clean -fdq Lib; cmake --build _build >/dev/null 2>&1
    if [ -n "$PREPASS" ]; then printf '%s\n%s\n' "$B" "$T" > $WT/_neutral/$k.verdict; echo "PRE $PFX-$k: build_errors=$B $T"; continue; fi
  fi
  case "$B$T" in 0*"100% tests passed"*) ;; *) echo "NEUTRAL $PFX-$k: build_errors=$B ctest='$T' -> not kept"; continue;; esac
  cd $V
  timeout 1200 python3 $V/tools/try_seed.py $d > /var/tmp/tryout/neutral-$PFX-$k.txt 2>&1
  mkdir -p $V/neutral/$PFX-$k && cp $d $V/neutral/$PFX-$k/patch.diff && cp $WT/_neutral/$k.txt $V/neutral/$PFX-$k/what.txt 2>/dev/null
  if grep -q "MISSED: no check fires" /var/tmp/tryout/neutral-$PFX-$k.txt; then
    echo "NEUTRAL $PFX-$k: silent (ok)"; echo '{"id":"'$PFX-$k'","builds":true,"suite_passes":true,"checks_silent":true}' > $V/neutral/$PFX-$k/result.json
  else
    echo "NEUTRAL $PFX-$k: FALSE ALARM"; grep -v conda /var/tmp/tryout/neutral-$PFX-$k.txt | cut -c1-300 | head -8
    echo '{"id":"'$PFX-$k'","builds":true,"suite_passes":true,"checks_silent":false}' > $V/neutral/$PFX-$k/result.json
  fi
done
git -C /repo status --short | grep -v _build
