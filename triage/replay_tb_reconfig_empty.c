// D28?: reconfiguring the token bucket while it is empty must replace (not add to) the refill timer
#include <module/mod.h>
#include <module/ctx.h>
#include <stdio.h>
#include <dirent.h>
#include <unistd.h>
static int nfds(void){int n=0;DIR*d=opendir("/proc/self/fd");while(readdir(d))n++;closedir(d);return n;}
static void on_evt(m_mod_t *mod, const m_queue_t *const evts) { }
int main(void) {
    alarm(20);
    m_ctx_register("c", M_CTX_PERSIST, NULL);
    m_mod_hook_t h = { .on_evt = on_evt };
    m_mod_t *m = NULL;
    m_mod_register("a", &m, &h, 0, NULL);
    m_mod_start(m);
    m_ctx_dispatch();
    int base = nfds();
    int r1 = m_mod_set_tokenbucket(m, 50, 1);     // one token after this (registration consumed... burst 1)
    int f1 = nfds() - base;                        // refill timer fd
    int e = 0; while (m_mod_become(m, on_evt) == 0 && e < 10) e++;   // drain the bucket
    int r2 = m_mod_set_tokenbucket(m, 5, 2);      // reconfigure with an EMPTY bucket
    int f2 = nfds() - base;
    printf("set1=%d timers=%d drained after %d, set2=%d timers=%d\n", r1, f1, e, r2, f2);
    int ok = r1 == 0 && r2 == 0 && f1 == 1 && f2 == 1;
    printf(ok ? "OK\n" : "FAIL: old refill timer still armed next to the new one (or reconfiguration refused)\n");
    return !ok;
}
