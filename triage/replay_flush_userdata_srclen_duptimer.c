#include <module/mod.h>
#include <module/ctx.h>
#include <unistd.h>
#include <stdio.h>
#include <string.h>
static int ud = 42;
static void on_evt(m_mod_t *mod, const m_queue_t *const evts) {
    m_itr_foreach(evts, {
        m_evt_t *e = m_itr_get(m_itr);
        if (e->type == M_SRC_TYPE_PS) {
            printf("ps evt topic=%s data=%s userdata=%p (expected %p) ts=%lu\n", e->ps_evt->topic ? e->ps_evt->topic : "(null)",
                   e->ps_evt->data ? (char*)e->ps_evt->data : "(null)", e->userdata, (void*)&ud, (unsigned long)e->ts);
            if (e->ps_evt->data && !strcmp(e->ps_evt->data, "first")) {
                m_mod_ps_publish(mod, "topic", "second", 0); // pending when we quit
                m_ctx_quit(0);
            }
        }
    });
}
int main(void) {
    m_ctx_register("c", M_CTX_PERSIST, NULL);
    m_mod_hook_t h = { .on_evt = on_evt };
    m_mod_t *m = NULL;
    m_mod_register("a", &m, &h, 0, NULL);
    m_mod_start(m);
    m_mod_ps_subscribe(m, "topic", 0, &ud);
    int fd[2]; pipe(fd);
    m_mod_src_register_fd(m, fd[0], 0, NULL);
    printf("src_len(FD)=%zd src_len(TMR)=%zd src_len(END)=%zd\n", m_mod_src_len(m, M_SRC_TYPE_FD), m_mod_src_len(m, M_SRC_TYPE_TMR), m_mod_src_len(m, M_SRC_TYPE_END));
    m_src_tmr_t t1 = { CLOCK_MONOTONIC, 5000000000ULL }, t2 = { CLOCK_MONOTONIC, 5000000000ULL };
    printf("tmr reg1=%d reg2(dup)=%d dereg=%d\n", m_mod_src_register_tmr(m,&t1,0,NULL), m_mod_src_register_tmr(m,&t2,0,NULL), m_mod_src_deregister_tmr(m,&t1));
    m_mod_ps_publish(m, "topic", "first", 0);
    int r = m_ctx_loop();
    printf("loop ret=%d\n", r);
    return 0;
}
