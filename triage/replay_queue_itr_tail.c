// D18: remove the LAST of several queue elements through the iterator, then keep using the queue
#include <sys/types.h>
#include <module/structs/queue.h>
#include <module/structs/itr.h>
#include <stdio.h>
int main(void) {
    m_queue_t *q = m_queue_new(NULL);
    int v[5] = {1,2,3,4,5};
    for (int i = 0; i < 3; i++) m_queue_enqueue(q, &v[i]);
    m_itr_foreach(q, { if (m_idx == 2) m_itr_rm(m_itr); });   // remove tail (3)
    m_queue_enqueue(q, &v[3]);                                   // 4 must be reachable
    int out[4], n = 0; void *p;
    while (m_queue_len(q) > 0 && (p = m_queue_dequeue(q))) out[n++] = *(int *)p;
    printf("dequeued:"); for (int i = 0; i < n; i++) printf(" %d", out[i]); printf("\n");
    int ok = n == 3 && out[0] == 1 && out[1] == 2 && out[2] == 4;
    // single element: remove it via iterator, then enqueue again
    m_queue_enqueue(q, &v[0]);
    m_itr_foreach(q, { m_itr_rm(m_itr); });
    m_queue_enqueue(q, &v[4]);
    ok = ok && m_queue_len(q) == 1 && *(int *)m_queue_peek(q) == 5;
    m_queue_free(&q);
    printf(ok ? "OK\n" : "FAIL\n");
    return !ok;
}
