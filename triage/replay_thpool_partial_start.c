// D31?: m_thpool_new() whose k-th pthread_create fails frees the pool under the feet of the k-1 workers already running
// build: sh build.sh replay_thpool_partial_start.c  (adds -Wl,--wrap=pthread_create through EXTRA)
#include <module/thpool/thpool.h>
#include <pthread.h>
#include <errno.h>
#include <stdio.h>
#include <unistd.h>
int __real_pthread_create(pthread_t *, const pthread_attr_t *, void *(*)(void *), void *);
static int calls;
int __wrap_pthread_create(pthread_t *t, const pthread_attr_t *a, void *(*f)(void *), void *arg) {
    if (++calls == 3) return EAGAIN;            /* the third worker cannot be created */
    return __real_pthread_create(t, a, f, arg);
}
int main(void) {
    alarm(20);
    m_thpool_t *p = m_thpool_new(4, 0);         /* eager pool: 2 workers start, the 3rd fails */
    printf("pool=%p after %d pthread_create calls\n", (void *)p, calls);
    usleep(300000);                             /* the two workers keep using the freed pool (ASan: heap-use-after-free) */
    printf("OK\n");
    return 0;
}
