// D21: eval hook starts its own module and returns true -> evaluate_module runs start() again on a RUNNING module
#include <module/mod.h>
#include <module/ctx.h>
#include <stdio.h>
#include <dirent.h>
static int nfds(void){int n=0;DIR*d=opendir("/proc/self/fd");while(readdir(d))n++;closedir(d);return n;}
static int starts, stops, selfstart;
static bool on_eval(m_mod_t *m) { if (selfstart) m_mod_start(m); return true; }
static bool on_start(m_mod_t *m) { starts++; return true; }
static void on_stop(m_mod_t *m) { stops++; }
static void on_evt(m_mod_t *mod, const m_queue_t *const evts) { }
static int run(int ss) {
    selfstart = ss;
    int before = nfds();
    m_ctx_register("c", M_CTX_PERSIST, NULL);
    m_mod_hook_t h = { .on_evt = on_evt, .on_eval = on_eval, .on_start = on_start, .on_stop = on_stop };
    m_mod_t *m = NULL;
    m_mod_register("a", &m, &h, 0, NULL);
    m_ctx_dispatch(); // loop_start -> evaluate
    m_mod_deregister(&m);
    m_ctx_quit(0); m_ctx_dispatch();
    m_ctx_deregister();
    return nfds() - before;
}
int main(void) {
    int l0 = run(0), l1 = run(1);
    printf("leaked fds: plain eval=%d, eval that self-starts=%d\n", l0, l1);
    return l1 != l0;
}
