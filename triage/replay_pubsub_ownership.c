// D03/D04/D05: autofree payload to 2 recipients / 0 recipients; tell pending at quit; pipe overflow
#include <module/mod.h>
#include <module/ctx.h>
#include <stdio.h>
#include <stdlib.h>
#include <string.h>
static int got[3];
static void on_evt(m_mod_t *mod, const m_queue_t *const evts) {
    int id = (int)(long)m_mod_userdata(mod);
    m_itr_foreach(evts, {
        m_evt_t *e = m_itr_get(m_itr);
        if (e->type == M_SRC_TYPE_PS && !e->ps_evt->system) got[id]++;
    });
}
int main(void) {
    m_ctx_register("c", M_CTX_PERSIST, NULL);
    m_mod_hook_t h = { .on_evt = on_evt };
    m_mod_t *a = NULL, *b = NULL, *s = NULL;
    m_mod_register("a", &a, &h, 0, (void *)0L);
    m_mod_register("b", &b, &h, 0, (void *)1L);
    m_mod_register("s", &s, &h, 0, (void *)2L);
    m_mod_start(a); m_mod_start(b); m_mod_start(s);
    m_mod_ps_subscribe(a, "topic", 0, NULL);
    m_mod_ps_subscribe(b, "topic", 0, NULL);
    m_ctx_dispatch();                                   // start loop
    m_mod_ps_publish(s, "topic", strdup("two recipients"), M_PS_AUTOFREE);
    m_mod_ps_publish(s, "nobody", strdup("zero recipients"), M_PS_AUTOFREE);
    for (int i = 0; i < 6; i++) m_ctx_dispatch();
    // overflow a's pipe: 64KiB / 8 bytes = 8192 pointers
    int sent = 0;
    for (int i = 0; i < 9000; i++) if (m_mod_ps_tell(s, a, "x", 0) == 0) sent++;
    m_mod_ps_tell(s, b, strdup("pending at quit"), M_PS_AUTOFREE);  // pending tell without subscription
    m_ctx_quit(3);
    int r;
    while ((r = m_ctx_dispatch()) != 3 && r >= 0) { }
    printf("a=%d b=%d quit=%d\n", got[0], got[1], r);
    int ok = got[1] == 2 && got[0] >= 1 + 8192 && r == 3;
    m_mod_deregister(&a); m_mod_deregister(&b); m_mod_deregister(&s);
    m_ctx_deregister();
    printf(ok ? "OK\n" : "FAIL\n");
    return !ok;
}
