// D24: m_ctx_set_tick() from on_start during loop start -> tick source ADDed twice -> first timerfd leaked
#include <module/mod.h>
#include <module/ctx.h>
#include <stdio.h>
#include <dirent.h>
#include <unistd.h>
static int nfds(void){int n=0;DIR*d=opendir("/proc/self/fd");while(readdir(d))n++;closedir(d);return n;}
static int mode;
static bool on_start(m_mod_t *m) { if (mode) m_ctx_set_tick(50 * 1000 * 1000ull); return true; }
static void on_evt(m_mod_t *mod, const m_queue_t *const evts) { }
static int run(int md) {
    mode = md;
    int before = nfds();
    m_ctx_register("c", M_CTX_PERSIST, NULL);
    if (!md) m_ctx_set_tick(50 * 1000 * 1000ull);
    m_mod_hook_t h = { .on_evt = on_evt, .on_start = on_start };
    m_mod_t *m = NULL;
    m_mod_register("a", &m, &h, 0, NULL);
    m_ctx_dispatch();          // loop_start: evaluate -> start -> on_start
    m_ctx_quit(0); m_ctx_dispatch();
    m_mod_deregister(&m);
    m_ctx_deregister();
    return nfds() - before;
}
int main(void) { alarm(20); int a = run(0), b = run(1); printf("leaked fds: tick set before loop=%d, tick set from on_start=%d\n", a, b); return b != 0 || a != 0; }
