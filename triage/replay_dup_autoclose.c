// D27: a REJECTED duplicate registration of an AUTOCLOSE descriptor must not close the descriptor the first registration uses
#include <module/mod.h>
#include <module/ctx.h>
#include <stdio.h>
#include <unistd.h>
#include <fcntl.h>
#include <errno.h>
static void on_evt(m_mod_t *mod, const m_queue_t *const evts) { }
int main(void) {
    alarm(20);
    m_ctx_register("c", M_CTX_PERSIST, NULL);
    m_mod_hook_t h = { .on_evt = on_evt };
    m_mod_t *m = NULL;
    m_mod_register("a", &m, &h, 0, NULL);
    int p[2]; pipe(p);
    int r1 = m_mod_src_register_fd(m, p[0], M_SRC_FD_AUTOCLOSE, NULL);
    int r2 = m_mod_src_register_fd(m, p[0], M_SRC_FD_AUTOCLOSE, NULL);
    int still_open = fcntl(p[0], F_GETFD) != -1;
    printf("first=%d second=%d fd still open after the rejected registration: %d\n", r1, r2, still_open);
    int r3 = m_mod_src_deregister_fd(m, p[0]);
    int closed_now = fcntl(p[0], F_GETFD) == -1;
    printf("deregister=%d fd closed by the deregistration: %d\n", r3, closed_now);
    m_mod_deregister(&m); m_ctx_deregister(); close(p[1]);
    return !(r1 == 0 && r2 == -EEXIST && still_open && r3 == 0 && closed_now);
}
