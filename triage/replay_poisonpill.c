// D23: a poison pill sent to a RUNNING module must stop it
#include <module/mod.h>
#include <module/ctx.h>
#include <stdio.h>
#include <unistd.h>
static int stops;
static void on_stop(m_mod_t *m) { stops++; }
static void on_evt(m_mod_t *mod, const m_queue_t *const evts) { }
int main(void) {
    alarm(20);
    m_ctx_register("c", M_CTX_PERSIST, NULL);
    m_mod_hook_t h = { .on_evt = on_evt, .on_stop = on_stop };
    m_mod_t *a = NULL, *b = NULL;
    m_mod_register("a", &a, &h, 0, NULL);
    m_mod_register("b", &b, &h, 0, NULL);
    m_mod_start(a); m_mod_start(b);
    m_ctx_dispatch();
    int r = m_mod_ps_poisonpill(a, b);
    for (int i = 0; i < 5; i++) m_ctx_dispatch();
    printf("poisonpill ret=%d, b state=%#x stops=%d\n", r, m_mod_state(b), stops);
    int ok = r == 0 && m_mod_is(b, M_MOD_STOPPED) && stops == 1;
    printf(ok ? "OK\n" : "FAIL: the pill was accepted but never delivered\n");
    return !ok;
}
