#include <module/mod.h>
#include <module/ctx.h>
#include <pthread.h>
#include <stdio.h>
#include <stdlib.h>
int main(void) {
    pthread_key_t k; pthread_key_create(&k, NULL);
    char *foreign = calloc(1, 16);
    pthread_setspecific(k, foreign);
    printf("app key=%u\n", (unsigned)k);
    int r = m_ctx_quit(0); // thread has no libmodule ctx: must fail with -EPIPE
    printf("m_ctx_quit on ctx-less thread -> %d\n", r);
    printf("m_ctx_len -> %zd\n", m_ctx_len());
    return 0;
}
