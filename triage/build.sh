#!/bin/sh
# triage-only: compile library sources + harness with ASan
L=/repo/Lib
INC="-I$L/core -I$L/core/public -I$L/core/fs -I$L/core/poll -I$L/utils -I$L/structs -I$L/structs/public -I$L/mem -I$L/mem/public -I$L/thpool -I$L/thpool/public"
SRCS="$L/utils/*.c $L/structs/*.c $L/mem/mem.c $L/thpool/thpool.c $L/core/main.c $L/core/ctx.c $L/core/evts.c $L/core/mod.c $L/core/ps.c $L/core/src.c $L/core/fs/fs_noop.c $L/core/poll/epoll.c $L/core/poll/cmn_linux.c"
clang -g -O0 -fsanitize=address,undefined -fno-omit-frame-pointer -D_GNU_SOURCE -DLIBMODULE_LOG_CTX=CORE -std=gnu11 $INC $SRCS "$1" -o "${1%.c}" -lpthread -ldl 2>&1 | grep -E "error|undefined|multiple" | head
# replay_thpool_partial_start.c additionally needs: -Wl,--wrap=pthread_create (see its header comment)
