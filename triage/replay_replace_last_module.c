// D33: replacing the only module of an idle, non-persistent context releases the context under m_mod_register's feet
#include <module/mod.h>
#include <module/ctx.h>
#include <module/mem/mem.h>
#include <stdio.h>
#include <unistd.h>
static void on_evt(m_mod_t *mod, const m_queue_t *const evts) { }
int main(void) {
    alarm(20); setvbuf(stdout, NULL, _IONBF, 0);
    m_ctx_register("c", 0, NULL);                       /* not persistent */
    m_mod_hook_t h = { .on_evt = on_evt };
    m_mod_t *a1 = NULL, *a2 = NULL;
    int r1 = m_mod_register("a", &a1, &h, M_MOD_ALLOW_REPLACE, NULL);
    int r2 = m_mod_register("a", &a2, &h, M_MOD_ALLOW_REPLACE, NULL);   /* replaces a1 */
    ssize_t len = m_ctx_len();
    const char *nm = m_ctx_name();
    printf("register=%d replace=%d m_ctx_len=%zd m_ctx_name=%s old is zombie=%d\n", r1, r2, len, nm ? nm : "(none)", m_mod_is(a1, M_MOD_ZOMBIE));
    int bad = !(r2 == 0 && len == 1);
    printf(bad ? "FAIL: the replacement was accepted into a context that has just been released (the thread has no context any more)\n" : "OK\n");
    return bad;
}
