// D08: unsubscribe while a published message for that subscription is still in the pipe
#include <module/mod.h>
#include <module/ctx.h>
#include <stdio.h>
#include <string.h>
static int got;
static void on_evt(m_mod_t *mod, const m_queue_t *const evts) {
    m_itr_foreach(evts, { m_evt_t *e = m_itr_get(m_itr); if (e->type == M_SRC_TYPE_PS && !e->ps_evt->system) { got++; printf("got '%s' userdata=%s\n", (char*)e->ps_evt->data, (char*)e->userdata); } });
}
int main(void) {
    m_ctx_register("c", M_CTX_PERSIST, NULL);
    m_mod_hook_t h = { .on_evt = on_evt };
    m_mod_t *a = NULL;
    m_mod_register("a", &a, &h, 0, NULL);
    m_mod_start(a);
    m_mod_ps_subscribe(a, "topic", M_SRC_DUP, "ud");
    m_ctx_dispatch();
    m_mod_ps_publish(a, "topic", "hello", 0);      // message (holding the subscription) now in a's pipe
    m_mod_ps_unsubscribe(a, "topic");              // subscription dropped while in flight
    for (int i = 0; i < 4; i++) m_ctx_dispatch();
    m_mod_deregister(&a);
    m_ctx_deregister();
    printf("got=%d\n", got);
    return 0;
}
