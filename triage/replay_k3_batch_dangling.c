// K3: two fd sources ready in one epoll batch; handler of the first deregisters the second -> 2nd batch entry names a freed source
#include <module/mod.h>
#include <module/ctx.h>
#include <unistd.h>
#include <stdio.h>
static int p1[2], p2[2], calls;
static void on_evt(m_mod_t *mod, const m_queue_t *const evts) {
    calls++;
    m_itr_foreach(evts, {
        m_evt_t *e = m_itr_get(m_itr);
        if (e->type == M_SRC_TYPE_FD) {
            int other = e->fd_evt->fd == p1[0] ? p2[0] : p1[0];
            printf("fd evt on %d -> deregistering %d: %d\n", e->fd_evt->fd, other, m_mod_src_deregister_fd(mod, other));
        }
    });
    if (calls >= 1) m_ctx_quit(0);
}
int main(void) {
    m_ctx_register("c", M_CTX_PERSIST, NULL);
    m_mod_hook_t h = { .on_evt = on_evt };
    m_mod_t *m = NULL;
    m_mod_register("a", &m, &h, 0, NULL);
    pipe(p1); pipe(p2);
    m_mod_src_register_fd(m, p1[0], 0, NULL);
    m_mod_src_register_fd(m, p2[0], 0, NULL);
    m_mod_start(m);
    write(p1[1], "x", 1); write(p2[1], "y", 1);
    int r = m_ctx_loop();
    printf("loop ret=%d calls=%d\n", r, calls);
    return 0;
}
