// D13/D14/D15: registry as keyed set for timers, signals, pids, thresholds, paths; counts per type
#include <module/mod.h>
#include <module/ctx.h>
#include <stdio.h>
#include <signal.h>
#include <unistd.h>
static void on_evt(m_mod_t *mod, const m_queue_t *const evts) { }
#define CHECK(c) do { if (!(c)) { printf("FAIL line %d: %s\n", __LINE__, #c); fails++; } } while (0)
int main(void) {
    int fails = 0;
    m_ctx_register("c", M_CTX_PERSIST, NULL);
    m_mod_hook_t h = { .on_evt = on_evt };
    m_mod_t *m = NULL;
    m_mod_register("a", &m, &h, 0, NULL);
    m_src_tmr_t t1 = { CLOCK_MONOTONIC, 1000000 }, t2 = { CLOCK_MONOTONIC, 1000000ull + (1ull << 32) }, t3 = { CLOCK_MONOTONIC, 5000000000ull };
    CHECK(m_mod_src_register_tmr(m, &t1, 0, NULL) == 0);
    CHECK(m_mod_src_register_tmr(m, &t1, 0, NULL) == -17);      // duplicate -> EEXIST
    CHECK(m_mod_src_register_tmr(m, &t2, 0, NULL) == 0);        // differs by 2^32 ns: distinct key
    CHECK(m_mod_src_register_tmr(m, &t3, 0, NULL) == 0);
    CHECK(m_mod_src_len(m, M_SRC_TYPE_TMR) == 3);
    CHECK(m_mod_src_deregister_tmr(m, &t2) == 0);
    CHECK(m_mod_src_deregister_tmr(m, &t2) != 0);
    CHECK(m_mod_src_len(m, M_SRC_TYPE_TMR) == 2);
    m_src_sgn_t s1 = { SIGUSR1 }, s2 = { SIGUSR2 };
    CHECK(m_mod_src_register_sgn(m, &s1, 0, NULL) == 0);
    CHECK(m_mod_src_register_sgn(m, &s1, 0, NULL) == -17);
    CHECK(m_mod_src_register_sgn(m, &s2, 0, NULL) == 0);
    CHECK(m_mod_src_deregister_sgn(m, &s1) == 0);
    m_src_path_t p1 = { "/tmp", 1 }, p2 = { "/var", 1 };
    CHECK(m_mod_src_register_path(m, &p1, 0, NULL) == 0);
    CHECK(m_mod_src_register_path(m, &p2, 0, NULL) == 0);        // two paths used to crash
    CHECK(m_mod_src_register_path(m, &p1, 0, NULL) == -17);
    CHECK(m_mod_src_deregister_path(m, &p1) == 0);
    m_src_thresh_t th1 = { 100, 0.5 }, th2 = { 100, 1.0 }, th3 = { 101, -0.5 + 1.0 };
    CHECK(m_mod_src_register_thresh(m, &th1, 0, NULL) == 0);
    CHECK(m_mod_src_register_thresh(m, &th2, 0, NULL) == 0);     // 0.5 apart: distinct
    CHECK(m_mod_src_register_thresh(m, &th1, 0, NULL) == -17);
    CHECK(m_mod_src_deregister_thresh(m, &th2) == 0);
    m_src_pid_t pd = { getpid(), 0 };
    CHECK(m_mod_src_register_pid(m, &pd, 0, NULL) == 0);
    CHECK(m_mod_src_register_pid(m, &pd, 0, NULL) == -17);
    CHECK(m_mod_src_len(m, M_SRC_TYPE_PID) == 1);
    CHECK(m_mod_src_len(m, M_SRC_TYPE_SGN) == 1);
    CHECK(m_mod_src_len(m, M_SRC_TYPE_PATH) == 1);
    CHECK(m_mod_src_len(m, M_SRC_TYPE_THRESH) == 1);
    CHECK(m_mod_src_len(m, M_SRC_TYPE_END) == 2 + 1 + 1 + 1 + 1);
    m_mod_deregister(&m);
    m_ctx_deregister();
    printf(fails ? "FAIL\n" : "OK\n");
    return fails;
}
