// F2: pause inside handler with 2 events of same module in one batch
#include <module/mod.h>
#include <module/ctx.h>
#include <unistd.h>
#include <stdio.h>
#include <string.h>
static int calls; static int p1[2], p2[2];
static void on_evt(m_mod_t *mod, const m_queue_t *const evts) {
    calls++;
    printf("handler call %d state=%#x\n", calls, m_mod_state(mod));
    if (calls == 1) { m_mod_pause(mod); }
    if (calls >= 2) m_ctx_quit(7);
}
int main(void) {
    m_ctx_register("c", M_CTX_PERSIST, NULL);
    m_mod_hook_t h = { .on_evt = on_evt };
    m_mod_t *m = NULL, *m2=NULL;
    m_mod_register("a", &m, &h, 0, NULL);
    m_mod_register("b", &m2, &h, 0, NULL); // keeps loop alive
    pipe(p1); pipe(p2);
    m_mod_src_register_fd(m, p1[0], 0, "one");
    m_mod_src_register_fd(m, p2[0], 0, "two");
    m_mod_start(m); m_mod_start(m2);
    write(p1[1], "x", 1); write(p2[1], "y", 1);
    int r = m_ctx_loop();
    printf("loop ret=%d calls=%d\n", r, calls);
    return 0;
}
