// D11: m_ctx_deregister() must deregister every module (running/paused/idle), run on_stop for running/paused ones, release ctx
#include <module/mod.h>
#include <module/ctx.h>
#include <stdio.h>
static int stops;
static void on_stop(m_mod_t *m) { stops++; }
static void on_evt(m_mod_t *mod, const m_queue_t *const evts) { }
static int run(int persist) {
    stops = 0;
    m_ctx_register("c", persist ? M_CTX_PERSIST : 0, NULL);
    m_mod_hook_t h = { .on_evt = on_evt, .on_stop = on_stop };
    m_mod_t *a = NULL, *b = NULL, *c = NULL;
    m_mod_register("a", &a, &h, 0, NULL);
    m_mod_register("b", &b, &h, 0, NULL);
    m_mod_register("c", &c, &h, 0, NULL);
    m_mod_start(a); m_mod_start(b); m_mod_pause(b);
    int r = m_ctx_deregister();
    printf("persist=%d deregister=%d states a=%#x b=%#x c=%#x stops=%d ctx_name=%s\n", persist, r, m_mod_state(a), m_mod_state(b), m_mod_state(c), stops, m_ctx_name() ? "alive" : "gone");
    int ok = r == 0 && m_mod_is(a, M_MOD_ZOMBIE) && m_mod_is(b, M_MOD_ZOMBIE) && m_mod_is(c, M_MOD_ZOMBIE) && m_ctx_name() == NULL;
    m_mem_unref(a); m_mem_unref(b); m_mem_unref(c);
    int r2 = m_ctx_register("fresh", 0, NULL);
    printf("fresh register=%d\n", r2);
    m_ctx_deregister();
    return ok && r2 == 0;
}
int main(void) { int ok = run(1) & run(0); printf(ok ? "OK\n" : "FAIL\n"); return !ok; }
