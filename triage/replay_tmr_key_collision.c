// D30?: user timers and the library's internal timers (token-bucket refill, batch timeout) share one key space (the period)
#include <module/mod.h>
#include <module/ctx.h>
#include <stdio.h>
#include <errno.h>
#include <unistd.h>
#include <time.h>
static void on_evt(m_mod_t *mod, const m_queue_t *const evts) { }
int main(void) {
    alarm(20);
    m_ctx_register("c", M_CTX_PERSIST, NULL);
    m_mod_hook_t h = { .on_evt = on_evt };
    m_mod_t *m = NULL;
    m_mod_register("a", &m, &h, 0, NULL);
    m_mod_start(m);
    m_ctx_dispatch();
    int bad = 0;
    /* B: bucket first (refill period 100ms); the user has no timer at all */
    int r1 = m_mod_set_tokenbucket(m, 10, 4);
    m_src_tmr_t u = { .clock_id = CLOCK_MONOTONIC, .ns = 100000000 };
    int r2 = m_mod_src_deregister_tmr(m, &u);      /* absent key: must fail without effect */
    printf("set=%d deregister(absent user timer 100ms)=%d (expected -ENOENT-like failure)\n", r1, r2);
    if (r2 == 0) { printf("FAIL: the user's deregistration removed the internal refill timer\n"); bad = 1; }
    int r3 = m_mod_src_register_tmr(m, &u, 0, NULL); /* new user key: must succeed */
    printf("register(user timer 100ms)=%d len=%zd\n", r3, m_mod_src_len(m, M_SRC_TYPE_TMR));
    if (r3 != 0) { printf("FAIL: a new user key is refused because an internal timer has the same period\n"); bad = 1; }
    /* A: switching the bucket off must not take the user's timer with it */
    int r4 = m_mod_set_tokenbucket(m, 0, 0);
    ssize_t n = m_mod_src_len(m, M_SRC_TYPE_TMR);
    printf("off=%d user timers now=%zd\n", r4, n);
    if (r3 == 0 && n != 1) { printf("FAIL: switching the bucket off removed the user's timer\n"); bad = 1; }
    /* C: the two internal timers with one period do not clash with each other either */
    int r5 = m_mod_set_tokenbucket(m, 10, 4);
    int r6 = m_mod_set_batch_timeout(m, 100000000);
    int r7 = m_mod_set_batch_timeout(m, 0);
    int r8 = m_mod_set_tokenbucket(m, 0, 0);
    printf("bucket=%d batch=%d batch-off=%d bucket-off=%d user timers=%zd\n", r5, r6, r7, r8, m_mod_src_len(m, M_SRC_TYPE_TMR));
    if (r5 || r6 || r7 || r8 || m_mod_src_len(m, M_SRC_TYPE_TMR) != 1) { printf("FAIL: internal timers clash\n"); bad = 1; }
    printf(bad ? "FAIL\n" : "OK\n");
    return bad;
}
