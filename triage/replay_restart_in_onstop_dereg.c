// D32: on_stop() that restarts its module while the module is being deregistered: the zombie stays started
// (counted as running, its pipe open and polled) for ever
#include <module/mod.h>
#include <module/ctx.h>
#include <module/mem/mem.h>
#include <stdio.h>
#include <string.h>
#include <unistd.h>
#include <dirent.h>
static int nfds(void){int n=0;DIR*d=opendir("/proc/self/fd");while(readdir(d))n++;closedir(d);return n;}
static int starts, stops, bad;
static m_mod_t *victim, *keep;
static bool on_start(m_mod_t *mod) { starts++; return true; }
static void on_stop(m_mod_t *mod) { stops++; if (stops == 1) { int r = m_mod_start(mod); printf("  restart from on_stop -> %d\n", r); } }
static void on_evt(m_mod_t *mod, const m_queue_t *const evts) { }
static void ctl_evt(m_mod_t *mod, const m_queue_t *const evts) {
    m_itr_foreach(evts, {
        m_evt_t *e = m_itr_get(m_itr);
        if (e->type == M_SRC_TYPE_PS && e->ps_evt->topic && !strcmp(e->ps_evt->topic, M_PS_CTX_TICK)) {
            m_ctx_stats_t st;
            if (victim) {
                int before = nfds();
                keep = m_mem_ref(victim);
                int r = m_mod_deregister(&victim);
                m_ctx_stats(&st);
                printf("deregister=%d starts=%d stops=%d running_modules=%zu (1 expected: the controller) zombie=%d fds released=%d\n",
                       r, starts, stops, (size_t)st.running_modules, m_mod_is(keep, M_MOD_ZOMBIE), before - nfds());
                bad = st.running_modules != 1 || before - nfds() != 2;
            }
            m_ctx_quit(0);
        }
    });
}
int main(void) {
    alarm(20); setvbuf(stdout, NULL, _IONBF, 0);
    m_ctx_register("c", M_CTX_PERSIST, NULL);
    m_mod_hook_t h = { .on_start = on_start, .on_stop = on_stop, .on_evt = on_evt };
    m_mod_hook_t hc = { .on_evt = ctl_evt };
    m_mod_t *ctl = NULL;
    m_mod_register("victim", &victim, &h, 0, NULL);
    m_mod_register("ctl", &ctl, &hc, 0, NULL);
    m_mod_ps_subscribe(ctl, M_PS_CTX_TICK, 0, NULL);
    m_ctx_set_tick(50000000);
    m_ctx_loop();
    printf(bad ? "FAIL: the deregistered (zombie) module is still counted as running and keeps its pipe open\n" : "OK\n");
    fflush(stdout);
    return bad;
}
