// D25/D26: re-subscribe to the same topic with different flags (old sub had M_SRC_DUP) / same flags (regex leak)
#include <module/mod.h>
#include <module/ctx.h>
#include <stdio.h>
#include <string.h>
#include <stdlib.h>
#include <unistd.h>
static void on_evt(m_mod_t *mod, const m_queue_t *const evts) { }
int main(void) {
    alarm(20);
    m_ctx_register("c", M_CTX_PERSIST, NULL);
    m_mod_hook_t h = { .on_evt = on_evt };
    m_mod_t *m = NULL;
    m_mod_register("a", &m, &h, 0, NULL);
    char *t = strdup("topic");
    int r1 = m_mod_ps_subscribe(m, t, M_SRC_DUP, NULL);          // map key = dup'd copy owned by the subscription
    free(t);
    int r2 = m_mod_ps_subscribe(m, "topic", M_SRC_PRIO_LOW, NULL); // different flags: replaces the subscription
    int r3 = m_mod_ps_subscribe(m, "topic", M_SRC_PRIO_LOW, "x");  // same flags: update in place
    int r4 = m_mod_ps_unsubscribe(m, "topic");                   // lookup compares against the stored key
    printf("r=%d %d %d %d len=%zd\n", r1, r2, r3, r4, m_mod_src_len(m, M_SRC_TYPE_PS));
    m_mod_deregister(&m);
    m_ctx_deregister();
    return !(r1 == 0 && r2 == 0 && r3 == 0 && r4 == 0);
}
