// D22: on_start stops its own module and then returns false -> stop() runs again on a STOPPED module
#include <module/mod.h>
#include <module/ctx.h>
#include <stdio.h>
static int starts, stops;
static bool on_start(m_mod_t *m) { starts++; int r = m_mod_stop(m); printf("on_start: m_mod_stop -> %d\n", r); return false; }
static void on_stop(m_mod_t *m) { stops++; }
static void on_evt(m_mod_t *mod, const m_queue_t *const evts) { }
int main(void) {
    m_ctx_register("c", M_CTX_PERSIST, NULL);
    m_mod_hook_t h = { .on_evt = on_evt, .on_start = on_start, .on_stop = on_stop };
    m_mod_t *m = NULL;
    m_mod_register("a", &m, &h, 0, NULL);
    int r = m_mod_start(m);
    printf("start ret=%d starts=%d stops=%d state=%#x\n", r, starts, stops, m_mod_state(m));
    return !(stops == 1);
}
