"""Whole-record assignment `*dst = *src;` / `a->fld = b;` (record type) is read as `memcpy(&lhs, &rhs, sizeof(T))`, which is how the
reference tree copies records: the two are the same operation, and the rules that follow copied ownership (C02.3, C04.2, C19 timers)
are written over the memcpy form."""


def _rec_sizes(d):
    out = {}
    for r in d["records"]:
        for n in [r["name"]] + ([r["tag"]] if r.get("tag") else []) + list(r.get("typedefs", [])):
            if n:
                out.setdefault(n, r.get("size"))
                out.setdefault("struct " + n, r.get("size"))
                out.setdefault("union " + n, r.get("size"))
    return out


def _addr(e):
    while e.get("k") in ("paren",):
        e = e["e"]
    if e.get("k") == "un" and e.get("op") == "*":
        return e["e"]
    t = e.get("t", "")
    return {"k": "un", "op": "&", "postfix": False, "e": e, "t": (t + " *") if t else ""}


def _rec_fields(d):
    out = {}
    for r in d["records"]:
        for n in [r["name"]] + ([r["tag"]] if r.get("tag") else []) + list(r.get("typedefs", [])):
            if n:
                for k in (n, "struct " + n):
                    out.setdefault(k, (r.get("tag") or r["name"], r["fields"], r.get("union")))
    return out


def _field_stores(ev, e, t, init, fields):
    """`lhs = (T){a, b, …}` as one store per field, in declaration order (fields without an initialiser are zeroed)."""
    tag, flds, is_union = fields
    if is_union or len(init.get("elems", [])) > len(flds) or any(x.get("k") == "init" for x in init.get("elems", [])):
        return None
    lhs = e["l"]
    arrow = lhs.get("k") == "un" and lhs.get("op") == "*"
    base = lhs["e"] if arrow else lhs
    out = []
    for i, fd in enumerate(flds):
        rhs = init["elems"][i] if i < len(init["elems"]) else {"k": "int", "v": 0, "t": "int", "cv": 0}
        mem = {"k": "member", "field": fd["name"], "rec": tag, "arrow": arrow, "ct": fd.get("ct", ""), "base": base, "t": fd.get("t", "")}
        new = {"line": ev.get("line"), "ev": "assign", "e": {"k": "assign", "op": "=", "l": mem, "r": rhs, "t": fd.get("t", "")}}
        if "macro" in ev:
            new["macro"] = ev["macro"]
        out.append(new)
    return out


def canonicalise(d):
    sizes = _rec_sizes(d)
    fields = _rec_fields(d)
    n = 0
    for rf in d["functions"]:
        for b in rf["blocks"]:
            expanded = []
            for ev in b["events"]:
                if ev.get("ev") == "assign" and ev["e"].get("op") == "=":
                    e = ev["e"]
                    t = (e.get("t") or "").replace("const ", "").strip()
                    r = e["r"]
                    while r.get("k") in ("cast", "icast", "paren", "compound") and "e" in r:
                        r = r["e"]
                    if "*" not in t and t in fields and r.get("k") == "init":
                        fs = _field_stores(ev, e, t, r, fields[t])
                        if fs:
                            expanded.extend(fs)
                            n += 1
                            continue
                expanded.append(ev)
            b["events"] = expanded
            for ev in b["events"]:
                if ev.get("ev") != "assign":
                    continue
                e = ev["e"]
                if e.get("op") != "=":
                    continue
                t = (e.get("t") or "").replace("const ", "").strip()
                if "*" in t or t not in sizes or not sizes[t]:
                    continue
                r = e["r"]
                while r.get("k") in ("cast", "icast", "paren") and "e" in r:
                    r = r["e"]
                if r.get("k") not in ("var", "member", "un", "index") or (r.get("k") == "un" and r.get("op") != "*"):
                    continue
                ev["ev"] = "call"
                ev["e"] = {"k": "call", "callee": "memcpy", "builtin": True, "from_struct_assign": True,
                           "args": [_addr(e["l"]), _addr(r), {"k": "sizeof", "kind": "sizeof", "of": t, "t": "unsigned long", "cv": sizes[t]}],
                           "t": "void *"}
                n += 1
    return n
