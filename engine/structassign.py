"""Whole-record assignment `*dst = *src;` / `a->fld = b;` (record type) is read as `memcpy(&lhs, &rhs, sizeof(T))`, which is how the
reference tree copies records: the two are the same operation, and the rules that follow copied ownership (C02.3, C04.2, C19 timers)
are written over the memcpy form."""


def _rec_sizes(d):
    out = {}
    for r in d["records"]:
        for n in [r["name"]] + ([r["tag"]] if r.get("tag") else []) + list(r.get("typedefs", [])):
            if n:
                out.setdefault(n, r.get("size"))
                out.setdefault("struct " + n, r.get("size"))
                out.setdefault("union " + n, r.get("size"))
    return out


def _addr(e):
    while e.get("k") in ("paren",):
        e = e["e"]
    if e.get("k") == "un" and e.get("op") == "*":
        return e["e"]
    t = e.get("t", "")
    return {"k": "un", "op": "&", "postfix": False, "e": e, "t": (t + " *") if t else ""}


def canonicalise(d):
    sizes = _rec_sizes(d)
    n = 0
    for rf in d["functions"]:
        for b in rf["blocks"]:
            for ev in b["events"]:
                if ev.get("ev") != "assign":
                    continue
                e = ev["e"]
                if e.get("op") != "=":
                    continue
                t = (e.get("t") or "").replace("const ", "").strip()
                if "*" in t or t not in sizes or not sizes[t]:
                    continue
                r = e["r"]
                while r.get("k") in ("cast", "icast", "paren") and "e" in r:
                    r = r["e"]
                if r.get("k") not in ("var", "member", "un", "index") or (r.get("k") == "un" and r.get("op") != "*"):
                    continue
                ev["ev"] = "call"
                ev["e"] = {"k": "call", "callee": "memcpy", "builtin": True, "from_struct_assign": True,
                           "args": [_addr(e["l"]), _addr(r), {"k": "sizeof", "kind": "sizeof", "of": t, "t": "unsigned long", "cv": sizes[t]}],
                           "t": "void *"}
                n += 1
    return n
