// lmfacts — libTooling fact extractor for the libmodule static checks.
//
//   lmfacts <out.json> <file.c> -- <compile flags>
//
// For every function definition of the unit (system headers excluded) it emits the clang
// CFG (built with setAllAlwaysAdd) as blocks/successors/branch conditions and, per block
// in evaluation order, the "events" the rules reason about (calls, assignments, ++/--,
// declarations, returns) as expression trees.  Per unit it also emits record layouts,
// enum constants and objects with static storage.  Nothing is decided here.
#include "clang/AST/ASTConsumer.h"
#include "clang/AST/ASTContext.h"
#include "clang/AST/RecordLayout.h"
#include "clang/AST/RecursiveASTVisitor.h"
#include "clang/Analysis/CFG.h"
#include "clang/Basic/Builtins.h"
#include "clang/Basic/TargetInfo.h"
#include "clang/Frontend/CompilerInstance.h"
#include "clang/Frontend/FrontendAction.h"
#include "clang/Lex/Lexer.h"
#include "clang/Tooling/CompilationDatabase.h"
#include "clang/Tooling/Tooling.h"
#include "llvm/Support/raw_ostream.h"
#include <fstream>
#include <map>
#include <set>
#include <sstream>
#include <string>

using namespace clang;

static std::string g_out;

static std::string jstr(const std::string &s) {
    std::string o = "\"";
    for (unsigned char c : s) {
        switch (c) {
        case '"': o += "\\\""; break;
        case '\\': o += "\\\\"; break;
        case '\n': o += "\\n"; break;
        case '\r': o += "\\r"; break;
        case '\t': o += "\\t"; break;
        default:
            if (c < 0x20) {
                char b[8];
                snprintf(b, sizeof b, "\\u%04x", c);
                o += b;
            } else {
                o += (char)c;
            }
        }
    }
    return o + "\"";
}

class Extractor {
    ASTContext &Ctx;
    SourceManager &SM;
    std::ostringstream os;

  public:
    explicit Extractor(ASTContext &C) : Ctx(C), SM(C.getSourceManager()) {}

    std::string tyS(QualType T) { return T.getAsString(Ctx.getPrintingPolicy()); }
    std::string tyC(QualType T) { return T.getCanonicalType().getAsString(Ctx.getPrintingPolicy()); }

    unsigned lineOf(SourceLocation L) { return SM.getExpansionLineNumber(L); }
    std::string fileOf(SourceLocation L) {
        return SM.getFilename(SM.getExpansionLoc(L)).str();
    }
    std::string macroOf(SourceLocation L) {
        std::string name;
        while (L.isMacroID()) {
            // only macro *bodies*, not arguments of a macro
            if (SM.isMacroBodyExpansion(L)) {
                name = Lexer::getImmediateMacroName(L, SM, Ctx.getLangOpts()).str();
            }
            L = SM.getImmediateMacroCallerLoc(L);
        }
        return name;
    }

    static const Expr *strip(const Expr *E) {
        // parentheses, _Generic, value-preserving implicit casts, __builtin_expect
        while (E) {
            E = E->IgnoreParens();
            if (auto *IC = dyn_cast<ImplicitCastExpr>(E)) {
                switch (IC->getCastKind()) {
                case CK_IntegralCast:
                case CK_FloatingToIntegral:
                case CK_IntegralToFloating:
                case CK_FloatingCast:
                case CK_PointerToIntegral:
                case CK_IntegralToPointer:
                    return E; // numeric conversions are kept ("icast")
                default:
                    E = IC->getSubExpr();
                    continue;
                }
            }
            if (auto *CE = dyn_cast<CallExpr>(E)) {
                if (CE->getBuiltinCallee() == Builtin::BI__builtin_expect && CE->getNumArgs() == 2) {
                    E = CE->getArg(0);
                    continue;
                }
            }
            if (auto *FE = dyn_cast<FullExpr>(E)) {
                E = FE->getSubExpr();
                continue;
            }
            break;
        }
        return E;
    }

    std::string recName(const RecordDecl *RD) {
        if (!RD) return "";
        if (!RD->getName().empty()) return RD->getName().str();
        if (auto *TD = RD->getTypedefNameForAnonDecl()) return TD->getName().str();
        return "";
    }

    void expr(const Expr *E0, std::ostringstream &o) {
        const Expr *E = strip(E0);
        if (!E) {
            o << "null";
            return;
        }
        QualType T = E->getType();
        // constant value (attached to non-literal nodes as well)
        bool hasCV = false;
        llvm::APSInt CV;
        if (!E->isValueDependent() && !T.isNull() && T->isIntegralOrEnumerationType() && E->isPRValue()) {
            Expr::EvalResult R;
            if (E->EvaluateAsInt(R, Ctx, Expr::SE_NoSideEffects)) {
                hasCV = true;
                CV = R.Val.getInt();
            }
        }
        if (!T.isNull() && T->isPointerType() &&
            E->isNullPointerConstant(Ctx, Expr::NPC_ValueDependentIsNotNull) != Expr::NPCK_NotNull) {
            o << "{\"k\":\"null\",\"t\":" << jstr(tyS(T)) << "}";
            return;
        }
        o << "{";
        auto common = [&]() {
            o << ",\"t\":" << jstr(T.isNull() ? "" : tyS(T));
            if (hasCV) o << ",\"cv\":" << llvm::toString(CV, 10);
        };
        if (auto *IL = dyn_cast<IntegerLiteral>(E)) {
            o << "\"k\":\"int\",\"v\":" << llvm::toString(IL->getValue(), 10, T->isSignedIntegerType());
            common();
        } else if (auto *CL = dyn_cast<CharacterLiteral>(E)) {
            o << "\"k\":\"int\",\"v\":" << CL->getValue();
            common();
        } else if (auto *FL = dyn_cast<FloatingLiteral>(E)) {
            o << "\"k\":\"float\",\"v\":" << jstr(std::to_string(FL->getValueAsApproximateDouble()));
            common();
        } else if (auto *SL = dyn_cast<StringLiteral>(E)) {
            o << "\"k\":\"str\",\"v\":" << jstr(SL->getCharByteWidth() == 1 ? SL->getString().str() : "");
            common();
        } else if (auto *PE = dyn_cast<PredefinedExpr>(E)) {
            o << "\"k\":\"str\",\"v\":" << jstr(PE->getFunctionName() ? PE->getFunctionName()->getString().str() : "");
            common();
        } else if (auto *DR = dyn_cast<DeclRefExpr>(E)) {
            const ValueDecl *D = DR->getDecl();
            std::string kind = "other";
            if (isa<FunctionDecl>(D)) kind = "func";
            else if (isa<EnumConstantDecl>(D)) kind = "enum";
            else if (isa<ParmVarDecl>(D)) kind = "param";
            else if (auto *VD = dyn_cast<VarDecl>(D)) {
                if (VD->isLocalVarDecl()) kind = VD->isStaticLocal() ? "slocal" : "local";
                else kind = "global";
            }
            o << "\"k\":\"var\",\"name\":" << jstr(D->getNameAsString()) << ",\"vk\":" << jstr(kind);
            o << ",\"ct\":" << jstr(tyC(T));
            common();
        } else if (auto *ME = dyn_cast<MemberExpr>(E)) {
            const ValueDecl *MD = ME->getMemberDecl();
            std::string rn;
            if (auto *FD = dyn_cast<FieldDecl>(MD)) rn = recName(FD->getParent());
            o << "\"k\":\"member\",\"field\":" << jstr(MD->getNameAsString()) << ",\"rec\":" << jstr(rn)
              << ",\"arrow\":" << (ME->isArrow() ? "true" : "false") << ",\"ct\":" << jstr(tyC(T)) << ",\"base\":";
            expr(ME->getBase(), o);
            common();
        } else if (auto *CE = dyn_cast<CallExpr>(E)) {
            o << "\"k\":\"call\"";
            if (const FunctionDecl *FD = CE->getDirectCallee()) {
                o << ",\"callee\":" << jstr(FD->getNameAsString());
                if (FD->getBuiltinID()) o << ",\"builtin\":true";
            } else {
                o << ",\"callee\":null,\"fn\":";
                expr(CE->getCallee(), o);
            }
            o << ",\"args\":[";
            for (unsigned i = 0; i < CE->getNumArgs(); i++) {
                if (i) o << ",";
                expr(CE->getArg(i), o);
            }
            o << "]";
            common();
        } else if (auto *BO = dyn_cast<BinaryOperator>(E)) {
            o << "\"k\":" << (BO->isAssignmentOp() ? "\"assign\"" : "\"bin\"") << ",\"op\":"
              << jstr(BO->getOpcodeStr().str()) << ",\"l\":";
            expr(BO->getLHS(), o);
            o << ",\"r\":";
            expr(BO->getRHS(), o);
            if (auto *CAO = dyn_cast<CompoundAssignOperator>(BO))
                o << ",\"comp_t\":" << jstr(tyS(CAO->getComputationResultType()));
            common();
        } else if (auto *UO = dyn_cast<UnaryOperator>(E)) {
            o << "\"k\":\"un\",\"op\":" << jstr(UnaryOperator::getOpcodeStr(UO->getOpcode()).str())
              << ",\"postfix\":" << (UO->isPostfix() ? "true" : "false") << ",\"e\":";
            expr(UO->getSubExpr(), o);
            common();
        } else if (auto *CO = dyn_cast<AbstractConditionalOperator>(E)) {
            o << "\"k\":\"cond\",\"c\":";
            expr(CO->getCond(), o);
            o << ",\"a\":";
            expr(CO->getTrueExpr(), o);
            o << ",\"b\":";
            expr(CO->getFalseExpr(), o);
            common();
        } else if (auto *AS = dyn_cast<ArraySubscriptExpr>(E)) {
            o << "\"k\":\"index\",\"base\":";
            expr(AS->getBase(), o);
            o << ",\"idx\":";
            expr(AS->getIdx(), o);
            common();
        } else if (auto *CA = dyn_cast<CastExpr>(E)) {
            bool implicit = isa<ImplicitCastExpr>(CA);
            o << "\"k\":" << (implicit ? "\"icast\"" : "\"cast\"") << ",\"ck\":" << jstr(CA->getCastKindName())
              << ",\"from\":" << jstr(tyS(CA->getSubExpr()->getType())) << ",\"from_ct\":"
              << jstr(tyC(CA->getSubExpr()->getType())) << ",\"ct\":" << jstr(tyC(T)) << ",\"e\":";
            expr(CA->getSubExpr(), o);
            common();
        } else if (auto *UE = dyn_cast<UnaryExprOrTypeTraitExpr>(E)) {
            o << "\"k\":\"sizeof\",\"kind\":" << (UE->getKind() == UETT_SizeOf ? "\"sizeof\"" : "\"alignof\"")
              << ",\"of\":" << jstr(tyS(UE->getTypeOfArgument()));
            common();
        } else if (auto *IL2 = dyn_cast<InitListExpr>(E)) {
            o << "\"k\":\"init\",\"elems\":[";
            for (unsigned i = 0; i < IL2->getNumInits(); i++) {
                if (i) o << ",";
                expr(IL2->getInit(i), o);
            }
            o << "]";
            common();
        } else if (auto *CLE = dyn_cast<CompoundLiteralExpr>(E)) {
            o << "\"k\":\"compound\",\"e\":";
            expr(CLE->getInitializer(), o);
            common();
        } else if (isa<ImplicitValueInitExpr>(E)) {
            o << "\"k\":\"int\",\"v\":0,\"implicit\":true";
            common();
        } else if (auto *VA = dyn_cast<VAArgExpr>(E)) {
            o << "\"k\":\"vaarg\",\"e\":";
            expr(VA->getSubExpr(), o);
            common();
        } else if (auto *SE = dyn_cast<StmtExpr>(E)) {
            (void)SE;
            o << "\"k\":\"stmtexpr\"";
            common();
        } else {
            o << "\"k\":\"other\",\"cls\":" << jstr(E->getStmtClassName());
            common();
        }
        o << "}";
    }

    bool isEvent(const Stmt *S) {
        if (auto *CE = dyn_cast<CallExpr>(S)) {
            unsigned b = CE->getBuiltinCallee();
            return b != Builtin::BI__builtin_expect;
        }
        if (auto *BO = dyn_cast<BinaryOperator>(S)) return BO->isAssignmentOp();
        if (auto *UO = dyn_cast<UnaryOperator>(S)) return UO->isIncrementDecrementOp();
        return isa<ReturnStmt>(S) || isa<DeclStmt>(S);
    }

    void event(const Stmt *S, std::ostringstream &o) {
        SourceLocation L = S->getBeginLoc();
        o << "{\"line\":" << lineOf(L);
        std::string m = macroOf(L);
        if (!m.empty()) o << ",\"macro\":" << jstr(m);
        if (auto *RS = dyn_cast<ReturnStmt>(S)) {
            o << ",\"ev\":\"ret\",\"e\":";
            if (RS->getRetValue()) expr(RS->getRetValue(), o);
            else o << "null";
        } else if (auto *DS = dyn_cast<DeclStmt>(S)) {
            o << ",\"ev\":\"decl\"";
            if (DS->isSingleDecl()) {
                if (auto *VD = dyn_cast<VarDecl>(DS->getSingleDecl())) {
                    o << ",\"name\":" << jstr(VD->getNameAsString()) << ",\"t\":" << jstr(tyS(VD->getType()))
                      << ",\"ct\":" << jstr(tyC(VD->getType()))
                      << ",\"static\":" << (VD->isStaticLocal() ? "true" : "false") << ",\"init\":";
                    if (VD->hasInit() && !VD->isStaticLocal()) expr(VD->getInit(), o);
                    else o << "null";
                }
            }
        } else if (auto *E = dyn_cast<Expr>(S)) {
            const char *k = "expr";
            if (isa<CallExpr>(E)) k = "call";
            else if (isa<BinaryOperator>(E)) k = "assign";
            else if (isa<UnaryOperator>(E)) k = "incdec";
            o << ",\"ev\":\"" << k << "\",\"e\":";
            expr(E, o);
        }
        o << "}";
    }

    // nonnull on any (re)declaration of the function or of one of its parameters: the compiler may then delete NULL tests in the body
    static bool hasNonNull(const FunctionDecl *FD) {
        for (const FunctionDecl *R : FD->redecls()) {
            if (R->hasAttr<NonNullAttr>() || R->hasAttr<ReturnsNonNullAttr>()) return true;
            for (unsigned i = 0; i < R->getNumParams(); i++)
                if (R->getParamDecl(i)->hasAttr<NonNullAttr>()) return true;
        }
        return false;
    }

    void function(const FunctionDecl *FD) {
        const Stmt *Body = FD->getBody();
        CFG::BuildOptions BO;
        BO.setAllAlwaysAdd();
        std::unique_ptr<CFG> G = CFG::buildCFG(FD, const_cast<Stmt *>(Body), &Ctx, BO);
        if (!G) {
            llvm::errs() << "lmfacts: no CFG for " << FD->getNameAsString() << "\n";
            exit(3);
        }
        bool pub = false;
        if (auto *VA = FD->getAttr<VisibilityAttr>()) pub = VA->getVisibility() == VisibilityAttr::Default;
        os << "{\"name\":" << jstr(FD->getNameAsString()) << ",\"file\":" << jstr(fileOf(FD->getLocation()))
           << ",\"line\":" << lineOf(FD->getBeginLoc()) << ",\"endline\":" << lineOf(FD->getEndLoc())
           << ",\"static\":" << (FD->getStorageClass() == SC_Static ? "true" : "false")
           << ",\"public\":" << (pub ? "true" : "false") << ",\"weak\":" << (FD->hasAttr<WeakAttr>() ? "true" : "false")
           << ",\"ctor\":" << ((FD->hasAttr<ConstructorAttr>() || FD->hasAttr<DestructorAttr>()) ? "true" : "false")
           << ",\"variadic\":" << (FD->isVariadic() ? "true" : "false")
           << ",\"nonnull\":" << (hasNonNull(FD) ? "true" : "false")
           << ",\"ret_t\":" << jstr(tyS(FD->getReturnType())) << ",\"params\":[";
        for (unsigned i = 0; i < FD->getNumParams(); i++) {
            if (i) os << ",";
            const ParmVarDecl *P = FD->getParamDecl(i);
            os << "{\"name\":" << jstr(P->getNameAsString()) << ",\"t\":" << jstr(tyS(P->getType()))
               << ",\"ct\":" << jstr(tyC(P->getType())) << "}";
        }
        os << "],\"entry\":" << G->getEntry().getBlockID() << ",\"exit\":" << G->getExit().getBlockID()
           << ",\"blocks\":[";
        bool firstB = true;
        for (const CFGBlock *B : *G) {
            if (!firstB) os << ",";
            firstB = false;
            os << "{\"id\":" << B->getBlockID() << ",\"succs\":[";
            bool f = true;
            for (auto I = B->succ_begin(); I != B->succ_end(); ++I) {
                if (!f) os << ",";
                f = false;
                const CFGBlock *S = I->getReachableBlock();
                if (S) os << S->getBlockID();
                else os << "null";
            }
            os << "]";
            // label (switch case / default)
            if (const Stmt *Lb = B->getLabel()) {
                if (auto *CS = dyn_cast<CaseStmt>(Lb)) {
                    Expr::EvalResult R;
                    os << ",\"label\":{\"case\":";
                    if (CS->getLHS()->EvaluateAsInt(R, Ctx)) os << llvm::toString(R.Val.getInt(), 10);
                    else os << "null";
                    os << "}";
                } else if (isa<DefaultStmt>(Lb)) {
                    os << ",\"label\":{\"default\":true}";
                } else if (auto *LS = dyn_cast<LabelStmt>(Lb)) {
                    os << ",\"label\":{\"goto\":" << jstr(LS->getName()) << "}";
                }
            }
            // terminator
            if (const Stmt *T = B->getTerminatorStmt()) {
                std::string kind = T->getStmtClassName();
                os << ",\"term\":{\"kind\":" << jstr(kind) << ",\"line\":" << lineOf(T->getBeginLoc());
                if (auto *BOp = dyn_cast<BinaryOperator>(T)) os << ",\"op\":" << jstr(BOp->getOpcodeStr().str());
                const Expr *C = nullptr;
                if (isa<SwitchStmt>(T)) {
                    C = cast<SwitchStmt>(T)->getCond();
                } else if (B->succ_size() == 2) {
                    C = B->getLastCondition();
                    if (!C) {
                        if (const Stmt *TC = B->getTerminatorCondition()) C = dyn_cast<Expr>(TC);
                    }
                }
                if (C) {
                    os << ",\"cond\":";
                    expr(C, os);
                }
                os << "}";
            }
            os << ",\"events\":[";
            bool fe = true;
            for (const CFGElement &El : *B) {
                if (auto CS = El.getAs<CFGStmt>()) {
                    const Stmt *S = CS->getStmt();
                    if (!isEvent(S)) continue;
                    if (!fe) os << ",";
                    fe = false;
                    event(S, os);
                }
            }
            os << "]}";
        }
        os << "]}";
    }

    void fieldsOf(const RecordDecl *RD, uint64_t baseBits, const std::string &prefix, bool viaUnion, bool &first) {
        const ASTRecordLayout &L = Ctx.getASTRecordLayout(RD);
        unsigned idx = 0;
        for (const FieldDecl *F : RD->fields()) {
            uint64_t off = baseBits + L.getFieldOffset(idx++);
            QualType FT = F->getType();
            const RecordDecl *Sub = nullptr;
            if (const RecordType *RT = FT->getAs<RecordType>()) Sub = RT->getDecl()->getDefinition();
            if (F->isAnonymousStructOrUnion() && Sub) {
                fieldsOf(Sub, off, prefix, viaUnion || Sub->isUnion(), first);
                continue;
            }
            if (!first) os << ",";
            first = false;
            uint64_t sz = 0;
            if (!FT->isIncompleteType()) sz = Ctx.getTypeSize(FT);
            os << "{\"name\":" << jstr(prefix + F->getNameAsString()) << ",\"t\":" << jstr(tyS(FT)) << ",\"ct\":"
               << jstr(tyC(FT)) << ",\"off\":" << off / 8 << ",\"size\":" << sz / 8 << ",\"in_union\":"
               << ((viaUnion || RD->isUnion()) ? "true" : "false") << ",\"rec\":" << jstr(Sub ? recName(Sub) : "")
               << ",\"is_ptr\":" << (FT->isPointerType() ? "true" : "false") << "}";
        }
    }

    std::map<const Decl *, std::vector<std::string>> recTypedefs;   // record -> typedef names that denote it

    void record(const RecordDecl *RD) {
        if (!RD->isCompleteDefinition() || RD->isInvalidDecl()) return;
        std::string n = recName(RD);
        if (n.empty()) return;
        const ASTRecordLayout &L = Ctx.getASTRecordLayout(RD);
        os << "{\"name\":" << jstr(n) << ",\"tag\":" << jstr(RD->getName().str()) << ",\"typedefs\":[";
        {
            auto it = recTypedefs.find(RD->getCanonicalDecl());
            if (it != recTypedefs.end()) {
                bool f3 = true;
                for (auto &tn : it->second) { if (!f3) os << ","; f3 = false; os << jstr(tn); }
            }
        }
        os << "],\"union\":"
           << (RD->isUnion() ? "true" : "false") << ",\"size\":" << L.getSize().getQuantity()
           << ",\"align\":" << L.getAlignment().getQuantity() << ",\"file\":" << jstr(fileOf(RD->getLocation()))
           << ",\"fields\":[";
        bool first = true;
        fieldsOf(RD, 0, "", false, first);
        os << "]}";
    }

    void run(TranslationUnitDecl *TU) {
        struct V : RecursiveASTVisitor<V> {
            std::vector<const FunctionDecl *> fns;
            std::vector<const RecordDecl *> recs;
            std::vector<const VarDecl *> vars;
            std::vector<const EnumConstantDecl *> enums;
            SourceManager &SM;
            explicit V(SourceManager &S) : SM(S) {}
            bool VisitFunctionDecl(FunctionDecl *FD) {
                if (FD->doesThisDeclarationHaveABody() && !SM.isInSystemHeader(FD->getLocation())) fns.push_back(FD);
                return true;
            }
            std::vector<const TypedefNameDecl *> tds;
            bool VisitTypedefNameDecl(TypedefNameDecl *TD) {
                if (!SM.isInSystemHeader(TD->getLocation())) tds.push_back(TD);
                return true;
            }
            bool VisitRecordDecl(RecordDecl *RD) {
                if (RD->isCompleteDefinition() && !SM.isInSystemHeader(RD->getLocation())) recs.push_back(RD);
                return true;
            }
            bool VisitVarDecl(VarDecl *VD) {
                if (VD->hasGlobalStorage() && !SM.isInSystemHeader(VD->getLocation())) vars.push_back(VD);
                return true;
            }
            bool VisitEnumConstantDecl(EnumConstantDecl *ED) {
                if (!SM.isInSystemHeader(ED->getLocation())) enums.push_back(ED);
                return true;
            }
        } v(SM);
        v.TraverseDecl(TU);
        for (auto *TD : v.tds) {
            QualType U = TD->getUnderlyingType().getCanonicalType();
            if (const RecordType *RT = U->getAs<RecordType>())
                recTypedefs[RT->getDecl()->getCanonicalDecl()].push_back(TD->getNameAsString());
        }

        os << "{\"functions\":[";
        bool first = true;
        for (auto *FD : v.fns) {
            if (!first) os << ",\n";
            first = false;
            function(FD);
        }
        os << "],\n\"records\":[";
        first = true;
        std::set<std::string> seen;
        for (auto *RD : v.recs) {
            std::string n = recName(RD);
            if (n.empty() || seen.count(n)) continue;
            seen.insert(n);
            if (!first) os << ",\n";
            first = false;
            record(RD);
        }
        os << "],\n\"enums\":{";
        first = true;
        for (auto *ED : v.enums) {
            if (!first) os << ",";
            first = false;
            os << jstr(ED->getNameAsString()) << ":" << llvm::toString(ED->getInitVal(), 10);
        }
        os << "},\n\"enum_groups\":{";
        {
            std::map<std::string, std::vector<std::string>> groups;
            for (auto *ED : v.enums) {
                std::string g = "?";
                if (auto *EN = dyn_cast<EnumDecl>(ED->getDeclContext())) {
                    g = EN->getNameAsString();
                    if (g.empty()) if (auto *TD = EN->getTypedefNameForAnonDecl()) g = TD->getNameAsString();
                    if (g.empty()) g = "anon@" + std::to_string(lineOf(EN->getLocation()));
                }
                groups[g].push_back(ED->getNameAsString());
            }
            bool f2 = true;
            for (auto &kv : groups) {
                if (!f2) os << ",";
                f2 = false;
                os << jstr(kv.first) << ":[";
                for (size_t i = 0; i < kv.second.size(); i++) { if (i) os << ","; os << jstr(kv.second[i]); }
                os << "]";
            }
        }
        os << "},\n\"max_align\":" << Ctx.getTargetInfo().getNewAlign() / 8 << ",\n\"globals\":[";
        first = true;
        for (auto *VD : v.vars) {
            if (!first) os << ",\n";
            first = false;
            std::string fn;
            if (VD->isStaticLocal()) {
                if (auto *FD = dyn_cast<FunctionDecl>(VD->getDeclContext())) fn = FD->getNameAsString();
            }
            QualType T = VD->getType();
            bool elemConst = T.isConstQualified();
            if (const ArrayType *AT = Ctx.getAsArrayType(T)) elemConst = AT->getElementType().isConstQualified();
            os << "{\"name\":" << jstr(VD->getNameAsString()) << ",\"t\":" << jstr(tyS(T)) << ",\"ct\":" << jstr(tyC(T))
               << ",\"const\":" << (elemConst ? "true" : "false")
               << ",\"atomic\":" << (T->isAtomicType() ? "true" : "false")
               << ",\"tls\":" << (VD->getTLSKind() != VarDecl::TLS_None ? "true" : "false")
               << ",\"storage\":"
               << jstr(VD->getStorageClass() == SC_Static ? "static" : VD->getStorageClass() == SC_Extern ? "extern" : "none")
               << ",\"is_def\":" << (VD->isThisDeclarationADefinition() != VarDecl::DeclarationOnly ? "true" : "false")
               << ",\"func\":" << jstr(fn) << ",\"file\":" << jstr(fileOf(VD->getLocation()))
               << ",\"line\":" << lineOf(VD->getLocation()) << ",\"init\":";
            if (VD->hasInit()) expr(VD->getInit(), os);
            else os << "null";
            os << "}";
        }
        os << "]}\n";
        std::ofstream f(g_out);
        f << os.str();
        f.close();
    }
};

class Consumer : public ASTConsumer {
  public:
    void HandleTranslationUnit(ASTContext &Ctx) override {
        if (Ctx.getDiagnostics().hasErrorOccurred()) {
            llvm::errs() << "lmfacts: compile errors, no facts written\n";
            return;
        }
        Extractor X(Ctx);
        X.run(Ctx.getTranslationUnitDecl());
    }
};

class Action : public ASTFrontendAction {
  public:
    std::unique_ptr<ASTConsumer> CreateASTConsumer(CompilerInstance &, StringRef) override {
        return std::make_unique<Consumer>();
    }
};

int main(int argc, const char **argv) {
    if (argc < 4) {
        llvm::errs() << "usage: lmfacts <out.json> <file.c> -- <flags>\n";
        return 2;
    }
    g_out = argv[1];
    std::string file = argv[2];
    std::string err;
    int ac = argc;
    auto DB = tooling::FixedCompilationDatabase::loadFromCommandLine(ac, argv, err);
    if (!DB) {
        llvm::errs() << "lmfacts: " << err << "\n";
        return 2;
    }
    tooling::ClangTool Tool(*DB, {file});
    int rc = Tool.run(tooling::newFrontendActionFactory<Action>().get());
    return rc;
}
