"""Unit list and compile flags of the analysed build (mirrors Lib/*/CMakeLists.txt), fact extraction with cache."""
import glob
import hashlib
import json
import os
import subprocess
import sys
from concurrent.futures import ThreadPoolExecutor

VERIF = os.path.dirname(os.path.dirname(os.path.abspath(__file__)))
LMFACTS = os.path.join(VERIF, "bin", "lmfacts")
CACHE = os.path.join(VERIF, ".cache")
RESOURCE_DIR = "/usr/lib/llvm-14/lib/clang/14.0.6"

# (glob relative to repo root, LIBMODULE_LOG_CTX) — same globs the CMake files use.
UNIT_GLOBS = [
    ("Lib/utils/*.c", "OTHER"),
    ("Lib/structs/*.c", "STRUCTS"),
    ("Lib/thpool/*.c", "THPOOL"),
    ("Lib/mem/*.c", "MEM"),
    ("Lib/core/*.c", "CORE"),
]
# configuration of the pinned test-suite build: Linux, epoll plugin, no fuse fs
EXTRA_UNITS = [
    ("Lib/core/fs/fs_noop.c", "CORE"),
    ("Lib/core/poll/epoll.c", "CORE"),
    ("Lib/core/poll/cmn_linux.c", "CORE"),
]
INCLUDES = [
    "Lib/core", "Lib/core/public", "Lib/core/fs", "Lib/core/poll", "Lib/utils", "Lib/structs",
    "Lib/structs/public", "Lib/mem", "Lib/mem/public", "Lib/thpool", "Lib/thpool/public",
]


class AnalysisBroken(Exception):
    """exit 2: an anchor vanished / construct not modelled / too few instances."""


def unit_list(root):
    units = []
    for g, ctx in UNIT_GLOBS:
        for f in sorted(glob.glob(os.path.join(root, g))):
            units.append((os.path.relpath(f, root), ctx))
    for f, ctx in EXTRA_UNITS:
        if not os.path.exists(os.path.join(root, f)):
            raise AnalysisBroken("unit %s of the analysed configuration is missing" % f)
        units.append((f, ctx))
    if len(units) < 19:
        raise AnalysisBroken("only %d translation units found under %s (expected >= 19)" % (len(units), root))
    return units


def flags(root, logctx, ndebug=True):
    fl = ["-resource-dir", RESOURCE_DIR, "-DLIBMODULE_LOG_CTX=" + logctx, "-D_GNU_SOURCE", "-std=gnu11",
          "-Wno-everything"]
    fl.append("-DNDEBUG" if ndebug else "-UNDEBUG")
    for i in INCLUDES:
        fl.append("-I" + os.path.join(root, i))
    return fl


GENERATED = ["Lib/core/public/module/cmn.h", "Lib/core/public/module/ctx.h"]   # configure_file() outputs, git-ignored


def generated_overlay(root, cdir):
    """cmake's configure_file() writes cmn.h/ctx.h into the source tree; a tree that was never configured lacks them.
    Re-create them from the .in templates for the analysed configuration (every @VAR@ empty: no fuse fs) in an overlay
    include directory.  Returns extra -I flags ([] when the tree has the headers)."""
    import re
    extra = []
    for rel in GENERATED:
        if os.path.exists(os.path.join(root, rel)):
            continue
        tin = os.path.join(root, rel + ".in")
        if not os.path.exists(tin):
            raise AnalysisBroken("generated header %s and its template are both missing" % rel)
        g = os.path.join(cdir, "gen")
        out = os.path.join(g, "public", "module", os.path.basename(rel))
        os.makedirs(os.path.dirname(out), exist_ok=True)
        with open(tin) as fh:
            txt = re.sub(r"@[A-Za-z_0-9]+@", "", fh.read())
        tmp = out + ".tmp%d" % os.getpid()
        with open(tmp, "w") as fh:
            fh.write(txt)
        os.replace(tmp, out)
        extra = ["-I" + g, "-I" + os.path.join(g, "public")]
    return extra


def tree_hash(root):
    h = hashlib.sha256()
    files = []
    for dp, dn, fn in os.walk(os.path.join(root, "Lib")):
        for f in fn:
            if f.endswith((".c", ".h", ".h.in")):
                files.append(os.path.join(dp, f))
    for f in sorted(files):
        h.update(os.path.relpath(f, root).encode())
        with open(f, "rb") as fh:
            h.update(fh.read())
    with open(LMFACTS, "rb") as fh:
        h.update(hashlib.sha256(fh.read()).digest())
    return h.hexdigest()[:20]


def extract(root, ndebug=True, jobs=16):
    """Returns {unit_relpath: facts dict}.  Re-extracts whenever any source under root/Lib changed."""
    if not os.path.exists(LMFACTS):
        raise AnalysisBroken("bin/lmfacts missing: run MANIFEST.setup_cmd (make -C /verif)")
    root = os.path.abspath(root)
    units = unit_list(root)
    key = tree_hash(root) + ("-nd" if ndebug else "-dbg")
    cdir = os.path.join(CACHE, key)
    os.makedirs(cdir, exist_ok=True)

    extra = generated_overlay(root, cdir)

    def one(u):
        rel, ctx = u
        out = os.path.join(cdir, rel.replace("/", "__") + ".json")
        if not os.path.exists(out):
            tmp = out + ".tmp%d" % os.getpid()
            cmd = [LMFACTS, tmp, os.path.join(root, rel), "--"] + flags(root, ctx, ndebug) + extra
            r = subprocess.run(cmd, stdout=subprocess.PIPE, stderr=subprocess.PIPE, text=True)
            if r.returncode != 0 or not os.path.exists(tmp):
                raise AnalysisBroken("fact extraction failed for %s:\n%s" % (rel, r.stderr[-2000:]))
            os.replace(tmp, out)
        with open(out) as fh:
            return rel, json.load(fh)

    with ThreadPoolExecutor(max_workers=jobs) as ex:
        res = dict(ex.map(one, units))
    # keep the cache small: drop entries not used for an hour (never touch entries other runs may be using right now)
    try:
        import shutil
        import time
        now = time.time()
        os.utime(cdir, None)
        ents = [d for d in os.listdir(CACHE) if os.path.isdir(os.path.join(CACHE, d))]
        if len(ents) > 40:
            for d in ents:
                pth = os.path.join(CACHE, d)
                if d != key and now - os.path.getmtime(pth) > 3600:
                    shutil.rmtree(pth, ignore_errors=True)
    except OSError:
        pass
    return res


def crosscheck_compdb(root):
    """When root/_build exists, compare our flag table against ninja's compilation database (informational)."""
    b = os.path.join(root, "_build")
    if not os.path.exists(os.path.join(b, "build.ninja")):
        return None
    try:
        r = subprocess.run(["ninja", "-C", b, "-t", "compdb"], stdout=subprocess.PIPE, stderr=subprocess.DEVNULL, text=True)
        db = json.loads(r.stdout)
    except Exception:
        return None
    files = {os.path.relpath(e["file"], root) for e in db if "/Lib/" in e["file"] and e["file"].endswith(".c")}
    ours = {u for u, _ in unit_list(root)}
    return {"compdb_units": len(files), "ours": len(ours), "missing_in_ours": sorted(files - ours),
            "extra_in_ours": sorted(ours - files)}


if __name__ == "__main__":
    r = extract(sys.argv[1] if len(sys.argv) > 1 else "/repo")
    print(len(r), "units", sum(len(v["functions"]) for v in r.values()), "functions")
    print(crosscheck_compdb(sys.argv[1] if len(sys.argv) > 1 else "/repo"))
