"""Obligation bookkeeping, known findings, evidence and exit codes shared by all property checks."""
import json
import os
import time

from units import AnalysisBroken, VERIF

KNOWN = os.path.join(VERIF, "known_findings.json")
EVID = os.path.join(VERIF, "evidence")


class Ob:
    __slots__ = ("rule", "site", "ok", "detail", "nontrivial", "witness", "path", "config")

    def __init__(self, rule, site, ok, detail, nontrivial, witness, path, config):
        self.rule, self.site, self.ok, self.detail = rule, site, ok, detail
        self.nontrivial, self.witness, self.path, self.config = nontrivial, witness, path, config

    @property
    def key(self):
        return "%s@%s" % (self.rule, self.site)

    def asdict(self):
        d = {"rule": self.rule, "site": self.site, "verdict": "holds" if self.ok else "VIOLATED", "detail": self.detail}
        if self.path:
            d["path"] = self.path
        if self.config:
            d["config"] = self.config
        return d


class Check:
    def __init__(self, pid, tier="quick", root="/repo", level="other"):
        self.pid = pid
        self.tier = tier
        self.root = root
        self.level = level
        self.obs = []
        self.rules = {}          # rule id -> text
        self.floors = {}         # rule id -> minimum number of instances
        self.units = set()
        self.functions = set()
        self.call_sites = 0
        self.assumptions = []
        self.t0 = time.time()
        self.config = ""
        self.extra = {}
        self.not_decided = []
        self.witnesses = {}      # ob key -> list of mutation descriptors (thorough tier)

    # ---- declaring ---------------------------------------------------------
    def rule(self, rid, text, floor=1):
        self.rules[rid] = text
        self.floors[rid] = max(self.floors.get(rid, 0), floor)

    def analysed(self, *fns):
        for f in fns:
            if f is None:
                continue
            self.units.add(f.unit)
            self.functions.add(f.site())

    def ob(self, rule, site, ok, detail, nontrivial=True, witness=None, path=None):
        if rule not in self.rules:
            raise AnalysisBroken("internal: rule %s not declared" % rule)
        # a site is named by the code it designates, not by the synthetic names the helper inliner gives a helper's locals
        # (`sub__new_sub_0` is the `sub` of an extracted helper): the identity of a (known) finding survives the extraction
        import re as _re
        site = _re.sub(r"__[A-Za-z_][A-Za-z0-9_]*?_\d+\b", "", site)
        o = Ob(rule, site, bool(ok), detail, nontrivial, witness, path, self.config)
        self.obs.append(o)
        if witness:
            self.witnesses.setdefault(o.key, []).extend(witness)
        return bool(ok)

    def need(self, cond, msg):
        if not cond:
            raise AnalysisBroken(msg)

    # ---- finishing -----------------------------------------------------------
    def load_known(self):
        if not os.path.exists(KNOWN):
            return []
        with open(KNOWN) as fh:
            d = json.load(fh)
        return [k for k in d.get("findings", []) if k.get("property") == self.pid]

    def finish(self, write=True, quiet=False):
        # instance floors
        counts = {}
        for o in self.obs:
            counts[o.rule] = counts.get(o.rule, 0) + 1
        # a rule that matched fewer sites than were confirmed by reading means the analysis lost its footing — unless violations were
        # already established: those stand on their own (their cause is usually what made the other sites vanish)
        known = self.load_known()
        kmap = {"%s@%s" % (k["rule"], k["site"]): k for k in known}
        failing = any(not o.ok and o.key not in kmap for o in self.obs)
        for rid, fl in self.floors.items():
            if counts.get(rid, 0) < fl and not failing:
                raise AnalysisBroken("rule %s matched %d instance(s), floor confirmed by reading is %d"
                                     % (rid, counts.get(rid, 0), fl))
        # de-duplicate obligations seen in several configurations
        uniq = {}
        for o in self.obs:
            k = o.key
            if k not in uniq or (uniq[k].ok and not o.ok):
                uniq[k] = o
        obs = list(uniq.values())
        viol, kf = [], []
        for o in obs:
            if not o.ok:
                if o.key in kmap:
                    kf.append(o)
                else:
                    viol.append(o)
        stale = [k for k in kmap if k not in uniq or uniq[k].ok]
        out = []
        for o in kf:
            out.append("KNOWN-FINDING: property=%s %s — %s" % (self.pid, o.key, kmap[o.key].get("what", o.detail)))
        replay_paths = []
        if viol:
            os.makedirs(os.path.join(EVID, "replay"), exist_ok=True)
            for i, o in enumerate(viol):
                rp = os.path.join(EVID, "replay", "%s-%d.json" % (self.pid, i))
                with open(rp, "w") as fh:
                    json.dump({"property": self.pid, "root": self.root, **o.asdict(),
                               "rule_text": self.rules[o.rule]}, fh, indent=1)
                replay_paths.append(rp)
                out.append("VIOLATION property=%s replay=%s" % (self.pid, rp))
                out.append("  rule %s at %s: %s" % (o.rule, o.site, o.detail))
                if o.path:
                    out.append("  path: %s" % o.path)
        wall = time.time() - self.t0
        n_ob = len(obs)
        n_ok = sum(1 for o in obs if o.ok)
        nontrivial = len({o.key for o in obs if o.nontrivial})
        samples = [o.asdict() for o in obs if not o.ok][:10]
        seen_rules = set()
        for o in obs:
            if o.rule not in seen_rules and len(samples) < 40:
                seen_rules.add(o.rule)
                samples.append(o.asdict())
        cov = {
            "explanation": "Static analysis of /repo's current sources (clang AST/CFG facts, %d units, configuration %s). "
                           "Every obligation is a (rule, site) pair decided on the CFG/call graph; a pass means the listed "
                           "structural obligations hold on this tree, not that behaviour was observed." %
                           (len(self.units), self.extra.get("configs", "NDEBUG")),
            "rule": " || ".join("%s: %s" % (k, v) for k, v in sorted(self.rules.items())),
            "units": sorted(self.units),
            "functions": len(self.functions),
            "functions_list": sorted(self.functions)[:80],
            "call_sites": self.call_sites,
            "obligations": n_ob,
            "discharged": n_ok,
            "known_findings": [o.key for o in kf],
            "evaluations": n_ob,
            "distinct_nontrivial": nontrivial,
            "instances_per_rule": counts,
            "samples": samples,
            "not_decided": self.not_decided,
        }
        cov.update(self.extra)
        ev = {
            "property_id": self.pid, "tier": self.tier, "seed": int(os.environ.get("VERIF_SEED", "0") or 0),
            "level": self.level, "coverage": cov,
            "assumptions": self.assumptions + [
                "clang 14 front end, CFG construction (BuildOptions::setAllAlwaysAdd) and record layout are trusted",
                "memhook allocator and the context logger do not re-enter the library",
                "callers respect documented preconditions (handles are live references)",
            ],
            "wall_s": round(wall, 3), "violations": len(viol),
        }
        if self.level == "proof":
            cov["checker_cmd"] = self.extra.get("checker_cmd", "python3 engine/check.py %s" % self.pid)
            cov["trusted_base"] = self.extra.get("trusted_base", [])
        if write:
            os.makedirs(EVID, exist_ok=True)
            tmp = os.path.join(EVID, "%s.json.tmp%d" % (self.pid, os.getpid()))
            with open(tmp, "w") as fh:
                json.dump(ev, fh, indent=1)
            os.replace(tmp, os.path.join(EVID, "%s.json" % self.pid))
        if not quiet:
            print("[%s %s] units=%d functions=%d obligations=%d discharged=%d known=%d violations=%d wall=%.2fs"
                  % (self.pid, self.tier, len(self.units), len(self.functions), n_ob, n_ok, len(kf), len(viol), wall))
            for rid in sorted(self.rules):
                print("  %-14s %3d instance(s)  %s" % (rid, counts.get(rid, 0), self.rules[rid][:110]))
            for s in stale:
                print("  note: known finding '%s' no longer fails on this tree (entry is stale)" % s)
            for line in out:
                print(line)
        return 1 if viol else 0
