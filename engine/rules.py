"""Reusable rule primitives (DESIGN §3) on top of lm.Program."""
from collections import defaultdict

import lm
from lm import S, strip, atoms, cval, walk, root_var, Func
from units import AnalysisBroken

# external functions without side effects on library state (used for "no effect before the guard")
PURE_EXT = {
    "strcmp", "strncmp", "strlen", "strcasecmp", "__errno_location", "pthread_getspecific", "__builtin_popcount",
    "__builtin_expect", "regexec", "strerror", "dlerror", "__builtin_va_start", "__builtin_va_end", "pthread_self",
    "pthread_once",   # idempotent one-time initialisation (the thread-specific key): not an effect a guard must precede
}


# ----------------------------------------------------------------------------- lvalues / effects

def lvalue_class(e):
    """'local' (a local or by-value parameter object, incl. its members), 'mem' (through a pointer), 'global'."""
    e = strip(e)
    through_ptr = False
    while e is not None:
        k = e["k"]
        if k == "var":
            if through_ptr:
                return "mem"
            vk = e.get("vk")
            if vk in ("local", "param"):
                return "local"
            return "global"
        if k == "member":
            if e["arrow"]:
                through_ptr = True
            e = strip(e["base"])
        elif k == "index":
            b = strip(e["base"])
            if b is not None and "[" not in b.get("t", "") and b.get("t", "").endswith("*"):
                through_ptr = True
            e = b
        elif k == "un" and e["op"] == "*":
            through_ptr = True
            e = strip(e["e"])
        elif k == "call":
            return "mem"
        else:
            return "mem"
    return "mem"


class Effects:
    """Bottom-up summary: which functions have an effect visible outside their frame."""

    def __init__(self, P):
        self.P = P
        self.cg = P.callgraph()
        self.effectful = set()
        self._compute()

    def _direct(self, f):
        for ev in f.events():
            if ev.kind in ("assign", "incdec"):
                if lvalue_class(ev.lhs) != "local":
                    return True
        return False

    def _compute(self):
        P, cg = self.P, self.cg
        eff = set()
        for f in P.funcs:
            if self._direct(f):
                eff.add(f.key)
        for k, vs in cg.edges.items():
            for v in vs:
                if v[0] == "ext" and v[1] not in PURE_EXT and not v[1].startswith("__builtin"):
                    eff.add(k)
                if v[0] == "pseudo" and v[1] in ("USERCB", "USERTASK", "ALLOC"):
                    eff.add(k)
        changed = True
        while changed:
            changed = False
            for k, vs in cg.edges.items():
                if k in eff:
                    continue
                if any(v in eff for v in vs):
                    eff.add(k)
                    changed = True
        self.effectful = eff

    def is_effect(self, ev):
        if ev.kind in ("assign", "incdec"):
            return lvalue_class(ev.lhs) != "local"
        if ev.kind == "call":
            for t in self.cg.callees_of_event(ev):
                if isinstance(t, Func):
                    if t.key in self.effectful:
                        return True
                elif t[0] == "ext":
                    if t[1] not in PURE_EXT and not t[1].startswith("__builtin"):
                        return True
                elif t[0] == "pseudo" and t[1] in ("USERCB", "USERTASK", "ALLOC"):
                    return True
        return False


# ----------------------------------------------------------------------------- bail-out guards

class Guard:
    __slots__ = ("block", "cont", "cont_atoms", "retval", "ret_ev", "line", "effects_in_bail")

    def __repr__(self):
        return "<Guard @%d %s -> ret %s>" % (self.line, self.cont_atoms, self.retval)


def _ret_value(ev):
    e = ev.e
    if e is None:
        return "void"
    v = cval(e)
    if v is not None:
        return v
    s = strip(e)
    if s is not None and s["k"] == "null":
        return 0
    return None


def bail_path(fn, bid, cg=None, maxlen=4):
    """If block `bid` starts a straight-line path that only logs and then returns a constant, return
    (retvalue, ret_event, n_nonlog_events); else None."""
    n_other = 0
    cur = bid
    consts = {}     # single-exit style: `ret = -EPIPE; break; ... return ret;` — a plain local given a constant on this path
    for _ in range(maxlen):
        b = fn.blocks[cur]
        for ev in b.events:
            if ev.kind == "ret":
                v = _ret_value(ev)
                if v is None:
                    se = strip(ev.e)
                    if se is not None and se["k"] == "var" and se.get("name") in consts:
                        return (consts[se["name"]], ev, n_other)
                    return None
                return (v, ev, n_other)
            if ev.kind in ("assign", "decl") and ev.lhs is not None and ev.rhs is not None and strip(ev.lhs) is not None \
                    and strip(ev.lhs)["k"] == "var" and strip(ev.lhs).get("vk") in ("local", None):
                cv = cval(ev.rhs)
                if cv is None and strip(ev.rhs) is not None and strip(ev.rhs)["k"] == "null":
                    cv = 0
                if cv is not None:
                    consts[strip(ev.lhs)["name"]] = cv
                    continue
                consts.pop(strip(ev.lhs)["name"], None)
            if ev.kind == "call":
                if ev.callee is None:
                    fe = strip(ev.e["fn"])
                    base = fe
                    while base is not None and base["k"] == "index":
                        base = strip(base["base"])
                    if base is not None and base["k"] == "member" and base.get("rec") == "m_logger":
                        continue
                n_other += 1
            elif ev.kind == "decl":
                continue
            else:
                n_other += 1
        nxt = [s for s in b.succs if s is not None]
        if len(nxt) != 1:
            return None
        # an unconditional jump (break / goto) or a branch whose other edge the front end pruned as constant (`while (false)`) is
        # still a straight line
        if b.term and not (b.term.get("kind") in ("BreakStmt", "GotoStmt") or len(b.succs) > len(nxt)):
            return None
        cur = nxt[0]
    return None


def bailouts(fn):
    """All two-way branches one arm of which is a log-and-return-constant bail-out."""
    out = []
    for bid in fn.reachable():
        es = fn.edges(bid)
        if len(es) != 2 or es[0][2] not in (True, False):
            continue
        for i in (0, 1):
            s, cond, br = es[i]
            bp = bail_path(fn, s)
            if bp is None:
                continue
            # the other arm must not be a bail-out too with the same value (then it is not a guard)
            g = Guard()
            g.block = bid
            g.cont = es[1 - i][2]
            g.cont_atoms = atoms(cond, g.cont)
            g.retval, g.ret_ev, g.effects_in_bail = bp
            g.line = fn.blocks[bid].term["line"]
            out.append(g)
            break
    return out


# ----------------------------------------------------------------------------- must-facts with aliases and kills

def mustfacts(fn, kill=None, alias=True, passed=False):
    """Must-hold branch facts with copy propagation of simple aliases (x = y  ⇒ facts on y also hold on x).
    passed=True gives "this guard edge was taken on every path to here" semantics: only re-assignment of a whole
    variable the atom mentions invalidates it (a store to a field the guard tested does not).
    Returns (IN, transfer)."""

    def gen(ev):
        return ()

    # Conditional definitions.  `p = NULL; if (C) p = f(); ...; if (p) use` — the use is under C although no branch on C dominates it.
    # A local assigned a non-constant value is remembered with the facts that held at that assignment ("@cond|p|[facts]"); where such a
    # state meets one in which the local is known to be NULL/0 the memory survives the join; a later test that the local is non-NULL
    # re-establishes those facts (minus whatever was killed in between).
    import ast as _ast

    def _cond_items(st):
        return [f for f in st if f[0].startswith("@cond|")]

    def _cond_parse(f):
        _tag, v, body = f[0].split("|", 2)
        return v, frozenset(_ast.literal_eval(body))

    def _cond_make(v, G):
        return ("@cond|%s|%r" % (v, sorted(G)), True)

    def transfer(st, ev):
        dead = set()
        lhs = ev.lhs
        lhs_s = S(lhs) if lhs is not None else None
        if passed and lhs is not None and strip(lhs)["k"] != "var":
            lhs_s = None
        for f in st:
            if f[0].startswith("@cond|"):
                continue
            if lhs_s is not None and lm._mentions(f[0], lhs_s):
                dead.add(f)
            elif kill and kill(f, ev):
                dead.add(f)
        if ev.kind == "call":
            for a_ in ev.args:
                sa_ = strip(a_)
                if sa_ is not None and sa_["k"] == "un" and sa_["op"] == "&" and strip(sa_["e"]) is not None and strip(sa_["e"])["k"] == "var":
                    vn_ = strip(sa_["e"])["name"]
                    for f in st:
                        if not f[0].startswith("@cond|") and (f[0] == vn_ or f[0] == "(%s == 0)" % vn_):
                            dead.add(f)         # the callee may store through &v: what was known about v's value is gone
        conds = _cond_items(st)
        if conds:
            repl = set()
            for cf in conds:
                v, G = _cond_parse(cf)
                if lhs_s is not None and lhs_s == v:
                    dead.add(cf)
                    continue
                G2 = frozenset(g for g in G if not ((lhs_s is not None and lm._mentions(g[0], lhs_s)) or (kill and kill(g, ev))))
                if G2 != G:
                    dead.add(cf)
                    if G2:
                        repl.add(_cond_make(v, G2))
            st = (st - dead) | frozenset(repl)
            dead = set()
        if dead:
            st = st - dead
        # remember under which facts a plain local gets its value
        if ev.kind in ("assign", "decl") and lhs is not None and strip(lhs)["k"] == "var" and strip(lhs).get("vk") in ("local", None) \
                and (ev.kind == "decl" or ev.e.get("op") == "="):
            vname = S(lhs)
            if ev.rhs is not None:
                if strip(ev.rhs)["k"] == "null" or cval(ev.rhs) == 0:
                    st = st | frozenset([(vname, False)])
                elif cval(ev.rhs) is None:
                    G = frozenset(f for f in st if not f[0].startswith("@cond|") and not lm._mentions(f[0], vname))
                    if G:
                        st = st | frozenset([_cond_make(vname, G)])
        if lhs_s is None and lhs is not None:
            lhs_s = S(lhs)
        if alias and ev.kind in ("assign", "decl") and ev.rhs is not None and ev.kind != "incdec":
            if ev.kind == "assign" and ev.e.get("op") != "=":
                return st
            r = strip(ev.rhs)
            if r is not None and "cv" not in r and r.get("vk") not in ("enum", "func") \
                    and r["k"] in ("var", "member", "un") and (r["k"] != "un" or r["op"] == "*"):
                rs = S(r)
                add = set()
                for f in st:
                    if lm._mentions(f[0], rs):
                        add.add((_subst(f[0], rs, lhs_s), f[1]))
                if add:
                    st = st | frozenset(add)
        return st

    def edge(st, cond, br, blk):
        if cond is None:
            return st
        if br in (True, False):
            new = frozenset(atoms(cond, br))
            if any((a_, not p_) in st for (a_, p_) in new):
                return None            # the state already knows the opposite: this edge is not taken from here
            out = st | new
            # a local now known to be non-NULL brings back the facts of its (only non-NULL) definition
            for (a_, p_) in new:
                if p_ is True or (a_.startswith("(") and a_.endswith(" == 0)") and p_ is False):
                    vn = a_ if p_ is True else a_[1:-6]
                    for cf in _cond_items(st):
                        v, G = _cond_parse(cf)
                        if v == vn:
                            out = out | G
            return out
        if br is not None and br[0] == "case":
            return st | frozenset([("(%s == %s)" % (S(cond), br[1]), True)])
        return st

    def join(a, b):
        base = a & b
        ca, cb = {(_cond_parse(f)[0]): _cond_parse(f)[1] for f in _cond_items(a)}, {(_cond_parse(f)[0]): _cond_parse(f)[1] for f in _cond_items(b)}
        extra = set()
        for v in set(ca) | set(cb):
            if v in ca and v in cb:
                G = ca[v] & cb[v]
            elif v in ca and (v, False) in b:
                G = ca[v]                # on the other side the local is NULL: "non-NULL" still means "came through that definition"
            elif v in cb and (v, False) in a:
                G = cb[v]
            else:
                continue
            if G:
                extra.add(_cond_make(v, G))
        base = frozenset(f for f in base if not f[0].startswith("@cond|")) | frozenset(extra)
        return base

    IN = fn.forward(frozenset(), transfer, edge, join)
    return IN, transfer


def _subst(atom, old, new):
    out = []
    i = 0
    n = len(old)
    while i < len(atom):
        j = atom.find(old, i)
        if j == -1:
            out.append(atom[i:])
            break
        before = atom[j - 1] if j > 0 else " "
        after = atom[j + n] if j + n < len(atom) else " "
        is_field = (before == ">" and j >= 2 and atom[j - 2] == "-") or before == "."
        if not (before.isalnum() or before == "_") and not (after.isalnum() or after == "_") and not is_field:
            out.append(atom[i:j] + new)
        else:
            out.append(atom[i:j + n])
        i = j + n
    return "".join(out)


PURE_GETTERS = {"m_queue_len", "m_map_len", "m_list_len", "m_bst_len", "m_stack_len", "m_mod_is", "pthread_getspecific"}


def pure_local_defs(fn):
    """{local: defining expression} for the locals of fn that have exactly one definition, whose address is never taken and whose
    definition reads only variables, fields, constants and the library's pure getters."""
    c = getattr(fn, "_pure_defs", None)
    if c is not None:
        return c
    defs, bad = {}, set()
    for ev in fn.events():
        if ev.kind in ("decl", "assign", "incdec") and ev.lhs is not None and strip(ev.lhs)["k"] == "var" and strip(ev.lhs).get("vk") in ("local", None):
            n = S(ev.lhs)
            if ev.kind == "incdec" or (ev.kind == "assign" and ev.e.get("op") != "=") or n in defs:
                bad.add(n)
            elif ev.rhs is not None:
                defs[n] = ev.rhs
        for x in lm.walk(ev.e):
            if isinstance(x, dict) and x.get("k") == "un" and x.get("op") == "&" and strip(x["e"]) is not None and strip(x["e"]).get("k") == "var":
                bad.add(strip(x["e"])["name"])
    out = {}
    for n, r in defs.items():
        if n in bad:
            continue
        if any(isinstance(x, dict) and ((x.get("k") == "call" and x.get("callee") not in PURE_GETTERS) or
                                        (x.get("k") == "un" and x.get("op") in ("++", "--")) or x.get("k") == "assign")
               for x in lm.walk(r)):
            continue
        out[n] = r
    fn._pure_defs = out
    fn._pure_def_events = {S(ev.lhs): ev for ev in fn.events() if ev.kind in ("decl", "assign") and ev.lhs is not None and S(ev.lhs) in out
                           and ev.rhs is not None}
    return out


def stable_S(P, cg, fn, at, e):
    """Canonical string of expression e at event `at`, with single-definition locals replaced by their defining expressions where that
    is still exact at `at`: between the definition and `at` this function does not store to a field the definition loads and calls
    nothing that may (transitively) store to such a field.  `m_list_t *const threads = pool->threads; … m_list_insert(threads, th)` reads
    as `m_list_insert(pool->threads, th)`; a cached value that can have gone stale is left alone."""
    return stable_subst(P, cg, fn, at, S(e))


def stable_atoms(P, cg, fn, at, facts):
    """The facts, plus each one re-written through single-definition locals where that is exact at `at` (see stable_S)."""
    out = set(facts or ())
    for (a, p) in list(out):
        if a.startswith("@cond|"):
            continue
        a2 = stable_subst(P, cg, fn, at, a)
        if a2 != a:
            out.add((a2, p))
    return out


def stable_subst(P, cg, fn, at, s):
    defs = pure_local_defs(fn)
    for _ in range(4):
        changed = False
        for n, d in defs.items():
            if not lm._mentions(s, n):
                continue
            dev = fn._pure_def_events.get(n)
            if dev is None or not fn.ev_dominates(dev, at):
                continue
            loads = {(x.get("rec"), x.get("field")) for x in lm.walk(d) if isinstance(x, dict) and x.get("k") == "member"}
            getters = [x for x in lm.walk(d) if isinstance(x, dict) and x.get("k") == "call"]
            writers = set()
            for (rec, fld) in loads:
                for w in P.all_events():
                    if w.kind in ("assign", "incdec") and w.lhs is not None:
                        l = strip(w.lhs)
                        if l is not None and l.get("k") == "member" and l.get("field") == fld:
                            writers.add(w.fn.key)
            ok = True
            for x in events_between(fn, dev, at):
                if x.kind in ("assign", "incdec") and x.lhs is not None:
                    l = strip(x.lhs)
                    if l is not None and l.get("k") == "member" and (l.get("rec"), l.get("field")) in loads:
                        ok = False
                    if l is not None and l.get("k") == "var" and lm._mentions(S(d), l.get("name", "")):
                        ok = False
                elif x.kind == "call":
                    if getters and not (x.callee in PURE_GETTERS):
                        if x.callee is None or cg.callees_of_event(x):
                            ok = False       # a getter's answer may change across any library call
                    elif writers and cg.event_may_reach(x, cg.may_reach_set(lambda n_, w_=frozenset(writers): n_ in w_)):
                        ok = False
                if not ok:
                    break
            if ok:
                rs = S(d)
                r0 = strip(d)
                if r0["k"] in ("bin", "cond") and not (rs.startswith("(") and rs.endswith(")")):
                    rs = "(%s)" % rs
                s2 = _subst(s, n, rs)
                if s2 != s:
                    s, changed = s2, True
        if not changed:
            break
    return s


def resolve_atoms(fn, items, rounds=5):
    """Atoms over locals, read through the locals' definitions (value at definition time — the same reading the copy propagation of
    boolean locals gives): `owner == &mod->tb` with `owner = src->userptr` also yields `src->userptr == &mod->tb`; a boolean local that
    is known true yields the atoms of its defining condition.  Returns the originals plus everything derived."""
    import re as _re
    defs = pure_local_defs(fn)
    out = set(items)
    if not defs:
        return out
    work = list(out)
    for _ in range(rounds):
        nxt = []
        for (a, p) in work:
            if a.startswith("@cond|"):
                continue
            if a in defs:
                for ap in atoms(defs[a], p):
                    if ap not in out:
                        out.add(ap)
                        nxt.append(ap)
                continue
            for n in set(_re.findall(r"[A-Za-z_]\w*", a)):
                if n in defs and lm._mentions(a, n):
                    r = strip(defs[n])
                    rs = S(r)
                    if r["k"] in ("bin", "cond") and not (rs.startswith("(") and rs.endswith(")")):
                        rs = "(%s)" % rs
                    a2 = _subst(a, n, rs)
                    if a2 != a and (a2, p) not in out:
                        out.add((a2, p))
                        nxt.append((a2, p))
        if not nxt:
            break
        work = nxt
    return out


def facts_at(fn, ev, kill=None, cache=None):
    key = (fn.key, id(kill))
    if cache is not None and key in cache:
        IN, tr = cache[key]
    else:
        IN, tr = mustfacts(fn, kill)
        if cache is not None:
            cache[key] = (IN, tr)
    return fn.state_before(IN, ev, tr)


# ----------------------------------------------------------------------------- tag analyses (may / must)

def tag_analysis(fn, step, must=True, init=frozenset(), edge=None):
    """Forward analysis over frozensets of tags.  step(state, ev) -> state.  must: join = intersection,
    else union."""
    join = (lambda a, b: a & b) if must else (lambda a, b: a | b)
    IN = fn.forward(init, step, edge, join)
    return IN


# ----------------------------------------------------------------------------- reaching definitions

def reaching_defs(fn):
    """IN map: block -> frozenset of (var, def_event_id or 'param'/'uninit').  def ids index fn._defs."""
    defs = {}

    def transfer(st, ev):
        if ev.kind in ("assign", "decl", "incdec"):
            l = strip(ev.lhs)
            if l is not None and l["k"] == "var" and l.get("vk") in ("local", "param", "slocal"):
                v = l["name"]
                did = (ev.block.id, ev.idx)
                defs[did] = ev
                if ev.kind == "assign" and ev.e.get("op") != "=":
                    return st | frozenset([(v, did)])
                if ev.kind == "incdec":
                    return st | frozenset([(v, did)])
                return frozenset(x for x in st if x[0] != v) | frozenset([(v, did)])
        return st

    init = frozenset((p["name"], "param") for p in fn.params)
    IN = fn.forward(init, transfer, None, lambda a, b: a | b)
    return IN, transfer, defs


def returned_values(P, fn, depth=0, _seen=None):
    """Set describing what `fn` may return: ints, or ('call', name), ('expr', str), ('param', name)."""
    _seen = _seen or set()
    if fn.key in _seen:
        return set()
    _seen = _seen | {fn.key}
    IN, tr, defs = reaching_defs(fn)
    out = set()

    def val_of(e, st, depth2=0):
        e0 = strip(e)
        v = cval(e)
        if v is not None:
            return {v}
        if e0 is None:
            return {("expr", "void")}
        if e0["k"] == "var" and e0.get("vk") in ("local", "param", "slocal"):
            res = set()
            for (var, did) in st:
                if var != e0["name"]:
                    continue
                if did == "param":
                    res.add(("param", var))
                    continue
                dev = defs[did]
                if dev.kind == "incdec" or (dev.kind == "assign" and dev.e.get("op") != "="):
                    res.add(("expr", S(dev.e)))
                    continue
                if dev.rhs is None:
                    res.add(("expr", "uninit " + var))
                    continue
                if depth2 > 6:
                    res.add(("expr", S(dev.rhs)))
                    continue
                st2 = fn.state_before(IN, dev, tr)
                res |= val_of(dev.rhs, st2, depth2 + 1)
            return res or {("expr", S(e0))}
        if e0["k"] == "cond":
            return val_of(e0["a"], st, depth2 + 1) | val_of(e0["b"], st, depth2 + 1)
        if e0["k"] == "call" and e0.get("callee"):
            tf = P.resolve(fn, e0["callee"])
            if tf is not None and depth < 4:
                sub = returned_values(P, tf, depth + 1, _seen)
                if sub and all(isinstance(x, int) for x in sub):
                    return set(sub)
            return {("call", e0["callee"])}
        return {("expr", S(e0))}

    for ev in fn.events():
        if ev.kind == "ret":
            st = fn.state_before(IN, ev, tr)
            if ev.e is None:
                out.add(("expr", "void"))
            else:
                out |= val_of(ev.e, st)
    return out


# ----------------------------------------------------------------------------- path helpers

def events_between(fn, a, b):
    """Events that may execute after event a and before event b (on some path a -> b), a and b excluded.
    Over-approximation: all events in blocks reachable from a's position that can still reach b."""
    # forward reachable from a
    fwd = set()
    st = [s for s in a.block.succs if s is not None]
    while st:
        x = st.pop()
        if x in fwd:
            continue
        fwd.add(x)
        st.extend(s for s in fn.blocks[x].succs if s is not None)
    # backward reachable from b
    bwd = set()
    st = list(b.block.preds)
    while st:
        x = st.pop()
        if x in bwd:
            continue
        bwd.add(x)
        st.extend(fn.blocks[x].preds)
    out = []
    if a.block.id == b.block.id and a.idx < b.idx:
        out.extend(a.block.events[a.idx + 1:b.idx])
        if a.block.id not in fwd:
            return out
        # loop: may go around
    mid = fwd & bwd
    if a.block.id != b.block.id or a.block.id in mid:
        if a.block.id != b.block.id:
            out.extend(a.block.events[a.idx + 1:])
            out.extend(b.block.events[:b.idx])
        for m in mid:
            if m != a.block.id and m != b.block.id:
                out.extend(fn.blocks[m].events)
            elif m == a.block.id and m == b.block.id:
                out.extend(x for x in a.block.events if x is not a and x is not b)
            elif m == a.block.id:
                out.extend(x for x in a.block.events if x is not a)
            elif m == b.block.id:
                out.extend(x for x in b.block.events if x is not b)
    # unique, keep order
    seen, res = set(), []
    for x in out:
        if id(x) not in seen:
            seen.add(id(x))
            res.append(x)
    return res


def may_precede(fn, a, b):
    """Some path executes event a and later event b."""
    if a.block.id == b.block.id and a.idx < b.idx:
        return True
    seen = set()
    st = [s for s in a.block.succs if s is not None]
    while st:
        x = st.pop()
        if x in seen:
            continue
        seen.add(x)
        st.extend(s for s in fn.blocks[x].succs if s is not None)
    return b.block.id in seen


def path_events(fn, path):
    """Events along an enumerated path (list of (block, atoms))."""
    for (bid, _at) in path:
        yield from fn.blocks[bid].events


def zero_forms(d):
    """`(x == 0)` true and `x` false are one assumption (switch case vs. if): make both spellings available.  Only for functions in
    which the variables involved are tested once per path (path assumptions are keyed by name, first test wins)."""
    for a, p in list(d.items()):
        if p is None:
            continue
        if a.startswith("(") and a.endswith(" == 0)"):
            d.setdefault(a[1:-6], not p)
        else:
            d.setdefault("(%s == 0)" % a, not p)
    return d


def path_assumes(path):
    d = {}
    for (_b, at) in path:
        for (a, p) in at:
            d.setdefault(a, p)
    return d


def path_assumes_aliased(fn, path):
    """path_assumes, plus: a test of a local that at that moment holds a copy of an lvalue (`ev = tmp->ev; if (ev) …`) is also a test of
    that lvalue.  The copy relation is followed along the path and dropped when either side is assigned."""
    d = {}
    copies = {}          # local -> canonical string of the lvalue it was copied from
    for (bid, at) in path:
        for ev in fn.blocks[bid].events:
            if ev.kind in ("decl", "assign", "incdec") and ev.lhs is not None:
                lv = S(ev.lhs)
                for x in [x for x, y in copies.items() if x == lv or lm._mentions(y, lv) or y == lv]:
                    del copies[x]
                if ev.kind in ("decl", "assign") and (ev.kind == "decl" or ev.e.get("op") == "=") and ev.rhs is not None \
                        and strip(ev.lhs)["k"] == "var" and strip(ev.lhs).get("vk") in ("local", None):
                    r = strip(ev.rhs)
                    if r is not None and "cv" not in r and r["k"] in ("member", "un", "var") and (r["k"] != "un" or r["op"] == "*") \
                            and r.get("vk") not in ("enum", "func"):
                        copies[lv] = S(r)
        for (a, p) in at:
            d.setdefault(a, p)
            for x, y in copies.items():
                if lm._mentions(a, x):
                    d.setdefault(_subst(a, x, y), p)
    return d


def path_assumes_after(path, ev):
    """Assumptions made on the part of the path that follows event ev (its own block's outgoing edge included)."""
    d = {}
    seen = False
    for (b, at) in path:
        if b == ev.block.id:
            seen = True
        if seen:
            for (a, p) in at:
                d.setdefault(a, p)
    return d


def fmt_path(fn, path, limit=40):
    parts = []
    for (bid, at) in path:
        b = fn.blocks[bid]
        ln = b.events[0].line if b.events else (b.term["line"] if b.term else None)
        cond = ",".join(("" if p else "!") + a for a, p in at)
        parts.append("B%d%s%s" % (bid, ("@%d" % ln) if ln else "", ("[" + cond + "]") if cond else ""))
    if len(parts) > limit:
        parts = parts[:limit] + ["..."]
    return " -> ".join(parts)


def const_arg(ev, i):
    if i < len(ev.args):
        return cval(ev.args[i])
    return None


def find_calls(fn, name):
    return list(fn.calls(name))


def indirect_calls(P, fn, pseudo):
    """Call events in fn that may go to the pseudo target (e.g. 'USERCB')."""
    cg = P.callgraph()
    out = []
    for ev in fn.calls():
        if ev.callee is None:
            if pseudo in cg.pt.vals(ev.e["fn"], fn):
                out.append(ev)
    return out


# ----------------------------------------------------------------------------- copy propagation of locals

class Expander:
    """Rewrites an expression at a program point so that single-definition locals are replaced by their defining
    expressions (bookkeeping of names, not constraint solving).  Result is the canonical string."""

    def __init__(self, fn, stable=True):
        """stable=True: never expand a local whose defining lvalue is stored to somewhere in the function (the alias
        would be stale); stable=False expands to the value *at definition time* (caller checks the ordering)."""
        self.fn = fn
        self.stable = stable
        self.IN, self.tr, self.defs = reaching_defs(fn)
        self.params = {p["name"] for p in fn.params}
        # lvalues stored to somewhere in the function: a local defined from one of them is not a stable alias
        self.stored = set()
        for x in fn.events():
            if x.kind in ("assign", "incdec") and x.lhs is not None and strip(x.lhs)["k"] != "var":
                self.stored.add(S(x.lhs))

    def at(self, ev, e, depth=0):
        st = self.fn.state_before(self.IN, ev, self.tr)
        return self._x(e, st, depth)

    def _x(self, e, st, depth):
        e = strip(e)
        if e is None:
            return "<none>"
        k = e["k"]
        if "cv" in e:
            return str(e["cv"])
        if k == "var" and e.get("vk") in ("local", "param") and depth < 8 and st is not None:
            ds = [d for (v, d) in st if v == e["name"]]
            if len(ds) == 1 and ds[0] != "param":
                dev = self.defs[ds[0]]
                if dev.kind in ("decl", "assign") and dev.rhs is not None and (dev.kind == "decl" or dev.e.get("op") == "="):
                    r = strip(dev.rhs)
                    if r is not None and r["k"] in ("var", "member", "un", "index", "call", "cond", "null", "bin", "int") \
                            and (not self.stable or S(r) not in self.stored):
                        st2 = self.fn.state_before(self.IN, dev, self.tr)
                        return self._x(r, st2, depth + 1)
            return e["name"]
        if k == "member":
            b = self._x(e["base"], st, depth)
            if not e["field"]:
                return b + ("->" if e["arrow"] else "")
            if b.endswith("->"):
                return b + e["field"]
            return b + ("->" if e["arrow"] else ".") + e["field"]
        if k == "un":
            inner = self._x(e["e"], st, depth)
            if e["op"] == "*":
                if inner.startswith("&"):
                    return inner[1:]
                return "*" + inner
            if e["op"] == "&" and inner.startswith("*"):
                return inner[1:]
            if e["op"] in ("++", "--") and e.get("postfix"):
                return inner + e["op"]
            return e["op"] + inner
        if k == "index":
            return self._x(e["base"], st, depth) + "[" + self._x(e["idx"], st, depth) + "]"
        if k == "call":
            fnn = e["callee"] if e.get("callee") else "(" + self._x(e["fn"], st, depth) + ")"
            if fnn == "__errno_location":
                return "&errno"
            return fnn + "(" + ", ".join(self._x(a, st, depth) for a in e["args"]) + ")"
        if k in ("bin", "assign"):
            return "(" + self._x(e["l"], st, depth) + " " + e["op"] + " " + self._x(e["r"], st, depth) + ")"
        if k == "cond":
            return "(" + self._x(e["c"], st, depth) + " ? " + self._x(e["a"], st, depth) + " : " + self._x(e["b"], st, depth) + ")"
        return S(e)


def field_stores(fn, rec, field):
    out = []
    for ev in fn.events():
        if ev.kind in ("assign", "incdec"):
            l = strip(ev.lhs)
            if l is not None and l["k"] == "member" and l["field"] == field and (rec is None or l["rec"] == rec):
                out.append(ev)
    return out


def dtor_calls(fn, recs=None):
    """Indirect calls through a field named 'dtor'."""
    out = []
    for ev in fn.calls():
        if ev.callee is None:
            fe = strip(ev.e["fn"])
            if fe is not None and fe["k"] == "member" and fe["field"] == "dtor" and (recs is None or fe["rec"] in recs):
                out.append(ev)
    return out


# ----------------------------------------------------------------------------- path feasibility with boolean locals

def tri_and(a, b):
    if a is False or b is False:
        return False
    if a is None or b is None:
        return None
    return True


def tri_or(a, b):
    if a is True or b is True:
        return True
    if a is None or b is None:
        return None
    return False


def tri_not(a):
    return None if a is None else (not a)


def eval_bool(e, assumed, env):
    """3-valued evaluation of a boolean expression under the atoms assumed on a path and the symbolic values of locals."""
    e = strip(e)
    if e is None:
        return None
    v = cval(e)
    if v is not None:
        return bool(v)
    if e["k"] == "var" and e["name"] in env:
        x = env[e["name"]]
        if x in (True, False, None):
            return x
        return assumed.get(x[1])
    if e["k"] == "un" and e["op"] == "!":
        return tri_not(eval_bool(e["e"], assumed, env))
    if e["k"] == "bin" and e["op"] == "&&":
        return tri_and(eval_bool(e["l"], assumed, env), eval_bool(e["r"], assumed, env))
    if e["k"] == "bin" and e["op"] == "||":
        return tri_or(eval_bool(e["l"], assumed, env), eval_bool(e["r"], assumed, env))
    ats = atoms(e, True)
    if len(ats) == 1:
        a, p = ats[0]
        if a in assumed:
            return assumed[a] == p
    return None


def sym_value(e, assumed, env):
    """True / False / ("sym", atom) — the value of a boolean expression with known parts folded away."""
    v = eval_bool(e, assumed, env)
    if v is not None:
        return v
    r = strip(e)
    if r["k"] == "var" and r["name"] in env:
        return env[r["name"]]
    if r["k"] == "bin" and r["op"] == "&&":
        l = eval_bool(r["l"], assumed, env)
        if l is True:
            return sym_value(r["r"], assumed, env)
        rr = eval_bool(r["r"], assumed, env)
        if rr is True:
            return sym_value(r["l"], assumed, env)
    if r["k"] == "bin" and r["op"] == "||":
        l = eval_bool(r["l"], assumed, env)
        if l is False:
            return sym_value(r["r"], assumed, env)
        rr = eval_bool(r["r"], assumed, env)
        if rr is False:
            return sym_value(r["l"], assumed, env)
    ats = atoms(e, True)
    if len(ats) == 1 and ats[0][1]:
        return ("sym", ats[0][0])
    return ("sym", S(e))


def const_eval(e, ints, assumed):
    """Integer constant of an expression given known integer locals/parameters (NULL = 0); None if unknown."""
    v = cval(e)
    if v is not None:
        return v
    e0 = strip(e)
    if e0 is None:
        return None
    if e0["k"] == "var" and e0["name"] in ints:
        return ints[e0["name"]]
    if e0["k"] == "cond":
        c = eval_bool(e0["c"], assumed, {})
        if c is None:
            cc = const_eval(e0["c"], ints, assumed)
            if cc is not None:
                c = bool(cc)
        a, b = const_eval(e0["a"], ints, assumed), const_eval(e0["b"], ints, assumed)
        if c is True:
            return a
        if c is False:
            return b
        if a is not None and a == b:
            return a
    if e0["k"] == "bin" and e0["op"] in ("==", "!="):
        l, r = const_eval(e0["l"], ints, assumed), const_eval(e0["r"], ints, assumed)
        if l is not None and r is not None:
            return int((l == r) == (e0["op"] == "=="))
    if e0["k"] == "un" and e0["op"] == "!":
        x = const_eval(e0["e"], ints, assumed)
        if x is not None:
            return int(not x)
    return None


def simulate(f, path, preset=None):
    """Walk an enumerated path keeping symbolic values of boolean locals (copy propagation).  Returns
    (feasible, env, assumed, events) — infeasible when a branch on a local contradicts its propagated value."""
    import re as _re
    env = {}
    ints = dict(preset or {})   # integer locals/parameters holding a known constant (constant propagation along the path)
    assumed = {}
    evs = []
    for (bid, at) in path:
        for ev in f.blocks[bid].events:
            evs.append(ev)
            if ev.kind in ("decl", "assign", "incdec") and ev.lhs is not None and strip(ev.lhs)["k"] == "var":
                name = S(ev.lhs)
                if ev.kind in ("decl", "assign") and (ev.kind == "decl" or ev.e["op"] == "=") and ev.rhs is not None:
                    t = (ev.e.get("t") if ev.kind == "decl" else strip(ev.lhs).get("t", "")) or ""
                    cv_ = const_eval(ev.rhs, ints, assumed)
                    if ("bool" in t or "_Bool" in t) and cv_ is None:
                        ints.pop(name, None)
                        for k_ in [k_ for k_ in env if False]:
                            pass
                        env[name] = sym_value(ev.rhs, assumed, {**{k: bool(v) for k, v in ints.items()}, **env})
                    elif cv_ is not None:
                        ints[name] = cv_
                        env.pop(name, None)
                    else:
                        ints.pop(name, None)
                else:
                    ints.pop(name, None)
            elif ev.kind == "call":
                for a_ in ev.args:
                    sa = strip(a_)
                    if sa is not None and sa["k"] == "un" and sa["op"] == "&" and strip(sa["e"])["k"] == "var":
                        ints.pop(strip(sa["e"])["name"], None)
        for (a, p) in at:
            m_ = _re.match(r"^\((\w+) (==|<|>) (-?\d+)\)$", a)
            if m_ and m_.group(1) in ints:
                v, k = ints[m_.group(1)], int(m_.group(3))
                truth = {"==": v == k, "<": v < k, ">": v > k}[m_.group(2)]
                if truth != p:
                    return False, env, assumed, evs
                continue
            if a in ints:
                if bool(ints[a]) != p:
                    return False, env, assumed, evs
                continue
            if a in env:
                x = env[a]
                if x in (True, False):
                    if x != p:
                        return False, env, assumed, evs
                    continue
                if x is not None:
                    sym = x[1]
                    if sym in assumed and assumed[sym] != p:
                        return False, env, assumed, evs
                    assumed[sym] = p
                    env[a] = p
                    continue
            if a in assumed and assumed[a] != p:
                return False, env, assumed, evs
            assumed[a] = p
    return True, env, assumed, evs




def value_sources(f, name, _seen=None):
    """Canonical strings of the non-variable expressions a local can hold, followed through copies between locals (flow-insensitive)."""
    _seen = _seen if _seen is not None else set()
    if name in _seen:
        return set()
    _seen.add(name)
    out = set()
    for d in f.events():
        if d.kind in ("decl", "assign") and d.lhs is not None and d.rhs is not None and S(d.lhs) == name:
            r = strip(d.rhs)
            if r["k"] == "var" and r.get("vk") in ("local", "param") and cval(r) is None:
                out |= value_sources(f, r["name"], _seen)
            else:
                out.add(S(r))
    return out


def path_final_const(f, path, lvalue):
    """Constant held by `lvalue` (canonical string) at the end of an enumerated path, folding `=`, `|=`, `&=` of constants and copies of
    locals whose constant is known on this path.  Returns (stored, value): stored False when the path never stores to it; value None
    when the stored value is not a constant."""
    ints = {}
    stored, val = False, None
    asm = path_assumes(path)         # a conditional expression `c ? A : B` is folded by the arm the path took
    for ev in path_events(f, path):
        if ev.kind not in ("decl", "assign") or ev.lhs is None or ev.rhs is None:
            continue
        name = S(ev.lhs)
        op = ev.e.get("op", "=") if ev.kind == "assign" else "="
        rv = const_eval(ev.rhs, ints, asm)
        isvar = strip(ev.lhs)["k"] == "var"
        cur = ints.get(name) if isvar else (val if (name == lvalue or (isinstance(lvalue, (set, frozenset)) and name in lvalue)) else None)
        if op == "=":
            new = rv
        elif op == "|=" and rv is not None and cur is not None:
            new = cur | rv
        elif op == "&=" and rv is not None and cur is not None:
            new = cur & rv
        else:
            new = None
        if isvar:
            if new is None:
                ints.pop(name, None)
            else:
                ints[name] = new
        if name == lvalue or (isinstance(lvalue, (set, frozenset)) and name in lvalue):
            stored, val = True, new
    return stored, val


def assumed_one_of(asm, expr, values):
    """The path assumptions establish expr ∈ values: a direct test of one of the values, or a disjunction of tests that only names them
    (`(x == 0) || (x == 1)` taken true)."""
    import re as _re
    vals = set(values)
    for v in vals:
        if asm.get("(%s == %d)" % (expr, v)) is True or (v == 0 and asm.get(expr) is False):
            return True
    pat = _re.compile(r"^\(%s == (-?\d+)\)$" % _re.escape(expr))
    for k, pol in asm.items():
        if pol is not True or " || " not in k:
            continue
        inner = k[1:-1] if k.startswith("(") and k.endswith(")") else k
        parts = [x.strip() for x in inner.split(" || ")]
        ok = True
        for part in parts:
            m = pat.match(part)
            if m:
                if int(m.group(1)) not in vals:
                    ok = False
            elif part == "!%s" % expr:
                if 0 not in vals:
                    ok = False
            else:
                ok = False
        if ok and parts:
            return True
    return False
