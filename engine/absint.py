"""LLVM-IR reader + small abstract interpreter (affine forms over one symbol K, concrete otherwise) used by C10.

The unit is lowered with  clang -O1 -Xclang -disable-llvm-passes -S -emit-llvm  and  opt -passes='function(mem2reg,simplifycfg)'.
Abstract integers are  a*K + b  (K >= 0 an unbounded integer: the requested size is 16*K + r for a fixed residue r),
or TOP.  Pointers are (region, affine offset).  Every path of the function is explored (the functions analysed are
loop free); an instruction outside the modelled subset raises AnalysisBroken (exit 2)."""
import os
import re
import subprocess
import tempfile

from units import AnalysisBroken, INCLUDES

TOP = ("top",)


class Aff:
    __slots__ = ("a", "b")

    def __init__(self, a, b):
        self.a, self.b = a, b

    def __repr__(self):
        if self.a == 0:
            return str(self.b)
        return "%d*K%+d" % (self.a, self.b)

    def __eq__(self, o):
        return isinstance(o, Aff) and self.a == o.a and self.b == o.b

    def __hash__(self):
        return hash((self.a, self.b))

    @property
    def const(self):
        return self.a == 0


class Ptr:
    __slots__ = ("region", "off")

    def __init__(self, region, off):
        self.region, self.off = region, off

    def __repr__(self):
        return "&%s[%r]" % (self.region, self.off)


def lower(root, unit_rel, logctx, ndebug=True):
    """Returns the text of the mem2reg'ed IR of one unit."""
    tmpd = tempfile.mkdtemp(prefix="lmir", dir=os.environ.get("TMPDIR", "/var/tmp"))
    try:
        ll = os.path.join(tmpd, "u.ll")
        cmd = ["clang-14", "-O1", "-Xclang", "-disable-llvm-passes", "-g0", "-S", "-emit-llvm", "-D_GNU_SOURCE",
               "-DLIBMODULE_LOG_CTX=" + logctx, "-std=gnu11", "-Wno-everything", "-DNDEBUG" if ndebug else "-UNDEBUG"]
        for i in INCLUDES:
            cmd.append("-I" + os.path.join(root, i))
        cmd += [os.path.join(root, unit_rel), "-o", ll]
        r = subprocess.run(cmd, stdout=subprocess.PIPE, stderr=subprocess.PIPE, text=True)
        if r.returncode != 0:
            raise AnalysisBroken("clang -emit-llvm failed for %s: %s" % (unit_rel, r.stderr[-800:]))
        r = subprocess.run(["opt-14", "-S", "-passes=function(mem2reg,simplifycfg)", ll, "-o", "-"], stdout=subprocess.PIPE,
                           stderr=subprocess.PIPE, text=True)
        if r.returncode != 0:
            raise AnalysisBroken("opt-14 failed: %s" % r.stderr[-800:])
        return r.stdout
    finally:
        import shutil
        shutil.rmtree(tmpd, ignore_errors=True)


class IRFunc:
    def __init__(self, name, params, blocks, order):
        self.name, self.params, self.blocks, self.order = name, params, blocks, order


def parse(text):
    """{name: IRFunc}, struct types {name: [field types]}."""
    structs = {}
    for m in re.finditer(r"^%struct\.([\w.]+) = type \{ (.*) \}$", text, re.M):
        structs[m.group(1)] = _split_top(m.group(2))
    funcs = {}
    for m in re.finditer(r"^define [^@]*@([\w.]+)(\(.*?)\{\n(.*?)^\}", text, re.M | re.S):
        name, params_s, body = m.group(1), m.group(2), m.group(3)
        # parameter list = balanced parentheses right after the name
        depth, end = 0, 0
        for i, ch in enumerate(params_s):
            if ch == "(":
                depth += 1
            elif ch == ")":
                depth -= 1
                if depth == 0:
                    end = i
                    break
        params = [re.findall(r"%[\w.]+", a)[-1] for a in _split_top(params_s[1:end]) if re.findall(r"%[\w.]+", a)]
        blocks, order = {}, []
        cur = "entry"
        blocks[cur] = []
        order.append(cur)
        for line in body.split("\n"):
            line = line.split(" ; ")[0].rstrip() if not line.strip().startswith(";") else ""
            if not line.strip():
                continue
            lm_ = re.match(r"^([\w.]+):", line)
            if lm_:
                cur = lm_.group(1)
                blocks[cur] = []
                order.append(cur)
                continue
            blocks[cur].append(re.sub(r", !\w+ !\d+", "", line.strip()))
        funcs[name] = IRFunc(name, params, blocks, order)
    return funcs, structs


def _split_top(s):
    out, depth, cur = [], 0, ""
    for ch in s:
        if ch in "([{<":
            depth += 1
        elif ch in ")]}>":
            depth -= 1
        if ch == "," and depth == 0:
            out.append(cur.strip())
            cur = ""
        else:
            cur += ch
    if cur.strip():
        out.append(cur.strip())
    return out


def type_size_align(t, structs):
    t = t.strip()
    if t.endswith("*"):
        return 8, 8
    m = re.match(r"^i(\d+)$", t)
    if m:
        n = max(1, int(m.group(1)) // 8)
        return n, n
    m = re.match(r"^\[(\d+) x (.*)\]$", t)
    if m:
        s, a = type_size_align(m.group(2), structs)
        return int(m.group(1)) * s, a
    m = re.match(r"^%struct\.([\w.]+)$", t)
    if m:
        off, al = 0, 1
        for ft in structs[m.group(1)]:
            s, a = type_size_align(ft, structs)
            off = (off + a - 1) // a * a
            off += s
            al = max(al, a)
        return (off + al - 1) // al * al, al
    if t in ("double",):
        return 8, 8
    raise AnalysisBroken("absint: unmodelled IR type '%s'" % t)


def field_offset(sname, idx, structs):
    off = 0
    for i, ft in enumerate(structs[sname]):
        s, a = type_size_align(ft, structs)
        off = (off + a - 1) // a * a
        if i == idx:
            return off, ft
        off += s
    raise AnalysisBroken("absint: field index out of range")


class Path:
    def __init__(self):
        self.env = {}
        self.mem = {}        # (region, concrete offset) -> (value, width)
        self.allocs = []     # (region, nmemb, size, fn_desc)
        self.calls = []      # other calls
        self.stores = []
        self.ret = None
        self.trace = []


class Interp:
    def __init__(self, funcs, structs, alloc_base_align=16):
        self.funcs, self.structs = funcs, structs
        self.align = alloc_base_align
        self.nregion = 0
        self.maybe_null = set()      # regions returned by an allocator call in *this* run (not yet null-tested)

    # ---- operand evaluation
    def val(self, tok, p):
        tok = tok.strip()
        if tok.startswith("noundef "):
            tok = tok[8:].strip()
        if re.match(r"^-?\d+$", tok):
            return Aff(0, int(tok))
        if tok == "null":
            return Ptr("null", Aff(0, 0))
        if tok in ("true", "false"):
            return Aff(0, 1 if tok == "true" else 0)
        if tok.startswith("%"):
            if tok not in p.env:
                raise AnalysisBroken("absint: use of undefined value %s" % tok)
            return p.env[tok]
        if tok.startswith("@"):
            return ("global", tok)
        if tok.startswith("getelementptr"):
            m = re.search(r"@([\w.]+), i32 0, i32 (\d+)((?:, i(?:32|64) \d+)*)\)", tok)
            if m:
                if m.group(3):
                    # an element of an array field of a global (the logger's per-level function table)
                    return ("globalfield", m.group(1), (int(m.group(2)),) + tuple(int(x) for x in re.findall(r"\d+", m.group(3).replace("i32", "").replace("i64", ""))))
                return ("globalfield", m.group(1), int(m.group(2)))
        raise AnalysisBroken("absint: unmodelled operand '%s'" % tok)

    @staticmethod
    def add(x, y, sign=1):
        if x is TOP or y is TOP:
            return TOP
        return Aff(x.a + sign * y.a, x.b + sign * y.b)

    def run(self, fname, args, mem=None):
        """Explore all paths; returns list of Path."""
        f = self.funcs.get(fname)
        if f is None:
            raise AnalysisBroken("absint: function %s not found in IR" % fname)
        p0 = Path()
        if mem:
            p0.mem = dict(mem)
        for name, v in zip(f.params, args):
            p0.env[name] = v
        done = []
        work = [(p0, f.order[0], None, 0)]
        steps = 0
        while work:
            p, blk, pred, start = work.pop()
            while True:
                steps += 1
                if steps > 5000:
                    raise AnalysisBroken("absint: path explosion / loop in %s" % fname)
                nxt = self.exec_block(f, p, blk, pred, start)
                start = 0
                if isinstance(nxt, tuple) and nxt[0] == "callfork":
                    # the callee has several paths: continue this block once per callee path
                    _tag, idx, dst, alts = nxt
                    for (q_mem, q_calls, q_stores, q_ret, q_trace) in alts:
                        q = Path()
                        q.env, q.mem = dict(p.env), dict(q_mem)
                        q.allocs, q.calls, q.stores, q.trace = list(p.allocs), list(p.calls) + q_calls, list(p.stores) + q_stores, list(p.trace) + q_trace
                        if dst:
                            q.env[dst] = q_ret
                        work.append((q, blk, pred, idx + 1))
                    break
                if nxt is None:
                    done.append(p)
                    break
                if len(nxt) == 1:
                    pred, blk = blk, nxt[0][0]
                    continue
                for (b2, assume) in nxt[1:]:
                    q = Path()
                    q.env, q.mem = dict(p.env), dict(p.mem)
                    q.allocs, q.calls, q.stores, q.trace = list(p.allocs), list(p.calls), list(p.stores), list(p.trace) + [assume]
                    work.append((q, b2, blk, 0))
                p.trace.append(nxt[0][1])
                pred, blk = blk, nxt[0][0]
        return done

    def exec_block(self, f, p, blk, pred, start=0):
        for i, ins in enumerate(f.blocks[blk]):
            if i < start:
                continue
            r = self.exec(f, p, ins, blk, pred)
            if isinstance(r, tuple) and r[0] == "callfork":
                return ("callfork", i, r[1], r[2])
            if r is not None:
                return r if r != "ret" else None
        raise AnalysisBroken("absint: block %s of %s falls through" % (blk, f.name))

    def exec(self, f, p, ins, blk, pred):
        m = re.match(r"^(%[\w.]+) = (.*)$", ins)
        dst, rhs = (m.group(1), m.group(2)) if m else (None, ins)
        op = rhs.split()[0]
        if op in ("add", "sub", "and", "or", "mul", "shl", "lshr", "xor", "urem", "udiv"):
            mm = re.match(r"^\w+(?: nuw| nsw| exact)* (\w+) (.*), (.*)$", rhs)
            x, y = self.val(mm.group(2), p), self.val(mm.group(3), p)
            p.env[dst] = self.arith(op, x, y, int(mm.group(1)[1:]))
            return None
        if op in ("trunc", "zext", "sext"):
            mm = re.match(r"^\w+ i(\d+) (.*) to i(\d+)$", rhs)
            x = self.val(mm.group(2), p)
            w0, w1 = int(mm.group(1)), int(mm.group(3))
            if x is TOP or not isinstance(x, Aff):
                p.env[dst] = TOP
            elif op == "trunc":
                p.env[dst] = Aff(0, x.b % (1 << w1)) if x.const or (x.a % (1 << w1) == 0) else TOP
            elif op == "zext":
                p.env[dst] = x if (x.const and x.b >= 0) or not x.const else Aff(0, x.b % (1 << w0))
            else:
                if x.const and x.b >= (1 << (w0 - 1)):
                    p.env[dst] = Aff(0, x.b - (1 << w0))
                else:
                    p.env[dst] = x
            return None
        if op == "icmp":
            mm = re.match(r"^icmp (\w+) (.+?) ([%@\w.-]+|null), (.+)$", rhs)
            pred_, x, y = mm.group(1), self.val(mm.group(3), p), self.val(mm.group(4), p)
            p.env[dst] = self.icmp(pred_, x, y)
            return None
        if op == "select":
            mm = re.match(r"^select i1 (.*?), \S+ (.*?), \S+ (.*)$", rhs)
            c, a, b = self.val(mm.group(1), p), self.val(mm.group(2), p), self.val(mm.group(3), p)
            if c is TOP or not isinstance(c, Aff) or not c.const:
                p.env[dst] = a if repr(a) == repr(b) else TOP
            else:
                p.env[dst] = a if c.b else b
            return None
        if op == "bitcast":
            mm = re.match(r"^bitcast .*? ([%@][\w.]+) to .*$", rhs)
            p.env[dst] = self.val(mm.group(1), p)
            return None
        if op == "getelementptr":
            mm = re.match(r"^getelementptr (?:inbounds )?(.+?), (.+?)\* ([%@][\w.]+)((?:, i\d+ [^,]+)*)$", rhs)
            if not mm:
                raise AnalysisBroken("absint: unmodelled gep '%s'" % rhs)
            ty, base = mm.group(1).strip(), self.val(mm.group(3), p)
            idxs = re.findall(r", i\d+ ([^,]+)", mm.group(4))
            if not isinstance(base, Ptr):
                raise AnalysisBroken("absint: gep on non-pointer in '%s'" % rhs)
            off = base.off
            cur = ty
            for n, ix in enumerate(idxs):
                iv = self.val(ix, p)
                if n == 0:
                    s, _a = type_size_align(cur, self.structs) if not cur.startswith("[0 x") else (0, 1)
                    off = self.add(off, self.arith("mul", iv, Aff(0, s), 64))
                    continue
                sm = re.match(r"^%struct\.([\w.]+)$", cur)
                am = re.match(r"^\[(\d+) x (.*)\]$", cur)
                if sm:
                    if not (isinstance(iv, Aff) and iv.const):
                        raise AnalysisBroken("absint: symbolic struct index")
                    fo, ft = field_offset(sm.group(1), iv.b, self.structs)
                    off = self.add(off, Aff(0, fo))
                    cur = ft
                elif am:
                    s, _a = type_size_align(am.group(2), self.structs)
                    off = self.add(off, self.arith("mul", iv, Aff(0, s), 64))
                    cur = am.group(2)
                else:
                    raise AnalysisBroken("absint: gep into scalar '%s'" % cur)
            p.env[dst] = Ptr(base.region, off)
            return None
        if op == "load":
            body = re.sub(r", align \d+$", "", rhs)
            if "getelementptr" in body:
                src = body[body.index("getelementptr"):]
            else:
                src = body.split()[-1]
            ty = body[5:].split(",")[0]
            if src.startswith("getelementptr") or src.startswith("@"):
                v = self.val(src, p)
                if isinstance(v, tuple) and v[0] == "global" and ("G", v[1]) in p.mem:
                    p.env[dst] = p.mem[("G", v[1])][0]          # a file-level variable this path has stored to
                else:
                    p.env[dst] = ("fnptr", v)
                return None
            a = self.val(src, p)
            if isinstance(a, Ptr) and isinstance(a.off, Aff) and a.off.const and (a.region, a.off.b) in p.mem:
                p.env[dst] = p.mem[(a.region, a.off.b)][0]
            elif isinstance(a, Ptr):
                p.env[dst] = ("loaded", a.region, repr(a.off), ty)
                p.calls.append(("load-unknown", repr(a)))
            else:
                raise AnalysisBroken("absint: load through non-pointer '%s'" % rhs)
            return None
        if op == "store":
            mm = re.match(r"^store (.+?) ([%@\w.-]+|null), .+?\* ([%@][\w.]+)(?:, align \d+)?$", rhs)
            if not mm:
                raise AnalysisBroken("absint: unmodelled store '%s'" % rhs)
            v, a = self.val(mm.group(2), p), self.val(mm.group(3), p)
            w, _ = type_size_align(mm.group(1), self.structs)
            if isinstance(a, tuple) and a and a[0] == "global":
                p.mem[("G", a[1])] = (v, w)                     # store to a file-level variable (e.g. a cached hook)
                return None
            if not isinstance(a, Ptr):
                raise AnalysisBroken("absint: store through non-pointer")
            p.stores.append((a, v, w))
            if isinstance(a.off, Aff) and a.off.const:
                p.mem[(a.region, a.off.b)] = (v, w)
            return None
        if op == "call" or rhs.startswith("tail call"):
            mm = re.match(r"^(?:tail )?call .+? ([%@][\w.]+)\((.*)\)", rhs)
            if not mm:
                raise AnalysisBroken("absint: unmodelled call '%s'" % rhs)
            callee = mm.group(1)
            args = [self.val(re.sub(r"^.*? (?=[%@\d-]|null)", "", a.strip()), p) if a.strip() else None for a in _split_top(mm.group(2))]
            if callee.startswith("%"):
                fv = p.env.get(callee)
                # indirect call through memhook: field 1 = calloc, 0 = malloc, 2 = free
                if isinstance(fv, tuple) and fv[0] == "fnptr" and isinstance(fv[1], tuple) and fv[1][0] == "globalfield" and fv[1][1] == "memhook":
                    fld = fv[1][2]
                    if fld in (0, 1):
                        self.nregion += 1
                        reg = "ALLOC%d" % self.nregion
                        self.maybe_null.add(reg)
                        size = args[0] if fld == 0 else self.arith("mul", args[0], args[1], 64)
                        p.allocs.append((reg, size, "calloc" if fld == 1 else "malloc"))
                        if fld == 1:
                            p.mem[(reg, "zeroed")] = (True, 0)
                        p.env[dst] = Ptr(reg, Aff(0, 0))
                        return None
                    if fld == 2:
                        p.calls.append(("free", args[0]))
                        return None
                p.calls.append(("indirect", repr(fv), args))
                if dst:
                    p.env[dst] = TOP
                return None
            name = callee[1:]
            if name.startswith("llvm.expect"):
                # likely()/unlikely(): the value of its first operand
                if dst:
                    p.env[dst] = args[0]
                return None
            if name in self.funcs:
                sub = Interp(self.funcs, self.structs, self.align)
                sub.nregion = self.nregion
                paths = sub.run(name, args, p.mem)
                self.nregion = sub.nregion
                self.maybe_null |= sub.maybe_null
                if len(paths) == 1:
                    q = paths[0]
                    p.mem = dict(q.mem)
                    p.calls.append(("call", name, args))
                    p.calls.extend(c for c in q.calls)
                    p.stores.extend(q.stores)
                    p.allocs.extend(q.allocs)
                    if dst:
                        p.env[dst] = q.ret
                    return None
                if len(paths) > 8:
                    raise AnalysisBroken("absint: callee %s has %d paths" % (name, len(paths)))
                return ("callfork", dst, [(q.mem, [("call", name, args)] + list(q.calls), list(q.stores), q.ret, list(q.trace)) for q in paths])
            p.calls.append(("ext", name, args))
            if dst:
                if re.match(r"^(?:tail )?call (?:noalias |nonnull |noundef |align \d+ )*(?:i8\*|ptr|%[\w.]+\*)", rhs):
                    # a pointer handed back by a function the analysis cannot see into: a region of a foreign allocator (unknown size,
                    # not zeroed), so that the obligations can say whose memory the block is made of
                    self.nregion += 1
                    reg = "ALLOC%d" % self.nregion
                    self.maybe_null.add(reg)
                    p.allocs.append((reg, TOP, "ext:" + name))
                    p.env[dst] = Ptr(reg, Aff(0, 0))
                else:
                    p.env[dst] = TOP
            return None
        if op == "br":
            mm = re.match(r"^br label %([\w.]+)$", rhs)
            if mm:
                return [(mm.group(1), None)]
            mm = re.match(r"^br i1 (.+?), label %([\w.]+), label %([\w.]+)$", rhs)
            c = self.val(mm.group(1), p)
            if isinstance(c, Aff) and c.const:
                return [(mm.group(2) if c.b else mm.group(3), None)]
            return [(mm.group(2), (mm.group(1), True)), (mm.group(3), (mm.group(1), False))]
        if op == "phi":
            for (v, lab) in re.findall(r"\[ (.+?), %([\w.]+) \]", rhs):
                if lab == pred or (pred == "entry" and lab == str(0)) or self._lab_eq(lab, pred, f):
                    p.env[dst] = self.val(v, p)
                    return None
            raise AnalysisBroken("absint: phi without matching predecessor %s in '%s'" % (pred, rhs))
        if op == "ret":
            mm = re.match(r"^ret \S.*? ([%@\w.-]+|null)$", rhs)
            p.ret = self.val(mm.group(1), p) if mm else None
            return "ret"
        if op == "unreachable":
            return "ret"
        raise AnalysisBroken("absint: unmodelled instruction '%s' in %s" % (ins, f.name))

    def _lab_eq(self, lab, pred, f):
        # the entry block is unnamed in the text: its label is the first unused value number
        return pred == "entry" and lab not in f.blocks

    def arith(self, op, x, y, w):
        if x is TOP or y is TOP or not isinstance(x, Aff) or not isinstance(y, Aff):
            return TOP
        if op == "add":
            return Aff(x.a + y.a, x.b + y.b)
        if op == "sub":
            return Aff(x.a - y.a, x.b - y.b)
        if op == "mul":
            if x.const:
                return Aff(y.a * x.b, y.b * x.b)
            if y.const:
                return Aff(x.a * y.b, x.b * y.b)
            return TOP
        if op == "and" and y.const:
            mask = y.b % (1 << w)
            low = ((~mask) % (1 << w)) + 1          # mask == -(low) for masks of the form ~(2^k - 1)
            if low & (low - 1) == 0 and mask == (1 << w) - low:
                if x.a % low == 0 and x.b >= 0:
                    return Aff(x.a, x.b & ~(low - 1))
                return TOP
            if x.const:
                return Aff(0, x.b & mask)
            if mask & (mask + 1) == 0 and x.a % (mask + 1) == 0 and x.b >= 0:
                return Aff(0, x.b & mask)
            return TOP
        if x.const and y.const:
            a, b = x.b, y.b
            res = {"or": a | b, "xor": a ^ b, "shl": a << b, "lshr": (a % (1 << w)) >> b, "urem": a % b if b else 0,
                   "udiv": a // b if b else 0, "and": a & b}.get(op)
            if res is not None:
                return Aff(0, res)
        return TOP

    def icmp(self, pred, x, y):
        if isinstance(x, Ptr) or isinstance(y, Ptr):
            if isinstance(x, Ptr) and isinstance(y, Ptr):
                if x.region == "null" and y.region == "null":
                    return Aff(0, 1 if pred == "eq" else 0)
                if "null" in (x.region, y.region):
                    other = y.region if x.region == "null" else x.region
                    if other in self.maybe_null:
                        return TOP      # allocation may fail: both outcomes are explored
                    return Aff(0, 1 if pred == "ne" else 0)
            return TOP
        if x is TOP or y is TOP or not isinstance(x, Aff) or not isinstance(y, Aff):
            return TOP
        d = Aff(x.a - y.a, x.b - y.b)
        if d.const:
            v = d.b
            r = {"eq": v == 0, "ne": v != 0, "ugt": v > 0, "uge": v >= 0, "ult": v < 0, "ule": v <= 0,
                 "sgt": v > 0, "sge": v >= 0, "slt": v < 0, "sle": v <= 0}.get(pred)
            if r is None:
                raise AnalysisBroken("absint: icmp %s" % pred)
            return Aff(0, 1 if r else 0)
        return TOP
