"""Fact-base canonicalisation: substitute newly introduced single-definition locals by their defining expression.

A local that does not exist in the frozen reference (engine/namemap.json) of its function, has exactly one definition, whose
address is never taken, and whose defining expression cannot change between the definition and any use is the product of an
"introduce variable" refactoring (`m_src_tmr_t *tmr = &mod->batch.timer;`, `const bool was_set = mod->batch.timer.ns != 0;`).
Every use is replaced by the defining expression and the definition disappears, so rules that spell atoms over the original
expressions see what they saw before the refactoring.  The substitution is only done when it is exact:

  * the defining expression has no side effect (no assignment, ++/--, no call outside the pure table);
  * between the definition and each use (all CFG paths that do not pass the definition again) there is no assignment to a
    variable the expression reads, no store to a field name the expression loads, no store through a pointer/array when it
    loads memory, and no impure call when it loads memory;
  * address computations (`&a->b.c`, a copy of a pointer variable) load no memory: only an assignment to the root variable
    can change them.

When any use fails the test the variable is left alone (the rules then see the new name and decide on what is written).
Nothing is substituted on the reference tree itself: its locals are all in the name map."""
import copy

PURE_CALLS = {"m_mod_is", "__errno_location", "strlen", "strcmp", "strncmp", "memcmp", "m_map_len", "m_list_len", "m_queue_len",
              "m_stack_len", "m_bst_len", "m_map_get", "m_map_contains", "m_stack_peek", "m_queue_peek", "m_bst_find", "m_list_find"}


def _strip(e):
    while isinstance(e, dict) and e.get("k") in ("cast", "icast"):
        e = e["e"]
    return e


def _walk(e, fn):
    if isinstance(e, dict):
        fn(e)
        for v in list(e.values()):
            _walk(v, fn)
    elif isinstance(e, list):
        for v in e:
            _walk(v, fn)


def _nodes(e):
    out = []
    _walk(e, out.append)
    return out


def _uses(e, name):
    return [n for n in _nodes(e) if n.get("k") == "var" and n.get("vk") in ("local", "param") and n.get("name") == name]


def _addr_pure(l):
    """An lvalue whose address is computed from variables only (no memory load)."""
    l = _strip(l)
    if not isinstance(l, dict):
        return False
    if l.get("k") == "var":
        return l.get("vk") in ("local", "param")
    if l.get("k") == "member":
        b = _strip(l.get("base"))
        if l.get("arrow"):
            return isinstance(b, dict) and b.get("k") == "var" and b.get("vk") in ("local", "param")
        return _addr_pure(b)
    return False


def _profile(init):
    """(roots, fields, loads, side_effect) of a defining expression."""
    roots, fields = set(), set()
    loads = False
    side = False
    i0 = _strip(init)
    addr_only = False
    if isinstance(i0, dict) and i0.get("k") == "un" and i0.get("op") == "&" and _addr_pure(i0.get("e")):
        addr_only = True
    if isinstance(i0, dict) and i0.get("k") == "var" and i0.get("vk") in ("local", "param"):
        addr_only = True
    for n in _nodes(init):
        k = n.get("k")
        if k == "var" and n.get("vk") in ("local", "param"):
            roots.add(n["name"])
        elif k == "var" and n.get("vk") not in ("func", "enum", None):
            loads = True                                  # global / static
        elif k == "member":
            if n.get("field"):
                fields.add(n["field"])
            if not addr_only:
                loads = True
        elif k == "index":
            loads = True
        elif k == "un" and n.get("op") == "*":
            loads = True
        elif k == "un" and n.get("op") in ("++", "--"):
            side = True
        elif k == "assign":
            side = True
        elif k == "call":
            if n.get("callee") not in PURE_CALLS:
                side = True
            loads = True
        elif k in ("stmtexpr", "unknown"):
            side = True
    if addr_only:
        loads = False
    return roots, fields, loads, side


def _modifies(ev, roots, fields, loads):
    k = ev.get("ev")
    if k in ("assign", "incdec"):
        e = ev["e"]
        tgt = _strip(e.get("l") if e.get("k") == "assign" else e.get("e"))
        if not isinstance(tgt, dict):
            return loads
        if tgt.get("k") == "var":
            return tgt.get("name") in roots or (loads and tgt.get("vk") not in ("local", "param"))
        if not loads:
            return False
        if tgt.get("k") == "member":
            return tgt.get("field") in fields or not tgt.get("field")
        return True                                        # *p = …, a[i] = …
    if k == "call":
        e = ev["e"]
        for a in e.get("args", []) or []:
            a0 = _strip(a)
            if isinstance(a0, dict) and a0.get("k") == "un" and a0.get("op") == "&":
                t = _strip(a0.get("e"))
                if isinstance(t, dict) and t.get("k") == "var" and t.get("name") in roots:
                    return True
        return loads and e.get("callee") not in PURE_CALLS
    if k == "decl":
        return ev.get("name") in roots
    return False


def _fix_addr_members(e):
    """(&X)->f  ==>  X.f   and   *(&X) ==> X   after substitution."""
    if isinstance(e, dict):
        for key, v in list(e.items()):
            if isinstance(v, (dict, list)):
                _fix_addr_members(v)
        if e.get("k") == "member" and e.get("arrow"):
            b = _strip(e.get("base"))
            if isinstance(b, dict) and b.get("k") == "un" and b.get("op") == "&":
                e["base"] = b["e"]
                e["arrow"] = False
        if e.get("k") == "un" and e.get("op") == "*":
            b = _strip(e.get("e"))
            if isinstance(b, dict) and b.get("k") == "un" and b.get("op") == "&":
                inner = b["e"]
                e.clear()
                e.update(copy.deepcopy(inner))
    elif isinstance(e, list):
        for v in e:
            _fix_addr_members(v)


def substitute_new_locals(raw, ref_names):
    """raw: one function's facts (mutated).  ref_names: the variable names of this function in the reference tree.
    Returns the list of substituted names."""
    blocks = {b["id"]: b for b in raw["blocks"]}
    preds = {bid: [] for bid in blocks}
    for b in raw["blocks"]:
        for s in b["succs"]:
            if s is not None and s in preds:
                preds[s].append(b["id"])
    params = {p["name"] for p in raw["params"]}
    done = []
    for _round in range(6):
        cand = None
        # definitions per local
        defs = {}
        addr_taken = set()
        for b in raw["blocks"]:
            for i, ev in enumerate(b["events"]):
                k = ev.get("ev")
                if k == "decl" and ev.get("name"):
                    defs.setdefault(ev["name"], []).append((b["id"], i, ev, ev.get("init")))
                    if ev.get("static"):
                        addr_taken.add(ev["name"])
                elif k == "assign":
                    t = _strip(ev["e"].get("l"))
                    if isinstance(t, dict) and t.get("k") == "var" and t.get("vk") == "local":
                        defs.setdefault(t["name"], []).append((b["id"], i, ev, ev["e"].get("r") if ev["e"].get("op") == "=" else None))
                elif k == "incdec":
                    t = _strip(ev["e"].get("e"))
                    if isinstance(t, dict) and t.get("k") == "var":
                        defs.setdefault(t["name"], []).append((b["id"], i, ev, None))
            for n in _nodes(b):
                if n.get("k") == "un" and n.get("op") == "&":
                    t = _strip(n.get("e"))
                    if isinstance(t, dict) and t.get("k") == "var":
                        addr_taken.add(t["name"])
        for name, dl in sorted(defs.items()):
            if name in ref_names or name in params or name in addr_taken or name in done:
                continue
            real = [d for d in dl if not (d[2].get("ev") == "decl" and d[3] is None)]
            if len(real) != 1 or real[0][3] is None:
                continue
            db, di, dev, init = real[0]
            if _uses(init, name):
                continue
            roots, fields, loads, side = _profile(init)
            if side:
                continue
            # blocks reachable from the entry without passing the defining block: a use there is not dominated by the definition
            avoid = set()
            st = [raw["entry"]] if raw["entry"] != db else []
            while st:
                x = st.pop()
                if x in avoid or x == db or x not in blocks:
                    continue
                avoid.add(x)
                st.extend(s_ for s_ in blocks[x]["succs"] if s_ is not None)
            # every use
            ok = True
            nuse = 0
            good = []
            for b in raw["blocks"]:
                items = list(enumerate(b["events"])) + ([(len(b["events"]), b["term"])] if "term" in b else [])
                for i, ev in items:
                    if ev is dev:
                        continue
                    if not _uses(ev, name):
                        continue
                    nuse += 1
                    if b["id"] in avoid or (b["id"] == db and i < di):
                        ok = False
                        continue
                    if not _clean_between(blocks, preds, db, di, b["id"], i, roots, fields, loads):
                        ok = False
                    else:
                        good.append(ev)
            if not ok and not good:
                continue
            # an initialiser that contains a call is not duplicated: substituted only into a single use
            if nuse > 1 and any(n.get("k") == "call" for n in _nodes(init)):
                continue
            cand = (name, db, di, dev, init, ok, good)
            break
        if cand is None:
            break
        name, db, di, dev, init, complete, good = cand

        def subst(node):
            if isinstance(node, list):
                for x in node:
                    subst(x)
                return
            if isinstance(node, dict):
                for key, v in list(node.items()):
                    if isinstance(v, dict):
                        if v.get("k") == "var" and v.get("vk") == "local" and v.get("name") == name:
                            node[key] = copy.deepcopy(init)
                        else:
                            subst(v)
                    elif isinstance(v, list):
                        for j, x in enumerate(v):
                            if isinstance(x, dict) and x.get("k") == "var" and x.get("vk") == "local" and x.get("name") == name:
                                v[j] = copy.deepcopy(init)
                            else:
                                subst(x)
        if complete:
            blk = blocks[db]
            blk["events"] = [e for e in blk["events"] if e is not dev]
            # a declaration without initialiser of the same name disappears too
            for b in raw["blocks"]:
                b["events"] = [e for e in b["events"] if not (e.get("ev") == "decl" and e.get("name") == name)]
            subst(raw["blocks"])
        else:
            # some uses cannot be shown to see the same value: substitute the others, keep the definition
            for ev in good:
                subst(ev)
        _fix_addr_members(raw["blocks"])
        done.append(name)
    return done


def _clean_between(blocks, preds, db, di, ub, ui, roots, fields, loads):
    """No event that may change the defining expression on any path definition -> use that does not pass the definition again."""
    def check(b, lo, hi):
        evs = blocks[b]["events"]
        for j in range(max(lo, 0), min(hi, len(evs))):
            if _modifies(evs[j], roots, fields, loads):
                return False
        return True
    if ub == db and ui > di:
        return check(db, di + 1, ui)
    # forward-reachable blocks from the definition (not through it)
    fwd = set()
    st = [s for s in blocks[db]["succs"] if s is not None]
    while st:
        x = st.pop()
        if x in fwd or x == db or x not in blocks:
            continue
        fwd.add(x)
        st.extend(s for s in blocks[x]["succs"] if s is not None)
    bwd = set()
    st = list(preds.get(ub, []))
    while st:
        x = st.pop()
        if x in bwd or x == db:
            continue
        bwd.add(x)
        st.extend(preds.get(x, []))
    reaches_def = db in preds.get(ub, []) or any(db in preds.get(x, []) for x in bwd)
    if ub not in fwd and not (ub == db):
        return False                                     # use not dominated/reached by the definition: leave alone
    if not reaches_def and ub != db:
        return False
    if not check(db, di + 1, 10 ** 9):
        return False
    for x in fwd & bwd:
        if not check(x, 0, 10 ** 9):
            return False
    if ub == db:                                         # use before the definition in the same block (loop): part before it
        return False
    return check(ub, 0, ui)


def _dominators(raw):
    ids = [b["id"] for b in raw["blocks"]]
    blocks = {b["id"]: b for b in raw["blocks"]}
    preds = {i: [] for i in ids}
    for b in raw["blocks"]:
        for s_ in b["succs"]:
            if s_ is not None and s_ in preds:
                preds[s_].append(b["id"])
    entry = raw["entry"]
    # reachable
    reach, st = set(), [entry]
    while st:
        x = st.pop()
        if x in reach or x not in blocks:
            continue
        reach.add(x)
        st.extend(s_ for s_ in blocks[x]["succs"] if s_ is not None)
    dom = {i: set(reach) for i in reach}
    dom[entry] = {entry}
    changed = True
    while changed:
        changed = False
        for i in reach:
            if i == entry:
                continue
            ps = [dom[p] for p in preds[i] if p in reach]
            new = (set.intersection(*ps) if ps else set()) | {i}
            if new != dom[i]:
                dom[i] = new
                changed = True
    return dom, reach


def canonicalise_decl_init(raw, ref_init):
    """ref_init: {local name: declared with an initialiser in the reference}."""
    blocks = {b["id"]: b for b in raw["blocks"]}
    dom = None
    for name, had_init in sorted(ref_init.items()):
        decls = [(b, i, e) for b in raw["blocks"] for i, e in enumerate(b["events"]) if e.get("ev") == "decl" and e.get("name") == name]
        if len(decls) != 1 or decls[0][2].get("static"):
            continue
        db, di, dev = decls[0]
        if had_init and dev.get("init") is None:
            # bare declaration now: the first plain assignment, if it dominates every other mention, becomes the declaration
            mentions = []
            for b in raw["blocks"]:
                items = list(enumerate(b["events"])) + ([(len(b["events"]), b["term"])] if "term" in b else [])
                for i, e in items:
                    if e is dev:
                        continue
                    if _uses(e, name):
                        mentions.append((b["id"], i, e))
            assigns = [(bid, i, e) for (bid, i, e) in mentions if e.get("ev") == "assign" and e["e"].get("op") == "="
                       and isinstance(_strip(e["e"].get("l")), dict) and _strip(e["e"]["l"]).get("k") == "var" and _strip(e["e"]["l"]).get("name") == name
                       and not _uses(e["e"].get("r"), name)]
            if not assigns:
                continue
            if dom is None:
                dom, reach = _dominators(raw)
            first = None
            for (bid, i, e) in assigns:
                if bid not in dom:
                    continue
                if all((b2 == bid and i2 > i) or (b2 != bid and b2 in dom and bid in dom[b2]) or b2 not in dom
                       for (b2, i2, e2) in mentions if e2 is not e):
                    first = (bid, i, e)
                    break
            if first is None:
                continue
            bid, i, e = first
            # sub-expression events of the same statement (calls) precede it and are untouched
            newd = {"line": e["line"], "ev": "decl", "name": name, "t": dev.get("t", ""), "ct": dev.get("ct", ""), "static": False,
                    "init": e["e"]["r"]}
            blocks[bid]["events"][i] = newd
            blocks[db["id"]]["events"] = [x for x in blocks[db["id"]]["events"] if x is not dev]
        elif not had_init and dev.get("init") is not None:
            # declared with an initialiser now: split into a bare declaration and an assignment at the same place
            init = dev.pop("init")
            asg = {"line": dev["line"], "ev": "assign",
                   "e": {"k": "assign", "op": "=", "l": {"k": "var", "name": name, "vk": "local", "ct": dev.get("ct", ""), "t": dev.get("t", "")},
                         "r": init, "t": dev.get("t", "")}}
            evs = blocks[db["id"]]["events"]
            pos = [k for k, x in enumerate(evs) if x is dev][0]
            evs.insert(pos + 1, asg)
