"""Program model over the extracted facts: expressions, CFG, dataflow, function-pointer bindings, call graph."""
import itertools
import re
from collections import defaultdict, deque

from units import AnalysisBroken, extract


# ----------------------------------------------------------------------------- expressions

def strip(e):
    """Drop casts (explicit and implicit)."""
    while e is not None and e.get("k") in ("cast", "icast"):
        e = e["e"]
    return e


def S(e):
    """Canonical string of an expression: casts dropped, constants folded, errno recognised."""
    e = strip(e)
    if e is None:
        return "<none>"
    k = e["k"]
    if "cv" in e and k != "assign":
        return str(e["cv"])
    if k == "int":
        return str(e["v"])
    if k == "float":
        return e["v"]
    if k == "null":
        return "NULL"
    if k == "str":
        return '"%s"' % e["v"]
    if k == "var":
        return e["name"]
    if k == "member":
        if not e["field"]:
            # implicit access to an anonymous struct/union member: transparent
            return S(e["base"]) + ("->" if e["arrow"] else "")
        b = S(e["base"])
        if b.endswith("->"):
            return b + e["field"]
        return b + ("->" if e["arrow"] else ".") + e["field"]
    if k == "call":
        if e.get("callee") == "__errno_location":
            return "&errno"
        fn = e["callee"] if e.get("callee") else "(" + S(e["fn"]) + ")"
        return fn + "(" + ", ".join(S(a) for a in e["args"]) + ")"
    if k == "un":
        if e["op"] == "*":
            inner = S(e["e"])
            if inner == "&errno":
                return "errno"
            if inner.startswith("&"):
                return inner[1:]
            return "*" + inner
        if e["op"] in ("++", "--") and e.get("postfix"):
            return S(e["e"]) + e["op"]
        return e["op"] + S(e["e"])
    if k in ("bin", "assign"):
        return "(" + S(e["l"]) + " " + e["op"] + " " + S(e["r"]) + ")"
    if k == "cond":
        return "(" + S(e["c"]) + " ? " + S(e["a"]) + " : " + S(e["b"]) + ")"
    if k == "index":
        return S(e["base"]) + "[" + S(e["idx"]) + "]"
    if k == "sizeof":
        return "%s(%s)" % (e["kind"], e["of"])
    if k == "init":
        return "{" + ", ".join(S(x) for x in e["elems"]) + "}"
    if k == "compound":
        return S(e["e"])
    return "<%s>" % e.get("cls", k)


def walk(e):
    """All sub-expressions, pre-order."""
    if e is None:
        return
    yield e
    for key in ("base", "e", "l", "r", "c", "a", "b", "idx", "fn"):
        sub = e.get(key)
        if isinstance(sub, dict):
            yield from walk(sub)
    for key in ("args", "elems"):
        for sub in e.get(key, ()) or ():
            yield from walk(sub)


def is_errno(e):
    return S(e) == "errno"


def cval(e):
    e = strip(e) if e is not None and "cv" not in e else e
    if e is None:
        return None
    if "cv" in e:
        return e["cv"]
    if e["k"] == "int":
        return e["v"]
    if e["k"] == "null":
        return 0
    return None


def root_var(e):
    """The variable an lvalue expression is rooted in (mod->tb.tokens -> mod)."""
    e = strip(e)
    while e is not None:
        k = e["k"]
        if k == "var":
            return e["name"]
        if k == "member" or k == "index":
            e = strip(e["base"])
        elif k == "un" and e["op"] in ("*", "&"):
            e = strip(e["e"])
        else:
            return None
    return None


_FLIP = {"!=": ("==", False), ">=": ("<", False), "<=": (">", False)}


def atoms(cond, pol=True):
    """Normalised (atom string, polarity) list that holds when `cond` evaluates to `pol`."""
    c = strip(cond)
    if c is None:
        return []
    if c["k"] == "un" and c["op"] == "!":
        return atoms(c["e"], not pol)
    if c["k"] == "bin":
        op = c["op"]
        if op == "&&" and pol:
            return atoms(c["l"], True) + atoms(c["r"], True)
        if op == "||" and not pol:
            return atoms(c["l"], False) + atoms(c["r"], False)
        if op in ("==", "!="):
            lv, rv = cval(c["l"]), cval(c["r"])
            other = None
            if rv == 0 and lv is None:
                other = c["l"]
            elif lv == 0 and rv is None:
                other = c["r"]
            if other is not None:
                so = strip(other)
                # x == 0  <=>  !x   (only for scalars tested for truth: pointers, bools, call results, flags&mask)
                return atoms(so, pol if op == "!=" else not pol)
        if op in _FLIP:
            nop, keep = _FLIP[op]
            return [("(%s %s %s)" % (S(c["l"]), nop, S(c["r"])), pol == keep)]
    return [(S(c), pol)]


def atom_alternatives(cond, pol=True, limit=8):
    """Disjunctive form of `cond == pol`: a list of atom lists, one per way the condition can come out `pol` under short-circuit
    evaluation (`a || b` true: a; or !a and b).  A branch condition is compound only after an explaining variable was substituted into
    it (clang's CFG splits the short-circuit operators of a condition written in place).  Falls back to the single conjunction of
    `atoms` when the expansion would exceed `limit` alternatives."""
    def alt(c, pol):
        c = strip(c)
        if c is None:
            return [[]]
        if c["k"] == "un" and c["op"] == "!":
            return alt(c["e"], not pol)
        if c["k"] == "bin" and c["op"] in ("&&", "||"):
            conj = (c["op"] == "&&") == pol           # both operands needed
            if conj:
                return [x + y for x in alt(c["l"], pol) for y in alt(c["r"], pol)]
            # `a && b` false: a false; or a true and b false.   `a || b` true: a true; or a false and b true
            return alt(c["l"], pol) + [x + y for x in alt(c["l"], not pol) for y in alt(c["r"], pol)]
        if c["k"] == "bin" and c["op"] in ("==", "!="):
            lv, rv = cval(c["l"]), cval(c["r"])
            other = c["l"] if (rv == 0 and lv is None) else (c["r"] if (lv == 0 and rv is None) else None)
            if other is not None and strip(other)["k"] in ("bin", "un") and strip(other).get("op") in ("&&", "||", "!"):
                return alt(other, pol if c["op"] == "!=" else not pol)
        return [atoms(c, pol)]
    out = alt(cond, pol)
    # drop alternatives that contradict themselves
    ok = []
    for a in out:
        d = {}
        good = True
        for (x, p) in a:
            if d.setdefault(x, p) != p:
                good = False
                break
        if good:
            ok.append(a)
    if not ok or len(ok) > limit:
        return [atoms(cond, pol)]
    return ok


# ----------------------------------------------------------------------------- program model

class Ev:
    __slots__ = ("kind", "e", "line", "macro", "block", "idx", "fn", "raw")

    def __init__(self, raw, block, idx, fn):
        self.raw = raw
        self.kind = raw["ev"]
        self.e = raw.get("e")
        if self.kind == "decl":
            self.e = raw
        self.line = raw["line"]
        self.macro = raw.get("macro")
        self.block = block
        self.idx = idx
        self.fn = fn

    # convenience -----------------------------------------------------------
    @property
    def callee(self):
        if self.kind == "call":
            return self.e.get("callee")
        return None

    @property
    def args(self):
        return self.e.get("args", []) if self.kind == "call" else []

    @property
    def lhs(self):
        if self.kind == "assign":
            return self.e["l"]
        if self.kind == "incdec":
            return self.e["e"]
        if self.kind == "decl":
            return {"k": "var", "name": self.e.get("name"), "vk": "local", "t": self.e.get("t", ""), "ct": self.e.get("ct", "")}
        return None

    @property
    def rhs(self):
        if self.kind == "assign":
            return self.e["r"]
        if self.kind == "decl":
            return self.e.get("init")
        return None

    def where(self):
        return "%s:%d" % (self.fn.unit, self.line)

    def __repr__(self):
        if self.kind == "decl":
            return "<decl %s = %s @%d>" % (self.e.get("name"), S(self.e.get("init")) if self.e.get("init") else "-", self.line)
        return "<%s %s @%d>" % (self.kind, S(self.e) if self.e else "", self.line)


class Block:
    __slots__ = ("id", "succs", "term", "label", "events", "preds")

    def __init__(self, raw, fn):
        self.id = raw["id"]
        self.succs = raw["succs"]
        self.term = raw.get("term")
        self.label = raw.get("label")
        self.events = [Ev(r, self, i, fn) for i, r in enumerate(raw["events"])]
        self.preds = []


def _canonicalise_params(raw):
    """Alpha-rename: the first parameter of type (const) m_mod_t * is called `mod` in the fact base whatever the source calls it
    (a rename of that parameter is behaviour preserving and must not disturb rules that spell atoms over it)."""
    target = None
    for p in raw["params"]:
        if p["t"].replace("const ", "").strip() == "m_mod_t *":
            target = p
            break
    if target is None or target["name"] == "mod" or raw.get("_canon"):
        return
    used = set()

    def names(e):
        if isinstance(e, dict):
            if e.get("k") == "var":
                used.add(e.get("name"))
            if "name" in e and "ev" in e:
                used.add(e["name"])
            for v in e.values():
                names(v)
        elif isinstance(e, list):
            for v in e:
                names(v)
    names(raw["blocks"])
    if "mod" in used or any(p["name"] == "mod" for p in raw["params"]):
        return
    old = target["name"]

    def ren(e):
        if isinstance(e, dict):
            if e.get("k") == "var" and e.get("vk") == "param" and e.get("name") == old:
                e["name"] = "mod"
            for v in e.values():
                ren(v)
        elif isinstance(e, list):
            for v in e:
                ren(v)
    ren(raw["blocks"])
    target["name"] = "mod"
    raw["_canon"] = old


_NAMEMAP = None


def _namemap():
    global _NAMEMAP
    if _NAMEMAP is None:
        import json
        import os
        p = os.path.join(os.path.dirname(os.path.abspath(__file__)), "namemap.json")
        try:
            with open(p) as fh:
                _NAMEMAP = json.load(fh)
        except OSError:
            _NAMEMAP = {}
    return _NAMEMAP


def _canonicalise_names(raw, unit):
    """Alpha-rename parameters and locals back to the names frozen in engine/namemap.json (reference tree), matching variables
    by declared type and declaration order.  A pure rename is behaviour preserving and must be invisible to rules that spell
    atoms over local names.  Only applied when, for a type, the number of variables is unchanged; never creates a clash."""
    if raw.get("_canon_names"):
        return
    raw["_canon_names"] = True
    ref = _namemap().get(unit, {}).get(raw["name"])
    if not ref:
        return
    cur = [(p["t"], p["name"]) for p in raw["params"]]
    ds = []
    for b in raw["blocks"]:
        for e in b["events"]:
            if e.get("ev") == "decl" and e.get("name"):
                ds.append((e["line"], e["name"], e.get("t", "")))
    seen = set()
    for (_l, n, t) in sorted(ds):
        if n not in seen and n not in [c[1] for c in cur]:
            seen.add(n)
            cur.append((t, n))
    if [tuple(x) for x in ref] == cur:
        return
    bytype_ref, bytype_cur = {}, {}
    for t, n in ref:
        bytype_ref.setdefault(t, []).append(n)
    for t, n in cur:
        bytype_cur.setdefault(t, []).append(n)
    ren = {}
    for t, names in bytype_cur.items():
        rn = bytype_ref.get(t)
        if rn and len(rn) == len(names):
            # variables that kept their name keep it (a declaration moved up or down changes the order, not the identity); the
            # others are matched, in order, to the reference names that disappeared
            fresh = [a for a in names if a not in rn]
            gone = [b for b in rn if b not in names]
            if len(fresh) == len(gone):
                for a, b in zip(fresh, gone):
                    ren[a] = b
    if not ren:
        return
    all_cur = {n for _t, n in cur}
    # no clashes: a target name must not be the (unrenamed) name of another variable
    for a, b in list(ren.items()):
        if b in all_cur and b not in ren:
            del ren[a]
    if not ren:
        return

    def walk_(e):
        if isinstance(e, dict):
            if e.get("k") == "var" and e.get("vk") in ("param", "local", "slocal") and e.get("name") in ren:
                e["name"] = ren[e["name"]]
            if e.get("ev") == "decl" and e.get("name") in ren:
                e["name"] = ren[e["name"]]
            for v in e.values():
                walk_(v)
        elif isinstance(e, list):
            for v in e:
                walk_(v)
    walk_(raw["blocks"])
    for p in raw["params"]:
        if p["name"] in ren:
            p["name"] = ren[p["name"]]
    raw["_renamed"] = ren


def _canonicalise_types(raw, unit):
    """Type spellings: a record named by its tag (`struct _mod *`) is read as the typedef the reference uses (`m_mod_t *`); a
    top-level const on a pointer (`T *const p`) is dropped.  Only the as-written field `t` is touched, `ct` stays canonical."""
    if raw.get("_types_done"):
        return
    raw["_types_done"] = True
    tm = _namemap().get("__types__", {}).get(unit, {})

    def fix(t):
        if not isinstance(t, str):
            return t
        if "struct " in t:
            for tag, td in tm.items():
                if tag in t:
                    t = re.sub(r"\b%s\b" % re.escape(tag), td, t)
        t = re.sub(r"\*\s*const$", "*", t)
        return t

    ral = {k[1]: v for k, v in _REC_ALIAS.items() if k[0] == unit}

    def fix(t, _fix=fix):
        t = _fix(t)
        if isinstance(t, str) and ral and "struct " in t:
            for tag, canon in ral.items():
                t = re.sub(r"\bstruct %s\b" % re.escape(tag), canon, t)
        return t

    def visit(n):
        if isinstance(n, dict):
            if "t" in n:
                n["t"] = fix(n["t"])
            if ral and n.get("rec") in ral:
                n["rec"] = ral[n["rec"]]
            for v in n.values():
                visit(v)
        elif isinstance(n, list):
            for v in n:
                visit(v)
    visit(raw["blocks"])
    for p_ in raw["params"]:
        p_["t"] = fix(p_.get("t"))
    if "ret_t" in raw:
        raw["ret_t"] = fix(raw["ret_t"])


def _canonicalise_incdec(raw):
    """`x += 1;`, `x -= 1;`, `x = x + 1;`, `x = x - 1;` as statements are the increment/decrement events `x++;` / `x--;`."""
    if raw.get("_incdec_done"):
        return
    raw["_incdec_done"] = True
    for b in raw["blocks"]:
        for i, ev in enumerate(b["events"]):
            if ev.get("ev") != "assign":
                continue
            e = ev["e"]
            op = None
            one = lambda x: x is not None and cval(x) == 1     # noqa: E731
            if e.get("op") in ("+=", "-=") and one(e.get("r")):
                op = "++" if e["op"] == "+=" else "--"
            elif e.get("op") == "=":
                r = strip(e.get("r"))
                if r is not None and r.get("k") == "bin" and r.get("op") in ("+", "-") and one(r.get("r")) and S(r.get("l")) == S(e.get("l")):
                    op = "++" if r["op"] == "+" else "--"
                elif r is not None and r.get("k") == "bin" and r.get("op") == "+" and one(r.get("l")) and S(r.get("r")) == S(e.get("l")):
                    op = "++"
            if op:
                b["events"][i] = {"line": ev["line"], "ev": "incdec",
                                  "e": {"k": "un", "op": op, "postfix": True, "e": e["l"], "t": e.get("t", "")}}
                if ev.get("macro"):
                    b["events"][i]["macro"] = ev["macro"]


def _canonicalise_decl_init(raw, unit):
    """A local that the reference declares with an initialiser and the tree declares bare and assigns later (or the reverse) is
    brought back to the reference shape (engine/alias.py): splitting or merging declaration and initialisation is invisible."""
    if raw.get("_declinit_done"):
        return
    raw["_declinit_done"] = True
    ref = _namemap().get("__decl_init__", {}).get(unit, {}).get(raw["name"])
    if not ref:
        return
    import alias as _alias
    _alias.canonicalise_decl_init(raw, ref)


def _substitute_new_locals(raw, unit):
    """New single-definition locals (unknown to the frozen reference) are replaced by their defining expression (engine/alias.py)."""
    if raw.get("_alias_done") is not None:
        return
    raw["_alias_done"] = []
    ref = _namemap().get(unit, {}).get(raw["name"])
    if not ref:
        return
    import alias as _alias
    raw["_alias_done"] = _alias.substitute_new_locals(raw, {n for _t, n in ref})


class Func:
    def __init__(self, raw, unit):
        _canonicalise_types(raw, unit)
        _canonicalise_names(raw, unit)
        _canonicalise_params(raw)
        _canonicalise_incdec(raw)
        _canonicalise_decl_init(raw, unit)
        _substitute_new_locals(raw, unit)
        self.raw = raw
        self.name = raw["name"]
        self.unit = unit
        self.line = raw["line"]
        self.static = raw["static"]
        self.public = raw["public"]
        self.params = raw["params"]
        self.ret_t = raw["ret_t"]
        self.entry = raw["entry"]
        self.exit = raw["exit"]
        self.blocks = {b["id"]: Block(b, self) for b in raw["blocks"]}
        for b in self.blocks.values():
            for s in b.succs:
                if s is not None:
                    self.blocks[s].preds.append(b.id)
        self._dom = None
        self._reach = None

    def __repr__(self):
        return "<Func %s:%s>" % (self.unit, self.name)

    @property
    def key(self):
        return (self.unit, self.name)

    def site(self, what=""):
        return "%s:%s%s" % (self.unit, self.name, (":" + what) if what else "")

    def events(self):
        for b in self.blocks.values():
            if b.id in self.reachable():
                yield from b.events

    def calls(self, name=None):
        for ev in self.events():
            if ev.kind == "call" and (name is None or ev.callee == name or (isinstance(name, (set, frozenset, tuple, list)) and ev.callee in name)):
                yield ev

    def reachable(self):
        if self._reach is None:
            seen = {self.entry}
            dq = deque([self.entry])
            while dq:
                b = dq.popleft()
                for s in self.blocks[b].succs:
                    if s is not None and s not in seen:
                        seen.add(s)
                        dq.append(s)
            self._reach = seen
        return self._reach

    def edges(self, bid):
        """[(succ, cond_expr|None, branch)] — branch True/False for two-way, ('case', v)/('default',)/None else."""
        b = self.blocks[bid]
        t = b.term
        out = []
        if t and t["kind"] == "SwitchStmt":
            for s in b.succs:
                if s is None:
                    continue
                lab = self.blocks[s].label or {}
                if "case" in lab:
                    out.append((s, t.get("cond"), ("case", lab["case"])))
                elif "default" in lab:
                    out.append((s, t.get("cond"), ("default",)))
                else:
                    out.append((s, t.get("cond"), ("nocase",)))
            return out
        if t and len(b.succs) == 2 and t.get("cond") is not None:
            for s, br in zip(b.succs, (True, False)):
                if s is not None:
                    out.append((s, t["cond"], br))
            return out
        for s in b.succs:
            if s is not None:
                out.append((s, None, None))
        return out

    # dominators -------------------------------------------------------------
    def dominators(self):
        if self._dom is None:
            reach = self.reachable()
            order = self.rpo()
            dom = {b: set(reach) for b in reach}
            dom[self.entry] = {self.entry}
            changed = True
            while changed:
                changed = False
                for b in order:
                    if b == self.entry:
                        continue
                    ps = [p for p in self.blocks[b].preds if p in reach]
                    new = set.intersection(*(dom[p] for p in ps)) if ps else set()
                    new = new | {b}
                    if new != dom[b]:
                        dom[b] = new
                        changed = True
            self._dom = dom
        return self._dom

    def rpo(self):
        seen, out = set(), []

        def dfs(b):
            stack = [(b, iter([s for s in self.blocks[b].succs if s is not None]))]
            seen.add(b)
            while stack:
                node, it = stack[-1]
                for s in it:
                    if s not in seen:
                        seen.add(s)
                        stack.append((s, iter([x for x in self.blocks[s].succs if x is not None])))
                        break
                else:
                    out.append(node)
                    stack.pop()
        dfs(self.entry)
        return out[::-1]

    def ev_dominates(self, a, b):
        """event a dominates event b (both in this function)."""
        if a.block.id == b.block.id:
            return a.idx < b.idx
        return a.block.id in self.dominators()[b.block.id]

    def postdominators(self):
        """block -> set of blocks that post-dominate it (exit included); blocks that cannot reach the exit get {themselves}."""
        reach = self.reachable()
        nodes = set(reach)
        pd = {b: set(nodes) for b in nodes}
        pd[self.exit] = {self.exit}
        changed = True
        while changed:
            changed = False
            for b in nodes:
                if b == self.exit:
                    continue
                ss = [s for s in self.blocks[b].succs if s is not None and s in nodes]
                new = set.intersection(*(pd[s] for s in ss)) if ss else set()
                new = new | {b}
                if new != pd[b]:
                    pd[b] = new
                    changed = True
        return pd

    def control_deps(self, transitive=True):
        """block -> set of branch blocks it is (transitively) control dependent on (Ferrante et al.: X is control
        dependent on A iff X post-dominates some successor of A but does not strictly post-dominate A)."""
        pd = self.postdominators()
        cd = {b: set() for b in pd}
        for a in pd:
            ss = [s for s in self.blocks[a].succs if s is not None and s in pd]
            if len(ss) < 2:
                continue
            for s in ss:
                for x in pd[s]:
                    if x == a or x not in pd[a]:
                        cd[x].add(a)
        if transitive:
            changed = True
            while changed:
                changed = False
                for x in cd:
                    add = set()
                    for a in cd[x]:
                        add |= cd.get(a, set())
                    if not add <= cd[x]:
                        cd[x] |= add
                        changed = True
        return cd

    def back_edges(self):
        dom = self.dominators()
        out = set()
        for b in self.reachable():
            for s in self.blocks[b].succs:
                if s is not None and s in dom[b]:
                    out.add((b, s))
        return out

    def in_loop_blocks(self):
        """Blocks that belong to some natural loop."""
        loops = set()
        for (t, h) in self.back_edges():
            body = {h, t}
            st = [t]
            while st:
                x = st.pop()
                if x == h:
                    continue
                for p in self.blocks[x].preds:
                    if p not in body and p in self.reachable():
                        body.add(p)
                        st.append(p)
            loops |= body
        return loops

    def natural_loop(self, tail, head):
        body = {head, tail}
        st = [tail]
        while st:
            x = st.pop()
            if x == head:
                continue
            for p in self.blocks[x].preds:
                if p not in body and p in self.reachable():
                    body.add(p)
                    st.append(p)
        return body

    # generic forward dataflow -----------------------------------------------
    def forward(self, init, transfer, edge, join, top=None):
        """Generic forward analysis.  transfer(state, ev)->state, edge(state, cond, branch, src_block)->state|None
        (None = edge infeasible), join(a,b)->state.  States must be hashable/comparable.  Returns IN map."""
        IN = {self.entry: init}
        work = deque([self.entry])
        inq = {self.entry}
        guard = 0
        while work:
            guard += 1
            if guard > 200000:
                raise AnalysisBroken("dataflow did not converge in %s" % self.name)
            b = work.popleft()
            inq.discard(b)
            st = IN[b]
            for ev in self.blocks[b].events:
                st = transfer(st, ev)
            for (s, cond, br) in self.edges(b):
                out = edge(st, cond, br, self.blocks[b]) if edge else st
                if out is None:
                    continue
                if s not in IN:
                    IN[s] = out
                    new = out
                    changed = True
                else:
                    new = join(IN[s], out)
                    changed = new != IN[s]
                    IN[s] = new
                if changed and s not in inq:
                    work.append(s)
                    inq.add(s)
        return IN

    def state_before(self, IN, ev, transfer):
        if ev.block.id not in IN:
            return None
        st = IN[ev.block.id]
        for x in ev.block.events[: ev.idx]:
            st = transfer(st, x)
        return st

    def state_at_end(self, IN, bid, transfer):
        if bid not in IN:
            return None
        st = IN[bid]
        for x in self.blocks[bid].events:
            st = transfer(st, x)
        return st

    # must-facts ---------------------------------------------------------------
    def mustfacts(self, kill=None, gen=None):
        """Must-hold branch facts: frozenset of (atom, polarity).  kill(fact, ev)->bool decides what an event
        invalidates (default: assignment to a variable the fact mentions); gen(ev)->iterable of facts."""

        def default_kill(fact, ev):
            return False

        kill_fn = kill or default_kill

        def transfer(st, ev):
            if st is None:
                return st
            dead = set()
            lhs = ev.lhs
            lhs_s = S(lhs) if lhs is not None else None
            for f in st:
                if lhs_s is not None and _mentions(f[0], lhs_s):
                    dead.add(f)
                elif kill_fn(f, ev):
                    dead.add(f)
            if dead:
                st = st - dead
            if gen:
                g = list(gen(ev))
                if g:
                    st = st | frozenset(g)
            return st

        def edge(st, cond, br, blk):
            if cond is None or br not in (True, False):
                if cond is not None and br is not None and br[0] == "case":
                    return st | frozenset([("(%s == %s)" % (S(cond), br[1]), True)])
                return st
            return st | frozenset(atoms(cond, br))

        def join(a, b):
            return a & b

        IN = self.forward(frozenset(), transfer, edge, join)
        return IN, transfer

    def facts_before(self, ev, kill=None, gen=None, _cache={}):
        IN, tr = self.mustfacts(kill, gen)
        return self.state_before(IN, ev, tr)

    # paths ----------------------------------------------------------------
    def paths(self, limit=20000, prune=True, loop_fragments=False):
        """Enumerate acyclic entry→exit paths (each back edge taken at most 0 times): list of
        [(block_id, branch_atoms)] where branch_atoms is the list of atoms assumed when leaving the block."""
        res = []
        back = self.back_edges()

        def rec(b, path, assumed):
            if len(res) > limit:
                raise AnalysisBroken("too many paths in %s" % self.name)
            if b == self.exit:
                res.append(list(path))
                return
            # an assumption about an lvalue does not survive an assignment to it (tmp->ev tested, allocated, tested again)
            dropped = {}
            if prune and assumed:
                for ev in self.blocks[b].events:
                    if ev.kind in ("assign", "incdec", "decl") and ev.lhs is not None:
                        lv = S(ev.lhs)
                        for a in [a for a in assumed if _mentions(a, lv)]:
                            dropped[a] = assumed.pop(a)
            try:
                return rec2(b, path, assumed)
            finally:
                for a, v in dropped.items():
                    assumed.setdefault(a, v)

        def rec2(b, path, assumed):
            for (s, cond, br) in self.edges(b):
                if (b, s) in back:
                    if loop_fragments:
                        # a path that ends by going round a loop (needed for bodies of non-terminating loops)
                        at2 = atoms(cond, br) if (cond is not None and br in (True, False)) else []
                        if not prune or all(assumed.get(a, p) == p for (a, p) in at2):
                            res.append(list(path) + [(b, at2)])
                    continue
                alts = [[]]
                if cond is not None and br in (True, False):
                    alts = atom_alternatives(cond, br)
                elif cond is not None and br is not None:
                    if br[0] == "case":
                        alts = [[("(%s == %s)" % (S(cond), br[1]), True)]]
                    elif br[0] in ("default", "nocase"):
                        # the default arm is taken for none of the labelled values
                        alts = [[("(%s == %s)" % (S(cond), b2[1]), False) for (_s2, _c2, b2) in self.edges(b) if b2 is not None and b2[0] == "case"]]
                for at in alts:
                    ok = True
                    if prune:
                        for (a, p) in at:
                            if assumed.get(a, p) != p:
                                ok = False
                                break
                    if not ok:
                        continue
                    added = [a for (a, p) in at if a not in assumed]
                    for (a, p) in at:
                        assumed.setdefault(a, p)
                    path.append((b, at))
                    rec(s, path, assumed)
                    path.pop()
                    for a in added:
                        del assumed[a]
        rec(self.entry, [], {})
        return res


def _mentions(atom, lv):
    """Does the atom string mention lvalue string lv as a whole token (mod->state mentions mod and mod->state)."""
    i = atom.find(lv)
    while i != -1:
        before = atom[i - 1] if i > 0 else " "
        after = atom[i + len(lv)] if i + len(lv) < len(atom) else " "
        if not (before.isalnum() or before == "_") and not (after.isalnum() or after == "_"):
            # a longer member chain continuing (lv = "mod", atom has "mod->x") counts as a mention as well;
            # a *field* of that name (x->lv, x.lv) is not a mention of the variable lv
            is_field = (before == ">" and i >= 2 and atom[i - 2] == "-") or before == "."
            if not is_field:
                return True
        i = atom.find(lv, i + 1)
    return False


_REC_ALIAS = {}      # (unit, record name in this tree) -> record name in the frozen reference


# static helpers with exactly one caller in the reference tree: helper -> caller (used only when the helper no longer exists)
FOLDED_INTO = {"tell_subscribers": "tell_pubsub_msg", "alloc_ps_msg": "tell_if", "_pipe": "init_pubsub_fd", "loop_quit": None,
               "insert_node": "m_bst_insert"}


class Program:
    def __init__(self, root="/repo", ndebug=True, facts=None):
        self.root = root
        self.ndebug = ndebug
        if facts is None:
            facts = extract(root, ndebug)
        self.units = sorted(facts)
        self.raw = facts
        # canonicalisation: consistently renamed private symbols (functions, file variables, record fields, enumerators) get their
        # reference names back; newly extracted static helpers (unknown to the frozen reference) are inlined into their callers
        import inline as _inline
        import symren as _symren
        nm = _namemap()
        self.symren = _symren.canonicalise(facts, nm, root)
        # narrowing integral conversions on `return` (`static uint8_t n(void) { return m_queue_len(q); }`), noted before helpers are inlined
        # and their return statements dissolve into the callers
        self.narrow_returns = []
        _W = {"_Bool": 1, "char": 1, "signed char": 1, "unsigned char": 1, "short": 2, "unsigned short": 2, "int": 4, "unsigned int": 4,
              "long": 8, "unsigned long": 8, "long long": 8, "unsigned long long": 8}
        for u in self.units:
            for rf in facts[u]["functions"]:
                for b in rf["blocks"]:
                    for ev in b["events"]:
                        if ev.get("ev") != "ret" or not isinstance(ev.get("e"), dict):
                            continue
                        for x in walk(ev["e"]):
                            if isinstance(x, dict) and x.get("k") in ("icast", "cast") and x.get("ck") == "IntegralCast":
                                fw, tw = _W.get(x.get("from_ct")), _W.get(x.get("ct"))
                                if fw and tw and fw > tw and isinstance(x.get("e"), dict) and x["e"].get("cv") is None:
                                    self.narrow_returns.append((u, rf["name"], S(x["e"]), x.get("from_ct"), x.get("ct"), ev.get("line")))
        import structassign as _sa
        for u in self.units:
            if not facts[u].get("_structassign_done"):
                facts[u]["_structassign_done"] = True
                _sa.canonicalise(facts[u])
        self.inlined = {}
        for u in self.units:
            if u in nm and not facts[u].get("_inlined_done"):
                done = _inline.inline_new_helpers(facts[u], set(nm[u].keys()))
                # pure one-expression static helpers are expanded in every tree (reference included): canonical form
                _inline.inline_pure_expr_helpers(facts[u])
                facts[u]["_inlined_done"] = True
                if done:
                    self.inlined[u] = done
        self.folded = {}
        refrecs = set(_namemap().get("__records__", []))
        _REC_ALIAS.clear()
        # records first: their canonical names are needed while the functions are canonicalised
        for u in self.units:
            for r in facts[u]["records"]:
                names = [r["name"]] + ([r["tag"]] if r.get("tag") else []) + list(r.get("typedefs", []))
                canon = next((n_ for n_ in names if n_ in refrecs), r["name"])
                if canon != r["name"]:
                    _REC_ALIAS[(u, r["name"])] = canon
        self.funcs = []              # all Func
        self.by_name = defaultdict(list)
        self.records = {}            # name -> record (first definition wins; identical across units)
        self.records_by_unit = {}
        self.enums = {}
        self.enum_groups = {}        # enum (tag or typedef) name -> [enumerator names]
        self.globals = []            # dicts with unit
        for u in self.units:
            d = facts[u]
            for rf in d["functions"]:
                f = Func(rf, u)
                self.funcs.append(f)
                self.by_name[f.name].append(f)
            for r in d["records"]:
                # canonical record name: the one the frozen reference uses, among the tag and the typedef names of this tree
                names = [r["name"]] + ([r["tag"]] if r.get("tag") else []) + list(r.get("typedefs", []))
                canon = next((n_ for n_ in names if n_ in refrecs), r["name"])
                if canon != r["name"]:
                    _REC_ALIAS[(u, r["name"])] = canon
                    r = dict(r)
                    r["name"] = canon
                self.records_by_unit[(u, r["name"])] = r
                self.records.setdefault(r["name"], r)
                for n_ in names:
                    self.records.setdefault(n_, r)
            self.enums.update(d["enums"])
            for g_, names_ in d.get("enum_groups", {}).items():
                cur_ = self.enum_groups.setdefault(g_, [])
                for n_ in names_:
                    if n_ not in cur_:
                        cur_.append(n_)
            for g in d["globals"]:
                g = dict(g)
                g["unit"] = u
                self.globals.append(g)
        self.max_align = facts[self.units[0]].get("max_align", 16)
        self._pts = None
        self._cg = None

    # lookup -----------------------------------------------------------------
    def fn(self, name, unit=None, required=True):
        c = self.by_name.get(name, [])
        if unit is not None:
            cu = [f for f in c if f.unit == unit]
            if cu:
                return cu[0]
            if len(c) == 1:
                return c[0]             # the only function of that name: it was moved to another file
            c = [f for f in c if not f.static]
        if len(c) == 1:
            return c[0]
        if not c:
            # a static helper folded into its only caller: the rules anchored on it look at the caller instead (they are written over
            # events, facts and paths, not over the function boundary); everything they required must now hold there
            host = FOLDED_INTO.get(name)
            if host and self.by_name.get(host):
                self.folded[name] = host
                return self.fn(host, unit, required)
            if required:
                raise AnalysisBroken("anchor function '%s' not found%s" % (name, " in " + unit if unit else ""))
            return None
        ns = [f for f in c if not f.static]
        if len(ns) == 1:
            return ns[0]
        if required:
            raise AnalysisBroken("function name '%s' is ambiguous: %s" % (name, [f.unit for f in c]))
        return None

    def resolve(self, caller, name):
        """Definition a direct call to `name` from `caller` binds to (None for external functions)."""
        c = self.by_name.get(name, [])
        for f in c:
            if f.unit == caller.unit:
                return f
        for f in c:
            if not f.static:
                return f
        return None

    def resolve_ptr(self, caller, name):
        """Target of a call through a function pointer holding `name`: static functions of other units qualify."""
        r = self.resolve(caller, name)
        if r is not None:
            return r
        c = self.by_name.get(name, [])
        if len(c) == 1:
            return c[0]
        return None

    def record(self, name, required=True):
        r = self.records.get(name)
        if r is None and required:
            raise AnalysisBroken("anchor record '%s' not found" % name)
        return r

    def field(self, rec, field, required=True):
        r = self.record(rec, required)
        if r:
            for f in r["fields"]:
                if f["name"] == field:
                    return f
        if required:
            raise AnalysisBroken("anchor field '%s.%s' not found" % (rec, field))
        return None

    def all_events(self):
        for f in self.funcs:
            yield from f.events()

    def calls_to(self, name):
        names = name if isinstance(name, (set, frozenset, list, tuple)) else {name}
        for f in self.funcs:
            for ev in f.events():
                if ev.kind == "call" and ev.callee in names:
                    yield ev

    def writes_to_field(self, rec, field):
        """All assign/incdec events whose lvalue is <x>.<field> of record `rec` (through arrays as well)."""
        for ev in self.all_events():
            if ev.kind in ("assign", "incdec"):
                l = strip(ev.lhs)
                while l is not None and l["k"] == "index":
                    l = strip(l["base"])
                if l is not None and l["k"] == "member" and l["field"] == field and l["rec"] == rec:
                    yield ev

    # function-pointer bindings ---------------------------------------------------
    def pointsto(self):
        if self._pts is None:
            self._pts = PointsTo(self)
        return self._pts

    def callgraph(self):
        if self._cg is None:
            self._cg = CallGraph(self)
        return self._cg


# ----------------------------------------------------------------------------- function pointers

# Slots filled by the *user* of the library (never by library code): calls through them leave the library.
USER_SLOTS = {
    ("m_mod_hook_t", "on_start"): "USERCB",
    ("m_mod_hook_t", "on_stop"): "USERCB",
    ("m_mod_hook_t", "on_eval"): "USERCB",
    ("m_mod_hook_t", "on_evt"): "USERCB",
    ("m_src_task_t", "fn"): "USERTASK",
    ("m_memhook_t", "_malloc"): "ALLOC",
    ("m_memhook_t", "_calloc"): "ALLOC",
    ("m_memhook_t", "_free"): "ALLOC",
    ("_ctx", "logger"): "LOGGER",
    ("m_logger", "DEBUG"): "LOG",
    ("m_logger", "INFO"): "LOG",
    ("m_logger", "WARN"): "LOG",
    ("m_logger", "ERR"): "LOG",
}
# results of these calls are user handlers (handler stack of become/unbecome)
USER_RESULT_CALLS = {"m_stack_peek": "USERCB", "dlsym": "USERCB"}
PSEUDO = {"USERCB", "USERTASK", "ALLOC", "LOGGER", "LOG", "NULL", "USERPARAM"}


class PointsTo:
    """Flow-insensitive, field-based points-to restricted to function values."""

    def __init__(self, prog):
        self.p = prog
        self.pts = defaultdict(set)
        self.constraints = []   # (dst_node, expr, fn)
        self._build()
        self._solve()

    def node_of_lvalue(self, e, fn):
        e = strip(e)
        if e is None:
            return None
        k = e["k"]
        if k == "var":
            vk = e.get("vk")
            if vk == "param":
                return ("param", fn.key, e["name"])
            if vk in ("local", "slocal"):
                return ("local", fn.key, e["name"])
            if vk == "global":
                return ("global", e["name"])
            return None
        if k == "member":
            return ("field", e["rec"], e["field"])
        if k == "index":
            return self.node_of_lvalue(e["base"], fn)
        if k == "un" and e["op"] == "*":
            return self.node_of_lvalue(e["e"], fn)
        return None

    def vals(self, e, fn):
        """Set of function names / pseudo values the expression may evaluate to."""
        e = strip(e)
        if e is None:
            return set()
        k = e["k"]
        if k == "null":
            return {"NULL"}
        if k == "var":
            if e.get("vk") == "func":
                return {e["name"]}
            n = self.node_of_lvalue(e, fn)
            return set(self.pts.get(n, ())) if n else set()
        if k == "member":
            key = (e["rec"], e["field"])
            if key in USER_SLOTS:
                return {USER_SLOTS[key]}
            return set(self.pts.get(("field", e["rec"], e["field"]), ()))
        if k == "index":
            return self.vals(e["base"], fn)
        if k == "un" and e["op"] in ("&", "*"):
            return self.vals(e["e"], fn)
        if k == "cond":
            return self.vals(e["a"], fn) | self.vals(e["b"], fn)
        if k == "call":
            c = e.get("callee")
            if c in USER_RESULT_CALLS:
                return {USER_RESULT_CALLS[c]}
            if c:
                tgt = self.p.resolve(fn, c)
                if tgt:
                    return set(self.pts.get(("ret", tgt.key), ()))
            return set()
        if k == "init":
            out = set()
            for x in e["elems"]:
                out |= self.vals(x, fn)
            return out
        return set()

    def _is_fnptr_type(self, t):
        return "(*" in t or t.endswith("_cb") or "_cmp" in t or "_dtor" in t or "process_cb" in t or "m_thpool_task" in t

    def _build(self):
        p = self.p
        for g in p.globals:
            if g.get("init") is not None:
                self.constraints.append((("global", g["name"]), g["init"], None))
        for f in p.funcs:
            for ev in f.events():
                if ev.kind in ("assign", "decl"):
                    n = self.node_of_lvalue(ev.lhs, f)
                    if n and ev.rhs is not None:
                        self.constraints.append((n, ev.rhs, f))
                elif ev.kind == "ret" and ev.e is not None:
                    self.constraints.append((("ret", f.key), ev.e, f))
                elif ev.kind == "call":
                    self.constraints.append((("call", id(ev)), ev, f))

    def _solve(self):
        p = self.p
        changed = True
        rounds = 0
        while changed:
            rounds += 1
            if rounds > 50:
                raise AnalysisBroken("function-pointer analysis did not converge")
            changed = False
            for (dst, src, f) in self.constraints:
                if dst[0] == "call":
                    ev = src
                    targets = self.call_targets(ev)
                    for t in targets:
                        if t in PSEUDO:
                            continue
                        tf = (p.resolve(f, t) if ev.callee else p.resolve_ptr(f, t)) if isinstance(t, str) else None
                        if not tf:
                            continue
                        for i, a in enumerate(ev.args):
                            if i < len(tf.params):
                                v = self.vals(a, f)
                                if v:
                                    n = ("param", tf.key, tf.params[i]["name"])
                                    if not v <= self.pts[n]:
                                        self.pts[n] |= v
                                        changed = True
                    continue
                fakefn = f
                if f is None:
                    fakefn = _NOFN
                v = self.vals(src, fakefn)
                if v and not v <= self.pts[dst]:
                    self.pts[dst] |= v
                    changed = True

    def call_targets(self, ev):
        """Names (or pseudo values) a call event may invoke."""
        if ev.callee:
            return {ev.callee}
        return self.vals(ev.e["fn"], ev.fn)


class _NoFn:
    key = ("", "")
    unit = ""


_NOFN = _NoFn()


# ----------------------------------------------------------------------------- call graph

class CallGraph:
    """Direct calls + resolved indirect calls.  Calls through a *parameter* of the enclosing function are
    attributed to the call sites that pass the function in (context sensitivity of depth 1 for iterate-style APIs)."""

    THREAD_START = {"pthread_create": 2}   # argument index of the start routine: not a call edge

    def __init__(self, prog):
        self.p = prog
        self.pt = prog.pointsto()
        self.param_calls = defaultdict(set)     # fn.key -> set of param names it (transitively) invokes
        self.edges = defaultdict(set)           # fn.key -> set of fn.key | pseudo
        self.unresolved = []                    # indirect call events with empty target set
        self._build()

    def _param_of(self, ev):
        """If the call goes through a parameter of the enclosing function, return its name."""
        if ev.callee:
            return None
        fe = strip(ev.e["fn"])
        if fe is not None and fe["k"] == "var" and fe.get("vk") == "param":
            return fe["name"]
        return None

    def _build(self):
        p = self.p
        # 1. which functions invoke their own parameters (fixpoint over pass-through)
        changed = True
        while changed:
            changed = False
            for f in p.funcs:
                for ev in f.calls():
                    pn = self._param_of(ev)
                    if pn and pn not in self.param_calls[f.key]:
                        self.param_calls[f.key].add(pn)
                        changed = True
                    if ev.callee:
                        tf = p.resolve(f, ev.callee)
                        if tf and self.param_calls.get(tf.key):
                            for i, a in enumerate(ev.args):
                                if i < len(tf.params) and tf.params[i]["name"] in self.param_calls[tf.key]:
                                    sa = strip(a)
                                    if sa is not None and sa["k"] == "var" and sa.get("vk") == "param":
                                        if sa["name"] not in self.param_calls[f.key]:
                                            self.param_calls[f.key].add(sa["name"])
                                            changed = True
        # 2. edges
        for f in p.funcs:
            for ev in f.calls():
                if self._param_of(ev):
                    continue  # attributed to callers
                if ev.callee:
                    tf = p.resolve(f, ev.callee)
                    if tf:
                        self.edges[f.key].add(tf.key)
                        pc = self.param_calls.get(tf.key)
                        if pc:
                            for i, a in enumerate(ev.args):
                                if i < len(tf.params) and tf.params[i]["name"] in pc:
                                    sa = strip(a)
                                    if sa is not None and sa["k"] == "var" and sa.get("vk") == "param" and sa["name"] in self.param_calls[f.key]:
                                        continue  # passes its own parameter through
                                    for v in self.pt.vals(a, f):
                                        self._add(f, v, ev)
                    else:
                        self.edges[f.key].add(("ext", ev.callee))
                else:
                    tg = self.pt.vals(ev.e["fn"], f)
                    if not tg:
                        self.unresolved.append(ev)
                    for v in tg:
                        self._add(f, v, ev)

    def _add(self, f, v, ev):
        if v in PSEUDO:
            if v != "NULL":
                self.edges[f.key].add(("pseudo", v))
            return
        tf = self.p.resolve_ptr(f, v)
        if tf:
            self.edges[f.key].add(tf.key)
        else:
            self.edges[f.key].add(("ext", v))

    def callees_of_event(self, ev):
        """Targets of one call event: list of Func / ('pseudo',X) / ('ext',name), including functions passed
        into parameter-invoking callees."""
        out = []
        f = ev.fn
        if ev.callee:
            tf = self.p.resolve(f, ev.callee)
            if tf:
                out.append(tf)
                pc = self.param_calls.get(tf.key)
                if pc:
                    for i, a in enumerate(ev.args):
                        if i < len(tf.params) and tf.params[i]["name"] in pc:
                            for v in self.pt.vals(a, f):
                                if v in PSEUDO:
                                    if v != "NULL":
                                        out.append(("pseudo", v))
                                else:
                                    t2 = self.p.resolve_ptr(f, v)
                                    out.append(t2 if t2 else ("ext", v))
            else:
                out.append(("ext", ev.callee))
        else:
            for v in self.pt.vals(ev.e["fn"], f):
                if v in PSEUDO:
                    if v != "NULL":
                        out.append(("pseudo", v))
                else:
                    t2 = self.p.resolve_ptr(f, v)
                    out.append(t2 if t2 else ("ext", v))
        return out

    def closure(self, start_keys):
        seen = set()
        st = list(start_keys)
        while st:
            k = st.pop()
            if k in seen:
                continue
            seen.add(k)
            for n in self.edges.get(k, ()):
                if n not in seen:
                    st.append(n)
        return seen

    def reaches(self, fn, pred, _memo=None):
        """Does the closure of fn contain a node satisfying pred(node)?"""
        for n in self.closure([fn.key]):
            if pred(n):
                return True
        return False

    def may_reach_set(self, pred):
        """Set of fn.key whose closure contains a node with pred true (computed once by reverse propagation)."""
        rev = defaultdict(set)
        nodes = set(self.edges)
        for k, vs in self.edges.items():
            for v in vs:
                rev[v].add(k)
                nodes.add(v)
        hit = {n for n in nodes if pred(n)}
        st = list(hit)
        while st:
            n = st.pop()
            for pr in rev.get(n, ()):
                if pr not in hit:
                    hit.add(pr)
                    st.append(pr)
        return hit

    def event_may_reach(self, ev, keyset):
        """Does this call event possibly lead into a function/pseudo node of keyset (keys as in edges)?"""
        for t in self.callees_of_event(ev):
            k = t.key if isinstance(t, Func) else t
            if k in keyset:
                return True
        return False

    def chain(self, src_key, pred, limit=12):
        """Shortest call chain from src to a node satisfying pred (for reports)."""
        dq = deque([(src_key, [src_key])])
        seen = {src_key}
        while dq:
            k, path = dq.popleft()
            if pred(k) and k != src_key:
                return path
            if len(path) > limit:
                continue
            for n in self.edges.get(k, ()):
                if n not in seen:
                    seen.add(n)
                    dq.append((n, path + [n]))
        return None


def fmt_key(k):
    if isinstance(k, tuple) and len(k) == 2 and k[0] in ("pseudo", "ext"):
        return "%s:%s" % k
    if isinstance(k, tuple):
        return k[1]
    return str(k)
