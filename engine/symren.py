"""Symbol-rename canonicalisation of the fact base.

A maintainer may consistently rename a private function, a file-level variable, a field of a private record or an enumerator: nothing
anybody can observe changes, and the rules — which name their anchors the way the frozen reference (engine/namemap.json) does — must
not notice.  This pass maps such names back before any other canonicalisation runs:

* functions      a name unknown to the reference takes the name of a reference function that no longer exists when the two have the
                 same signature (return and parameter types, as written or canonical) and call mostly the same functions, and the match
                 is unique both ways;
* file variables by declared type within the same source file;
* record fields  per record, fields that disappeared are matched to fields that appeared by declared type (in declaration order when
                 several share a type) — a reordering of fields alone changes nothing here;
* enumerators    per enum, by value.

Anything ambiguous is left alone (the anchored rule then reports exit 2 "anchor vanished", never a violation)."""
import os


def _walk(n, fn):
    if isinstance(n, dict):
        fn(n)
        for v in n.values():
            _walk(v, fn)
    elif isinstance(n, list):
        for v in n:
            _walk(v, fn)


def _callees(rf):
    cal = set()

    def vis(n):
        if n.get("k") == "call" and n.get("callee"):
            cal.add(n["callee"])
    _walk(rf["blocks"], vis)
    return cal


def _sig_equal(rf, ref):
    if rf.get("ret_t", "") != ref.get("ret", ""):
        return False
    ps = rf["params"]
    if len(ps) != len(ref["params"]):
        return False
    for p, (t, ct) in zip(ps, ref["params"]):
        if p["t"] != t and p.get("ct", "") != ct:
            return False
    return True


def function_renames(facts, nm):
    """(global map, {unit: map}).  A static function is matched within its own source file (two files may each have a static helper of
    the same name); an external one across the library."""
    ref = nm.get("__funcs__", {})
    if not ref:
        return {}, {}
    cur = {}
    for u, d in facts.items():
        for rf in d["functions"]:
            cur.setdefault(rf["name"], []).append((u, rf))
    # reference definitions that no longer exist: (name, unit) for statics whose file lost the name, name for externals gone everywhere
    gone = []
    for g, defs in ref.items():
        for r in defs:
            here = [u for (u, _rf) in cur.get(g, [])]
            if r["static"]:
                if r["unit"] not in here and not (len(defs) == 1 and here):
                    gone.append((g, r))
            elif not here:
                gone.append((g, r))
    fresh = [(f, u, rf) for f, lst in cur.items() if f not in ref for (u, rf) in lst]
    if not gone or not fresh:
        return {}, {}
    gone_s, fresh_s = {g for g, _r in gone}, {f for f, _u, _rf in fresh}
    cand = {}
    for f, u, rf in fresh:
        if len(cur[f]) != 1:
            continue
        cf = _callees(rf) - fresh_s
        best = []
        for g, r in gone:
            if not _sig_equal(rf, r):
                continue
            if r["static"] and rf["static"] and r["unit"] != u:
                continue
            cg = set(r["callees"]) - gone_s
            sim = 1.0 if not cf and not cg else len(cf & cg) / float(len(cf | cg))
            if sim >= 0.5 and os.path.dirname(r["unit"]) == os.path.dirname(u):
                best.append((sim, g, r["unit"], r["static"]))
        if not best:
            continue
        best.sort(reverse=True)
        if len(best) > 1 and best[0][0] == best[1][0] and best[0][1:3] != best[1][1:3]:
            continue
        cand[(f, u)] = best[0][1:]
    tgt = {}
    for fu, g in cand.items():
        tgt.setdefault((g[0], g[1]), []).append((fu, g))
    glob, per = {}, {}
    for _k, lst in tgt.items():
        if len(lst) != 1:
            continue
        (f, u), (g, _gu, gstatic) = lst[0]
        if gstatic and len(ref[g]) > 1:
            per.setdefault(u, {})[f] = g
        else:
            glob[f] = g
    return glob, per


def _tree_rel(path, root):
    """Path of a source file relative to its tree.  The fact cache is keyed by the *content* of the tree, so the absolute paths inside
    cached facts are those of whichever root produced them first (a scratch copy that may be gone): cut at the tree's `Lib/` directory
    instead of trusting `root`."""
    rp = os.path.relpath(path, root)
    if not rp.startswith(".."):
        return rp
    i = path.rfind("/Lib/")
    return path[i + 1:] if i >= 0 else rp


def global_renames(facts, nm, root):
    ref = nm.get("__globals__", {})
    if not ref:
        return {}
    cur = {}
    for u, d in facts.items():
        for g in d["globals"]:
            if g.get("is_def") and not g.get("func"):
                cur.setdefault(g["name"], {"t": g["t"], "file": _tree_rel(g["file"], root)})
    gone = [g for g in ref if g not in cur]
    fresh = [f for f in cur if f not in ref]
    ren = {}
    for f in fresh:
        c = [g for g in gone if ref[g]["t"] == cur[f]["t"] and os.path.dirname(ref[g]["file"]) == os.path.dirname(cur[f]["file"])]
        if len(c) == 1 and len([f2 for f2 in fresh if cur[f2]["t"] == cur[f]["t"]]) == 1:
            ren[f] = c[0]
    return ren


def field_renames(facts, nm):
    """{(record names of this tree…): {fresh field: reference field}} keyed by every name the record goes by."""
    ref = nm.get("__fields__", {})
    out = {}
    if not ref:
        return out
    seen = set()
    for u, d in facts.items():
        for r in d["records"]:
            names = [r["name"]] + ([r["tag"]] if r.get("tag") else []) + list(r.get("typedefs", []))
            rn = next((n for n in names if n in ref), None)
            if rn is None or id(r) in seen:
                continue
            seen.add(id(r))
            rf = ref[rn]
            cur = [(f["name"], f["t"]) for f in r["fields"]]
            rnames = [n for n, _t in rf]
            cnames = [n for n, _t in cur]
            fresh = [(n, t) for n, t in cur if n not in rnames]
            gone = [(n, t) for n, t in rf if n not in cnames]
            if not fresh or len(fresh) != len(gone):
                continue
            ren = {}
            bt_f, bt_g = {}, {}
            for n, t in fresh:
                bt_f.setdefault(t, []).append(n)
            for n, t in gone:
                bt_g.setdefault(t, []).append(n)
            if set(bt_f) != set(bt_g) or any(len(bt_f[t]) != len(bt_g[t]) for t in bt_f):
                continue
            for t in bt_f:
                for a, b in zip(bt_f[t], bt_g[t]):
                    ren[a] = b
            for n in names:
                out.setdefault(n, {}).update(ren)
    return out


def enum_renames(facts, nm):
    ref = nm.get("__enums__", {})
    ren = {}
    if not ref:
        return ren
    for u, d in facts.items():
        for gname, names in d.get("enum_groups", {}).items():
            if gname not in ref:
                continue
            rvals = {n: v for n, v in ref[gname]}
            cvals = {n: d["enums"].get(n) for n in names}
            fresh = [n for n in names if n not in rvals]
            gone = [n for n in rvals if n not in cvals]
            for f in fresh:
                c = [g for g in gone if rvals[g] == cvals[f]]
                if len(c) == 1 and len([f2 for f2 in fresh if cvals[f2] == cvals[f]]) == 1:
                    ren[f] = c[0]
    return ren


def canonicalise(facts, nm, root="/repo"):
    """Renames symbols of `facts` (in place) back to their reference names.  Returns a description of what was mapped."""
    done = {}
    fr_glob, fr_per = function_renames(facts, nm)
    gr = global_renames(facts, nm, root)
    fl = field_renames(facts, nm)
    er = enum_renames(facts, nm)
    if not (fr_glob or fr_per or gr or fl or er):
        return done
    # record tag -> names, to resolve the `rec` of member nodes
    for u, d in facts.items():
        if d.get("_symren_done"):
            continue
        d["_symren_done"] = True
        fr = dict(fr_glob)
        fr.update(fr_per.get(u, {}))

        def vis(n, fr=fr):
            k = n.get("k")
            if k == "call" and n.get("callee") in fr:
                n["callee"] = fr[n["callee"]]
            elif k == "var":
                vk = n.get("vk")
                if vk == "func" and n.get("name") in fr:
                    n["name"] = fr[n["name"]]
                elif vk == "global" and n.get("name") in gr:
                    n["name"] = gr[n["name"]]
                elif vk == "enum" and n.get("name") in er:
                    n["name"] = er[n["name"]]
            elif k == "member":
                rec = n.get("rec")
                if not rec and isinstance(n.get("base"), dict):
                    # tag-less record (typedef struct { … } T): named by the type of the expression the field is taken from
                    bt = n["base"].get("t") or ""
                    rec = bt.replace("const ", "").replace("*", "").strip()
                m = fl.get(rec)
                if m and n.get("field") in m:
                    n["field"] = m[n["field"]]
        _walk(d["functions"], vis)
        _walk(d["globals"], vis)
        for rf in d["functions"]:
            if rf["name"] in fr:
                rf["_renamed_from"] = rf["name"]
                rf["name"] = fr[rf["name"]]
        for g in d["globals"]:
            if g["name"] in gr and not g.get("func"):
                g["name"] = gr[g["name"]]
        for r in d["records"]:
            names = [r["name"]] + ([r["tag"]] if r.get("tag") else []) + list(r.get("typedefs", []))
            m = next((fl[n] for n in names if n in fl), None)
            if m:
                for f in r["fields"]:
                    if f["name"] in m:
                        f["name"] = m[f["name"]]
        if er:
            for a, b in er.items():
                if a in d["enums"]:
                    d["enums"][b] = d["enums"].pop(a)
            for gname, names in d.get("enum_groups", {}).items():
                d["enum_groups"][gname] = [er.get(n, n) for n in names]
    if fr_glob or fr_per:
        done["functions"] = dict(fr_glob, **{"%s:%s" % (u, a): b for u, m_ in fr_per.items() for a, b in m_.items()})
    if gr:
        done["globals"] = gr
    if fl:
        done["fields"] = {k: v for k, v in fl.items()}
    if er:
        done["enumerators"] = er
    return done
