#!/usr/bin/env python3
"""check.py <Cxx> [--tier quick|thorough] [--root DIR]

exit 0  every obligation of the property's rules holds on DIR's current sources (known findings are printed)
exit 1  + "VIOLATION property=<id> replay=<path>": an obligation fails at a site that is not a known finding
exit 2  analysis broken (anchor vanished, unmodelled construct, instance count below the confirmed floor)
"""
import argparse
import importlib
import os
import sys
import traceback

HERE = os.path.dirname(os.path.abspath(__file__))
sys.path.insert(0, HERE)
sys.path.insert(0, os.path.dirname(HERE))

from units import AnalysisBroken  # noqa: E402
import lm  # noqa: E402
from report import Check  # noqa: E402


def run_property(pid, tier, root, write=True, quiet=False, raw_override=None):
    mod = importlib.import_module("props.%s" % pid.lower())
    level = getattr(mod, "LEVEL", "other")
    ck = Check(pid, tier, root, level)
    configs = [True] if tier == "quick" else [True, False]
    names = []
    for nd in configs:
        P = lm.Program(root, ndebug=nd)
        ck.config = "NDEBUG" if nd else "DEBUG(asserts on)"
        names.append(ck.config)
        try:
            mod.run(ck, P)
        except AnalysisBroken as e:
            # violations established before a later rule lost its footing stand on their own (their cause is usually what made the
            # later anchor vanish); without any, the run has no verdict
            known = {"%s@%s" % (k["rule"], k["site"]) for k in ck.load_known()}
            if not any((not o.ok) and o.key not in known for o in ck.obs):
                raise
            ck.extra["analysis_aborted"] = "after the violation(s) below: %s" % e
            ck.floors = {}
            break
    ck.extra["configs"] = "+".join(names)
    if tier == "thorough" and hasattr(mod, "thorough"):
        mod.thorough(ck, root)
    if tier == "thorough":
        import falsify
        falsify.run(ck, mod, root)
    return ck.finish(write=write, quiet=quiet)


def main():
    ap = argparse.ArgumentParser()
    ap.add_argument("pid")
    ap.add_argument("--tier", default=os.environ.get("VERIF_TIER", "quick"), choices=["quick", "thorough"])
    ap.add_argument("--root", default="/repo")
    ap.add_argument("--no-write", action="store_true")
    a = ap.parse_args()
    try:
        rc = run_property(a.pid.upper(), a.tier, a.root, write=not a.no_write)
    except AnalysisBroken as e:
        print("ANALYSIS-BROKEN property=%s: %s" % (a.pid.upper(), e))
        sys.exit(2)
    except Exception:
        traceback.print_exc()
        print("ANALYSIS-BROKEN property=%s: internal error" % a.pid.upper())
        sys.exit(2)
    sys.exit(rc)


if __name__ == "__main__":
    main()
