"""Thorough tier: obligation falsification at the fact level (DESIGN §2.5).

For every discharged obligation that registered witnesses (the guard branch, the unlock, the m_mem_ref, the counter update…),
the witnesses are deleted from a copy of the fact base (events removed from their CFG block; a guard branch replaced by an
unconditional edge to its continue successor), the property's rules are re-run on the mutated facts and the very same
obligation must now fail (or the analysis must refuse to run).  This measures, on every thorough run, that the instances
counted in the evidence are live: a rule that keeps passing without its witness is vacuous."""
import copy
import os
from concurrent.futures import ProcessPoolExecutor

import lm
import rules
from report import Check
from units import AnalysisBroken

_G = {}


def _mutate(facts, muts, P):
    facts = dict(facts)
    touched = {}
    dels = {}
    for m in muts:
        kind, unit, fn = m[0], m[1], m[2]
        if unit not in touched:
            facts[unit] = copy.deepcopy(facts[unit])
            touched[unit] = True
        rf = [f for f in facts[unit]["functions"] if f["name"] == fn]
        if not rf:
            continue
        rf = rf[0]
        if kind == "del_event":
            dels.setdefault((unit, fn, m[3]), set()).add(m[4])
        elif kind == "drop_branch":
            bid = m[3]
            f0 = P.fn(fn, unit)
            cont = None
            for g in rules.bailouts(f0):
                if g.block == bid:
                    es = f0.edges(bid)
                    for (s, c, br) in es:
                        if br == g.cont:
                            cont = s
            blk = [b for b in rf["blocks"] if b["id"] == bid][0]
            if cont is not None:
                blk["succs"] = [cont]
                blk.pop("term", None)
    for (unit, fn, bid), idxs in dels.items():
        rf = [f for f in facts[unit]["functions"] if f["name"] == fn][0]
        blk = [b for b in rf["blocks"] if b["id"] == bid][0]
        blk["events"] = [e for i, e in enumerate(blk["events"]) if i not in idxs]
    return facts


def _one(args):
    pid, key, muts = args
    mod, root, base, P0 = _G["mod"], _G["root"], _G["facts"], _G["P"]
    try:
        facts = _mutate(base, muts, P0)
        P = lm.Program(root, True, facts=facts)
        ck = Check(pid, "thorough", root, getattr(mod, "LEVEL", "other"))
        ck.config = "falsify"
        mod.run(ck, P)
        for o in ck.obs:
            if o.key == key:
                if not o.ok:
                    return (key, "falsified", o.detail[:160])
        present = any(o.key == key for o in ck.obs)
        # the obligation vanished (anchor gone) or another obligation of the same rule/function now fails
        if not present:
            return (key, "falsified", "obligation no longer established (instance vanished)")
        rule, site = key.split("@", 1)
        fnpart = ":".join(site.split(":")[:2])
        for o in ck.obs:
            if not o.ok and o.rule == rule and o.site.startswith(fnpart):
                return (key, "falsified", "sibling obligation fails: %s" % o.site)
        return (key, "vacuous", "rule still holds without its witness")
    except AnalysisBroken as e:
        return (key, "falsified", "analysis refuses: %s" % str(e)[:120])
    except Exception as e:      # a crash of the rule on mutated facts also shows dependence, but report it distinctly
        return (key, "error", "%s: %s" % (type(e).__name__, str(e)[:120]))


def run(ck, mod, root):
    known = {"%s@%s" % (k["rule"], k["site"]) for k in ck.load_known()}
    ok_keys = {o.key for o in ck.obs if o.ok}
    jobs = [(ck.pid, key, muts) for key, muts in ck.witnesses.items() if key in ok_keys and key not in known and muts]
    P0 = lm.Program(root, True)
    _G.update(mod=mod, root=root, facts=P0.raw, P=P0)
    results = []
    if jobs:
        with ProcessPoolExecutor(max_workers=min(16, os.cpu_count() or 4)) as ex:
            results = list(ex.map(_one, jobs, chunksize=2))
    fals = [r for r in results if r[1] == "falsified"]
    vac = [r for r in results if r[1] != "falsified"]
    ck.extra["falsification"] = {
        "attempted": len(results), "falsified": len(fals),
        "not_falsified": [{"obligation": k, "status": s, "detail": d} for (k, s, d) in vac],
        "samples": [{"obligation": k, "after_deleting_witness": d} for (k, s, d) in fals[:12]],
        "method": "witness events deleted / guard edges made unconditional in a copy of the fact base, rules re-run",
    }
    print("  falsification: %d/%d obligations with witnesses fail once their witness is removed" % (len(fals), len(results)))
    for (k, s, d) in vac:
        print("  WARNING %s: %s (%s)" % (s, k, d))
    if vac:
        raise AnalysisBroken("%d obligation(s) keep passing after their witness was deleted (vacuous instance or wrong witness): %s"
                             % (len(vac), [v[0] for v in vac][:4]))
