"""Fact-base canonicalisation: inline newly extracted static helpers into their callers.

A function that does not exist in the frozen reference (engine/namemap.json), is static, non-recursive and only called directly
from its own unit is taken to be the product of an "extract function" refactoring: its CFG is spliced into every call site
(parameters substituted by the argument expressions, `return e` turned into an assignment to a synthetic local followed by a jump
to the continuation) and the helper disappears from the function list.  Rules anchored on the original function then see the
statements where they were before the refactoring.  Nothing is inlined on the reference tree itself."""
import copy
import json


def _S(e):
    return json.dumps(e, sort_keys=True)


def _strip(e):
    while isinstance(e, dict) and e.get("k") in ("cast", "icast"):
        e = e["e"]
    return e


def _walk(e, fn):
    if isinstance(e, dict):
        fn(e)
        for v in list(e.values()):
            _walk(v, fn)
    elif isinstance(e, list):
        for v in e:
            _walk(v, fn)


def _calls_in_events(rf, name):
    out = []
    for b in rf["blocks"]:
        for i, ev in enumerate(b["events"]):
            if ev.get("ev") == "call" and ev["e"].get("callee") == name:
                out.append((b, i))
    return out


def _mentions_call(rf, name):
    found = []

    def f(n):
        if n.get("k") == "call" and n.get("callee") == name:
            found.append(1)
        if n.get("k") == "var" and n.get("vk") == "func" and n.get("name") == name:
            found.append(2)
    _walk(rf["blocks"], f)
    return found


def _assigned_params(h):
    """Parameters the helper assigns to or takes the address of (cannot be substituted by the argument expression)."""
    names = {p["name"] for p in h["params"]}
    bad = set()

    def f(n):
        if n.get("k") == "assign" or (n.get("k") == "un" and n.get("op") in ("++", "--", "&")):
            tgt = n.get("l") if n.get("k") == "assign" else n.get("e")
            while isinstance(tgt, dict) and tgt.get("k") in ("cast", "icast"):
                tgt = tgt.get("e")
            if isinstance(tgt, dict) and tgt.get("k") == "var" and tgt.get("name") in names:
                bad.add(tgt["name"])
    _walk(h["blocks"], f)
    return bad


def inline_new_helpers(unit_facts, known_names):
    """unit_facts: facts dict of one unit (mutated).  known_names: function names of this unit in the reference tree."""
    funcs = {f["name"]: f for f in unit_facts["functions"]}
    helpers = []
    for f in unit_facts["functions"]:
        if f["name"] in known_names or not f.get("static") or f.get("variadic"):
            continue
        # non-recursive, address never taken
        if any(x == 2 for g in unit_facts["functions"] for x in _mentions_call(g, f["name"])):
            continue
        if _mentions_call(f, f["name"]):
            continue
        helpers.append(f["name"])
    if not helpers:
        return []
    inlined = []
    for _round in range(4):
        progress = False
        for hn in list(helpers):
            h = funcs[hn]
            # inline leaf-most first: the helper itself must not call another not-yet-inlined helper
            if any(_calls_in_events(h, other) for other in helpers if other != hn):
                continue
            for g in unit_facts["functions"]:
                if g["name"] == hn:
                    continue
                n = 0
                while True:
                    sites = _calls_in_events(g, hn)
                    if not sites or n > 20:
                        break
                    _inline_at(g, sites[0][0], sites[0][1], h, "%s_%d" % (hn, n))
                    n += 1
                    progress = True
            if not any(_calls_in_events(g, hn) for g in unit_facts["functions"] if g["name"] != hn):
                helpers.remove(hn)
                inlined.append(hn)
        if not progress:
            break
    unit_facts["functions"] = [f for f in unit_facts["functions"] if f["name"] not in inlined]
    return inlined


def _inline_at(g, blk, idx, h, tag):
    call_ev = blk["events"][idx]
    args = call_ev["e"].get("args", [])
    maxid = max(b["id"] for b in g["blocks"])
    hc = copy.deepcopy(h)
    idmap = {}
    for b in hc["blocks"]:
        maxid += 1
        idmap[b["id"]] = maxid
    cont_id = maxid + 1
    # parameter binding
    no_subst = _assigned_params(hc)
    subst = {}
    pre_decls = []
    for j, p in enumerate(hc["params"]):
        if j >= len(args):
            continue
        if p["name"] in no_subst:
            pre_decls.append({"line": call_ev["line"], "ev": "decl", "name": p["name"], "t": p["t"], "ct": p.get("ct", ""), "static": False,
                              "init": copy.deepcopy(args[j])})
        else:
            subst[p["name"]] = args[j]
    caller_names = set()

    def collect(n):
        if n.get("k") == "var" and n.get("vk") in ("local", "param"):
            caller_names.add(n["name"])
        if n.get("ev") == "decl" and n.get("name"):
            caller_names.add(n["name"])
    _walk(g["blocks"], collect)
    for p in g["params"]:
        caller_names.add(p["name"])
    # helper locals that clash with caller names get a suffix
    hlocals = set()

    def coll2(n):
        if n.get("ev") == "decl" and n.get("name"):
            hlocals.add(n["name"])
    _walk(hc["blocks"], coll2)
    lren = {n: n + "__" + tag for n in hlocals if n in caller_names}

    def rewrite(node):
        # returns replacement node or None
        if isinstance(node, dict):
            for k, v in list(node.items()):
                if isinstance(v, dict):
                    if v.get("k") == "var" and v.get("vk") == "param" and v.get("name") in subst:
                        node[k] = copy.deepcopy(subst[v["name"]])
                    else:
                        if v.get("k") == "var" and v.get("vk") == "param":
                            v["vk"] = "local"
                        if v.get("k") == "var" and v.get("name") in lren:
                            v["name"] = lren[v["name"]]
                        rewrite(v)
                elif isinstance(v, list):
                    for i2, x in enumerate(v):
                        if isinstance(x, dict) and x.get("k") == "var" and x.get("vk") == "param" and x.get("name") in subst:
                            v[i2] = copy.deepcopy(subst[x["name"]])
                        else:
                            if isinstance(x, dict) and x.get("k") == "var" and x.get("vk") == "param":
                                x["vk"] = "local"
                            if isinstance(x, dict) and x.get("k") == "var" and x.get("name") in lren:
                                x["name"] = lren[x["name"]]
                            rewrite(x)
            if node.get("ev") == "decl" and node.get("name") in lren:
                node["name"] = lren[node["name"]]
    retvar = "__ret_" + tag
    has_value = h.get("ret_t", "void") != "void"
    callkey0 = _S(call_ev["e"])
    post0 = blk["events"][idx + 1:]
    # (a) coalescing: `T x = helper(..)` / `x = helper(..)` directly after the call -> the helper's returns assign x themselves
    coalesce = None
    if has_value and post0:
        n0 = post0[0]
        if n0.get("ev") == "decl" and n0.get("init") is not None and _S(_strip(n0["init"])) == callkey0 and not n0.get("static"):
            coalesce = ("decl", n0)
        elif n0.get("ev") == "assign" and n0["e"].get("op") == "=" and _S(_strip(n0["e"].get("r"))) == callkey0 \
                and _strip(n0["e"].get("l")).get("k") == "var":
            coalesce = ("assign", n0)
    # (b) jump threading: `if (helper(..))` / `if (!helper(..))` with nothing else in the block -> every return of the helper
    #     jumps (or branches on its returned expression) straight to the branch targets
    thread = None
    if has_value and not post0 and "term" in blk and blk["term"].get("cond") is not None and len(blk["succs"]) == 2:
        c0 = _strip(blk["term"]["cond"])
        neg = False
        while isinstance(c0, dict) and c0.get("k") == "un" and c0.get("op") == "!":
            neg = not neg
            c0 = _strip(c0.get("e"))
        if isinstance(c0, dict) and _S(c0) == callkey0 and all(x is not None for x in blk["succs"]):
            thread = (blk["succs"][1], blk["succs"][0]) if neg else (blk["succs"][0], blk["succs"][1])
    new_blocks = []
    for b in hc["blocks"]:
        if b["id"] == hc["exit"]:
            continue
        rewrite(b)
        nb = {"id": idmap[b["id"]], "succs": [(cont_id if s == hc["exit"] else idmap[s]) if s is not None else None for s in b["succs"]],
              "events": []}
        if "term" in b:
            nb["term"] = b["term"]
        if "label" in b:
            nb["label"] = b["label"]
        for ev in b["events"]:
            if ev.get("ev") == "ret":
                if thread is not None and ev.get("e") is not None:
                    cv = _strip(ev["e"]).get("cv") if isinstance(_strip(ev["e"]), dict) else None
                    if cv is not None:
                        nb["succs"] = [thread[0] if cv else thread[1]]
                        nb.pop("term", None)
                    else:
                        nb["succs"] = [thread[0], thread[1]]
                        nb["term"] = {"kind": "IfStmt", "line": ev["line"], "cond": ev["e"]}
                    continue
                if has_value and ev.get("e") is not None:
                    if coalesce is not None:
                        tgt = coalesce[1]
                        lhs = ({"k": "var", "name": tgt["name"], "vk": "local", "ct": tgt.get("ct", ""), "t": tgt.get("t", "")} if coalesce[0] == "decl"
                               else copy.deepcopy(tgt["e"]["l"]))
                    else:
                        lhs = {"k": "var", "name": retvar, "vk": "local", "ct": h["ret_t"], "t": h["ret_t"]}
                    nb["events"].append({"line": ev["line"], "ev": "assign",
                                         "e": {"k": "assign", "op": "=", "l": lhs, "r": ev["e"], "t": h["ret_t"]}})
                nb["succs"] = [cont_id]
                nb.pop("term", None)
            else:
                nb["events"].append(ev)
        new_blocks.append(nb)
    # continuation block
    post = blk["events"][idx + 1:]
    if coalesce is not None:
        post = post[1:]
        if coalesce[0] == "decl":
            d0 = dict(coalesce[1])
            d0.pop("init", None)
            pre_decls.append(d0)
    cont = {"id": cont_id, "succs": blk["succs"], "events": post}
    if "term" in blk:
        cont["term"] = blk["term"]
    callkey = _S(call_ev["e"])

    def repl(container):
        if isinstance(container, dict):
            for k, v in list(container.items()):
                if isinstance(v, dict):
                    if v.get("k") == "call" and _S(v) == callkey:
                        container[k] = {"k": "var", "name": retvar, "vk": "local", "ct": h.get("ret_t", ""), "t": h.get("ret_t", "")}
                    else:
                        repl(v)
                elif isinstance(v, list):
                    for i2, x in enumerate(v):
                        if isinstance(x, dict) and x.get("k") == "call" and _S(x) == callkey:
                            v[i2] = {"k": "var", "name": retvar, "vk": "local", "ct": h.get("ret_t", ""), "t": h.get("ret_t", "")}
                        else:
                            repl(x)
    if has_value:
        repl(cont)
    blk["events"] = blk["events"][:idx] + pre_decls
    blk["succs"] = [idmap[hc["entry"]]]
    blk.pop("term", None)
    g["blocks"].extend(new_blocks)
    g["blocks"].append(cont)
    # (&X)->f ==> X.f after substituting `&X` for a pointer parameter
    import alias as _alias
    _alias._fix_addr_members(g["blocks"])


# ----------------------------------------------------------------------------------------------------------------------------------
# Pure one-expression static helpers (`static size_t f(a) { return a + a / 3; }`) are a matter of taste: the canonical fact base has
# their calls replaced by the returned expression, in the reference tree and in any later tree alike, so that writing the expression
# out by hand (or wrapping it in such a helper) changes nothing the rules can see.
def _pure_expr_helper(f):
    if not f.get("static") or f.get("variadic") or f.get("ret_t", "void") == "void":
        return None
    rets = []
    calls = []
    for b in f["blocks"]:
        if b.get("term", {}).get("cond") is not None:
            return None
        for ev in b["events"]:
            k = ev.get("ev")
            if k == "ret":
                rets.append(ev)
            elif k == "call":
                calls.append(ev)
            else:
                return None
    if len(rets) != 1 or rets[0].get("e") is None:
        return None
    expr = rets[0]["e"]
    bad = []

    def chk(n):
        if n.get("k") in ("assign",) or (n.get("k") == "un" and n.get("op") in ("++", "--", "&")):
            bad.append(n)
        if n.get("k") in ("stmtexpr", "unknown", "cond") and n.get("k") != "cond":
            bad.append(n)
    _walk(expr, chk)
    if bad:
        return None
    # every call event is a sub-expression of the returned expression
    sub = [_S(n) for n in _subnodes(expr) if n.get("k") == "call"]
    if any(_S(c["e"]) not in sub for c in calls):
        return None
    if any(_S(c["e"]).find('"callee": "%s"' % f["name"]) >= 0 for c in calls):
        return None
    return expr, calls


def _subnodes(e):
    out = []
    _walk(e, out.append)
    return out


def _has_effect(e):
    return any(n.get("k") in ("call", "assign") or (n.get("k") == "un" and n.get("op") in ("++", "--")) for n in _subnodes(e))


def inline_pure_expr_helpers(unit_facts):
    """Replace calls of pure one-expression static helpers of this unit by the returned expression (mutates; returns helper names)."""
    helpers = {}
    for f in unit_facts["functions"]:
        # never a function whose address is taken (comparators bound in tables)
        h = _pure_expr_helper(f)
        if h is not None and not any(x == 2 for g in unit_facts["functions"] for x in _mentions_call(g, f["name"])):
            helpers[f["name"]] = (f, h[0], h[1])
    if not helpers:
        return []
    used = set()
    for _round in range(3):
        changed = False
        for g in unit_facts["functions"]:
            for b in g["blocks"]:
                i = 0
                while i < len(b["events"]):
                    ev = b["events"][i]
                    if ev.get("ev") == "call" and ev["e"].get("callee") in helpers and g["name"] != ev["e"]["callee"]:
                        hf, expr, hcalls = helpers[ev["e"]["callee"]]
                        args = ev["e"].get("args", [])
                        pn = [p["name"] for p in hf["params"]]
                        cnt = {n: sum(1 for x in _subnodes(expr) if x.get("k") == "var" and x.get("vk") == "param" and x.get("name") == n) for n in pn}
                        if len(args) != len(pn) or any(_has_effect(a) and cnt[n] != 1 for a, n in zip(args, pn)):
                            i += 1
                            continue
                        sub = dict(zip(pn, args))

                        def inst(e):
                            e = copy.deepcopy(e)

                            def rw(node):
                                if isinstance(node, dict):
                                    for k, v in list(node.items()):
                                        if isinstance(v, dict):
                                            if v.get("k") == "var" and v.get("vk") == "param" and v.get("name") in sub:
                                                node[k] = copy.deepcopy(sub[v["name"]])
                                            else:
                                                rw(v)
                                        elif isinstance(v, list):
                                            for j, x in enumerate(v):
                                                if isinstance(x, dict) and x.get("k") == "var" and x.get("vk") == "param" and x.get("name") in sub:
                                                    v[j] = copy.deepcopy(sub[x["name"]])
                                                else:
                                                    rw(x)
                            box = {"e": e}
                            rw(box)
                            return box["e"]
                        callkey = _S(ev["e"])
                        newexpr = inst(expr)
                        newcalls = [{"line": ev["line"], "ev": "call", "e": inst(c["e"])} for c in hcalls]
                        b["events"][i:i + 1] = newcalls

                        def repl(container):
                            if isinstance(container, dict):
                                for k, v in list(container.items()):
                                    if isinstance(v, dict):
                                        if v.get("k") == "call" and _S(v) == callkey:
                                            container[k] = copy.deepcopy(newexpr)
                                        else:
                                            repl(v)
                                    elif isinstance(v, list):
                                        for j, x in enumerate(v):
                                            if isinstance(x, dict) and x.get("k") == "call" and _S(x) == callkey:
                                                v[j] = copy.deepcopy(newexpr)
                                            else:
                                                repl(x)
                            elif isinstance(container, list):
                                for x in container:
                                    repl(x)
                        # the enclosing statement (and the block terminator) follow the call event in the same block
                        repl(b["events"][i + len(newcalls):])
                        if "term" in b:
                            repl(b["term"])
                        # a short-circuit / conditional operator can put the enclosing expression into a later block
                        for b2 in g["blocks"]:
                            if b2 is not b:
                                repl(b2["events"])
                                if "term" in b2:
                                    repl(b2["term"])
                        used.add(hf["name"])
                        changed = True
                        i += len(newcalls)
                    else:
                        i += 1
        if not changed:
            break
    _import_alias_fix(unit_facts)
    return sorted(used)


def _import_alias_fix(unit_facts):
    import alias as _alias
    for g in unit_facts["functions"]:
        _alias._fix_addr_members(g["blocks"])
