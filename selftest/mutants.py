"""Catalogue of compile-clean mutants of the real sources: (name, file, old, new, property, rule that must name the site).
Each breaks exactly one instance of one rule.  `tools/selftest.py` applies each to a scratch copy of /repo and requires
the named check to exit 1 naming that rule."""

M = [
    # ---- C01
    ("c01_stop_mask", "Lib/core/mod.c", "M_MOD_ASSERT_STATE(mod, M_MOD_RUNNING | M_MOD_PAUSED);\n    M_MOD_CONSUME_TOKEN(mod);\n    \n    int ret = stop(mod, true);",
     "M_MOD_ASSERT_STATE(mod, M_MOD_RUNNING | M_MOD_PAUSED | M_MOD_STOPPED);\n    M_MOD_CONSUME_TOKEN(mod);\n    \n    int ret = stop(mod, true);", "C01", "C01.1-GUARD"),
    ("c01_no_counter_dec", "Lib/core/mod.c", "    if (m_mod_is(mod, M_MOD_RUNNING)) {\n        c->stats.running_modules--;\n    }\n", "", "C01", "C01.3-COUNTER"),
    ("c01_on_stop_on_pause", "Lib/core/mod.c", "    if (stopping) {\n        reset_module(mod);\n        ret = optional_hook(mod, MOD_STOP);\n    }",
     "    if (stopping) {\n        reset_module(mod);\n    }\n    ret = optional_hook(mod, MOD_STOP);", "C01", "C01.4-HOOKSITES"),
    ("c01_eval_returns_hook", "Lib/core/mod.c", "    /* Never stop the iteration: other modules must be evaluated too, whatever this one's on_eval() returned */\n    return 0;",
     "    return m_mod_is(mod, M_MOD_IDLE) ? -1 : 0;", "C01", "C01.7-ITERZERO"),
    ("c01_no_running_recheck", "Lib/core/ctx.c", "            if (!m_mod_is(mod, M_MOD_RUNNING)) {", "            if (m_mod_is(mod, M_MOD_ZOMBIE)) {", "C01", "C01.6-HANDLER-RUNNING"),
    ("c01_hook_without_ref", "Lib/core/globals.h", "    m_mem_ref(mem); \\\n    func; \\\n    m_mem_unref(mem);", "    func;", "C01", "C01.5-REFBRACKET"),
    # ---- C02
    ("c02_unref_template", "Lib/core/ps.c", "                m_mem_unref(m);\n            }", "                m_mem_unref(msg);\n            }", "C02", "C02.4-PIPE-FULL"),
    ("c02_paused_not_eligible_dropped", "Lib/core/ps.c", "    if (mod->state & (M_MOD_RUNNING | M_MOD_PAUSED) && ", "    if (mod->state & (M_MOD_RUNNING | M_MOD_PAUSED | M_MOD_STOPPED) && ", "C02", "C02.1-ELIGIBLE"),
    ("c02_sender_skips_drop", "Lib/core/ps.c", "    m_mem_unref(m.autofree);\n    return ret;", "    if (ret != 0) {\n        m_mem_unref(m.autofree);\n    }\n    return ret;", "C02", "C02.5-AUTOFREE-ONCE"),
    ("c02_new_evt_null", "Lib/core/evts.c", "msg->evt.type = src ? src->type : M_SRC_TYPE_PS;", "msg->evt.type = src->type;", "C02", "C02.7-NULLABLE-SUB"),
    ("c02_no_flush", "Lib/core/ctx.c", "    m_iterate(c->modules, flush_pubsub_msgs, NULL);\n", "    if (c->quit_code == 0) {\n        m_iterate(c->modules, flush_pubsub_msgs, NULL);\n    }\n", "C02", "C02.6-FLUSH-AT-STOP"),
    # ---- C03
    ("c03_no_errno_reset", "Lib/core/ctx.c", "            errno = 0;\n            if (evt) {", "            if (evt) {", "C03", "C03.1-ERRNO"),
    ("c03_quit_on_eagain", "Lib/core/ctx.c", "        if (err != EINTR && err != EAGAIN) {", "        if (err != EINTR) {", "C03", "C03.2-REASONS"),
    ("c03_flush_no_ts", "Lib/core/ps.c", "                fetch_ms(&msg->evt.ts, NULL);\n", "", "C03", "C03.3-PRODUCERS"),
    ("c03_oneshot_not_removed", "Lib/core/ctx.c", "                    if (p->type != M_SRC_TYPE_PS) {\n                        m_bst_remove(mod->srcs[p->type], p);\n                    } else {",
     "                    if (p->type != M_SRC_TYPE_PS) {\n                        /* removed lazily */\n                    } else {", "C03", "C03.4-ONESHOT"),
    # ---- C04
    ("c04_sub_no_ref", "Lib/core/ps.c", "m->sub = m_mem_ref(sub);", "m->sub = sub;", "C04", "C04.2-REFPTR-STORE"),
    ("c04_new_evt_no_src_ref", "Lib/core/evts.c", "msg->src = m_mem_ref(src);", "msg->src = src;", "C04", "C04.2-REFPTR-STORE"),
    ("c04_leak_src_on_dup", "Lib/core/src.c", "    m_mem_unref(src);\n    return ret;\n}\n\nint deregister_mod_src", "    return ret;\n}\n\nint deregister_mod_src", "C04", "C04.3-OWN"),
    ("c04_dtor_forgets_stash", "Lib/core/mod.c", "        m_queue_free(&mod->stashed);\n", "", "C04", "C04.6-DTOR-COMPLETE"),
    ("c04_use_after_unref", "Lib/core/ctx.c", "        const bool is_batch_timer = src->userptr == &mod->batch;\n        const bool is_tb_timer = src->userptr == &mod->tb;\n        \n        m_mem_unref(evt);",
     "        m_mem_unref(evt);\n        const bool is_batch_timer = src->userptr == &mod->batch;\n        const bool is_tb_timer = src->userptr == &mod->tb;\n", "C04", "C04.5-USE-AFTER-UNREF"),
    # ---- C05
    ("c05_size_200", "Lib/structs/map.c", "#define MAP_SIZE_DEFAULT            (1 << 8)", "#define MAP_SIZE_DEFAULT            200", "C05", "C05.4-POW2"),
    ("c05_no_len_dec", "Lib/structs/map.c", "    /* Reduce the size */\n    m->length--;\n", "", "C05", "C05.3-LENGTH"),
    ("c05_no_dtor_on_update", "Lib/structs/map.c", "            if (m->dtor && entry->data != value) {\n                /* Destroy old value if needed */\n                m->dtor(entry->data);\n            }\n", "", "C05", "C05.2-DTOR-BEFORE-DROP"),
    ("c05_dup_early", "Lib/structs/map.c", "    return hashmap_put(m, key, value);", "    return hashmap_put(m, m->flags & M_MAP_KEY_DUP ? mem_strdup(key) : key, value);", "C05", "C05.1-DUPKEY-OWNED"),
    # ---- C06
    ("c06_unlock_missing", "Lib/thpool/thpool.c", "                pthread_mutex_unlock(&pool->lock);\n                return ret;", "                return ret;", "C06", "C06.1-LOCK-PAIR"),
    ("c06_if_instead_of_while", "Lib/thpool/thpool.c", "        while (m_queue_len(pool->tasks) == 0 && pool->shutdown == SHUTDOWN_NO) {", "        if (m_queue_len(pool->tasks) == 0 && pool->shutdown == SHUTDOWN_NO) {", "C06", "C06.3-COND"),
    ("c06_shutdown_read_unlocked", "Lib/thpool/thpool.c", "        pool->running_tasks--;\n    }", "        pool->running_tasks--;\n        if (pool->shutdown == SHUTDOWN_WAITCURR) {\n            return NULL;\n        }\n    }", "C06", "C06.2-LOCKSET"),
    ("c06_signal_outside_lock", "Lib/thpool/thpool.c", "    ret = pthread_cond_signal(&pool->notify);\n\n    const int unlock_ret = pthread_mutex_unlock(&pool->lock);",
     "    const int unlock_ret = pthread_mutex_unlock(&pool->lock);\n    ret = pthread_cond_signal(&pool->notify);\n", "C06", "C06.3-COND"),
    # ---- C07
    ("c07_detach_first", "Lib/core/ctx.c", "    c->state = M_CTX_ZOMBIE;\n    m_iterate(c->modules, ctx_destroy_mods, NULL);\n\n    int ret = pthread_setspecific(key, NULL);",
     "    c->state = M_CTX_ZOMBIE;\n    int ret = pthread_setspecific(key, NULL);\n    m_iterate(c->modules, ctx_destroy_mods, NULL);\n", "C07", "C07.3-TEARDOWN-ATTACHED"),
    ("c07_no_zombie_state", "Lib/core/ctx.c", "    c->state = M_CTX_ZOMBIE;\n    m_iterate(c->modules, ctx_destroy_mods, NULL);", "    m_iterate(c->modules, ctx_destroy_mods, NULL);", "C07", "C07.3-NO-REENTRY"),
    ("c07_no_finalize_gate", "Lib/core/mod.c", "    if (c->finalized || c->state == M_CTX_ZOMBIE) {", "    if (c->state == M_CTX_ZOMBIE) {", "C07", "C07.6-FINALIZE"),
    ("c07_no_once_in_m_ctx", "Lib/core/ctx.c", "    pthread_once(&key_once, make_key);\n    m_ctx_t *c = pthread_getspecific(key);", "    m_ctx_t *c = pthread_getspecific(key);", "C07", "C07.7-KEY-ONCE"),
    ("c07_autorelease_ignores_persist", "Lib/core/ctx.c", "    if (m_map_len(c->modules) == 0 && !(c->flags & M_CTX_PERSIST)) {", "    if (m_map_len(c->modules) == 0) {", "C07", "C07.5-AUTORELEASE"),
    # ---- C09
    ("c09_cmp_wrong_struct", "Lib/core/src.c", "static int sgncmp(void *my_data, void *node_data) {\n    ev_src_t *src = (ev_src_t *)node_data;\n    ev_src_t *key = (ev_src_t *)my_data;\n\n    return M_CMP(key->sgn_src.sgs.signo, src->sgn_src.sgs.signo);",
     "static int sgncmp(void *my_data, void *node_data) {\n    ev_src_t *src = (ev_src_t *)node_data;\n    const m_src_sgn_t *key = (const m_src_sgn_t *)my_data;\n\n    return M_CMP(key->signo, src->sgn_src.sgs.signo);", "C09", "C09.1-CMP-KEYTYPE"),
    ("c09_tmr_diff", "Lib/core/src.c", "    return M_CMP(key->tmr_src.its.ns, src->tmr_src.its.ns);", "    return key->tmr_src.its.ns - src->tmr_src.its.ns;", "C09", "C09.2-CMP-NARROW"),
    ("c09_len_ignores_type", "Lib/core/src.c", "        if (!all && type != i) {\n            continue;\n        }\n", "", "C09", "C09.4-COUNTS"),
    ("c09_pause_drops_srcs", "Lib/core/mod.c", "            if (flag == RM && stop) {", "            if (flag == RM) {", "C09", "C09.5-STOP-DROPS"),
    # ---- C10
    ("c10_shift_from_total", "Lib/mem/mem.c", "    const uint8_t align_shift = ALIGN_UP(sizeof(mem_header_t) + 1) - sizeof(mem_header_t);", "    const uint8_t align_shift = ALIGN_UP(total_size + 1) - total_size;", "C10", "C10.1-ALIGN"),
    ("c10_header_offset", "Lib/mem/mem.c", "    return (mem_header_t *)(src - sizeof(mem_header_t) - align_shift);", "    return (mem_header_t *)(src - sizeof(mem_header_t) - align_shift + 8);", "C10", "C10.2-HEADER"),
    ("c10_dtor_after_free", "Lib/mem/mem.c", "            if (header->dtor) {\n                header->dtor(src); // destroy private data\n            }\n            memhook._free(header);",
     "            m_ref_dtor d = header->dtor;\n            memhook._free(header);\n            if (d) {\n                d(src);\n            }", "C10", "C10.3-PROTOCOL"),
    # ---- C11
    ("c11_copy_not_swap", "Lib/structs/bst.c", "        (*tmp)->userptr = removed_data;\n", "        (void)removed_data;\n", "C11", "C11.2-DTOR-TARGET"),
    ("c11_inorder_wrong", "Lib/structs/bst.c", "        int ret = traverse_inorder(node->left, cb, userptr);\n        if (ret == 0) {\n            ret = cb(userptr, node->userptr);\n            if (ret == 0) {\n                ret = traverse_inorder(node->right, cb, userptr);",
     "        int ret = traverse_inorder(node->right, cb, userptr);\n        if (ret == 0) {\n            ret = cb(userptr, node->userptr);\n            if (ret == 0) {\n                ret = traverse_inorder(node->left, cb, userptr);", "C11", "C11.3-TRAVERSE"),
    ("c11_ptr_diff", "Lib/structs/bst.c", "    return (userdata > node_data) - (userdata < node_data);", "    return (int)((char *)userdata - (char *)node_data);", "C11", "C11.1-PTRCMP"),
    # ---- C12
    ("c12_tail_null", "Lib/structs/queue.c", "            itr->q->tail = itr->q->head ? (queue_elem *)((char *)itr->elem - offsetof(queue_elem, prev)) : NULL;", "            itr->q->tail = NULL;", "C12", "C12.1-TAIL"),
    ("c12_stack_len", "Lib/structs/stack.c", "        memhook._free(tmp);\n        itr->s->len--;", "        memhook._free(tmp);", "C12", "C12.2-LEN"),
    ("c12_pop_calls_dtor", "Lib/structs/stack.c", "    void *data = elem->userptr;\n    memhook._free(elem);\n    s->len--;\n    return data;",
     "    void *data = elem->userptr;\n    memhook._free(elem);\n    s->len--;\n    if (s->dtor) {\n        s->dtor(data);\n    }\n    return data;", "C12", "C12.2-DTOR"),
    # ---- C13
    ("c13_gt_instead_of_ge", "Lib/core/ctx.c", "        m_queue_len(mod->batch.events) >= mod->batch.len) {", "        m_queue_len(mod->batch.events) > mod->batch.len) {", "C13", "C13.1-DECISION"),
    ("c13_low_high_swapped", "Lib/core/ctx.c", "            if (src->flags & M_SRC_PRIO_HIGH) {\n                force = true;\n            } else if (src->flags & M_SRC_PRIO_LOW) {",
     "            if (src->flags & M_SRC_PRIO_LOW) {\n                force = true;\n            } else if (src->flags & M_SRC_PRIO_HIGH) {", "C13", "C13.1-DECISION"),
    ("c13_fd_not_forced_high", "Lib/core/src.c", "            if (type == M_SRC_TYPE_FD) {\n                src->flags |= M_SRC_PRIO_HIGH;\n            }", "", "C13", "C13.2-PRIO"),
    ("c13_reset_keeps_len", "Lib/core/mod.c", "    mod->batch.len = 0;\n", "", "C13", "C13.4-RESET"),
    # ---- C14
    ("c14_file_scope_counter", "Lib/core/ctx.c", "static void push_evt(m_mod_t *mod, evt_priv_t *evt) {\n    ev_src_t *src = evt->src;",
     "static uint64_t total_pushed;\nstatic void push_evt(m_mod_t *mod, evt_priv_t *evt) {\n    total_pushed++;\n    ev_src_t *src = evt->src;", "C14", "C14.1-SHARED-STATIC"),
    ("c14_tell_other_ctx", "Lib/core/ps.c", "    M_PARAM_ASSERT(recipient);\n    /* only same ctx modules can talk */\n    M_PARAM_ASSERT(mod->ctx == recipient->ctx);\n    M_MOD_CONSUME_TOKEN(mod);\n\n    return send_msg",
     "    M_PARAM_ASSERT(recipient);\n    M_MOD_CONSUME_TOKEN(mod);\n\n    return send_msg", "C14", "C14.3-SAME-CTX"),
    ("c14_batch_size_unguarded", "Lib/core/evts.c", "_public_ int m_mod_set_batch_size(m_mod_t *mod, size_t len) {\n    M_MOD_ASSERT(mod);", "_public_ int m_mod_set_batch_size(m_mod_t *mod, size_t len) {\n    M_PARAM_ASSERT(mod);", "C14", "C14.2-THREAD-GUARD"),
    # ---- C15
    ("c15_deny_swapped", "Lib/core/ps.c", "_public_ int m_mod_ps_unsubscribe(m_mod_t *mod, const char *topic) {\n    M_MOD_ASSERT_PERM(mod, M_MOD_DENY_SUB);", "_public_ int m_mod_ps_unsubscribe(m_mod_t *mod, const char *topic) {\n    M_MOD_ASSERT_PERM(mod, M_MOD_DENY_PUB);", "C15", "C15.2-DENY-BITS"),
    ("c15_no_system_check", "Lib/core/ps.c", "    M_RET_ASSERT(!is_system_message(topic), -EPERM);\n", "", "C15", "C15.5-RESERVED"),
    ("c15_persist_ignored", "Lib/core/mod.c", "    if ((m->flags & M_MOD_PERSIST) && c->state == M_CTX_LOOPING) {", "    if ((m->flags & M_MOD_PERSIST) && from_user && c->state == M_CTX_LOOPING) {", "C15", "C15.4-PERSIST"),
    ("c15_replace_without_flag", "Lib/core/mod.c", "        if (!(old_mod->flags & M_MOD_ALLOW_REPLACE)) {", "        if (!(old_mod->flags & M_MOD_ALLOW_REPLACE) && !(flags & M_MOD_ALLOW_REPLACE)) {", "C15", "C15.1-UNIQUE-NAMES"),
    # ---- C16
    ("c16_off_by_one", "Lib/core/evts.c", "        if (m_idx == len) {", "        if (m_idx + 1 == len) {", "C16", "C16.2-TRIPCOUNT"),
    ("c16_stash_high", "Lib/core/evts.c", "    M_RET_ASSERT(!(prio_flags & M_SRC_PRIO_HIGH), -EPERM);\n", "", "C16", "C16.1-GUARDS"),
    # ---- C17
    ("c17_peek_after_cb", "Lib/core/ps.c", "        cb(mod, evts);\n", "        cb(mod, evts);\n        cb = m_stack_peek(mod->recvs);\n", "C17", "C17.2-SELECTION"),
    ("c17_unbecome_always_ok", "Lib/core/evts.c", "    if (m_stack_pop(mod->recvs) != NULL) {\n        return 0;\n    }\n    return -EINVAL;", "    m_stack_pop(mod->recvs);\n    return 0;", "C17", "C17.3-GUARDS"),
    ("c17_reset_keeps_recvs", "Lib/core/mod.c", "    m_stack_clear(mod->recvs);\n", "", "C17", "C17.4-STOP-RESETS"),
    # ---- C18
    ("c18_tell_no_token", "Lib/core/ps.c", "    M_PARAM_ASSERT(mod->ctx == recipient->ctx);\n    M_MOD_CONSUME_TOKEN(mod);\n\n    return send_msg", "    M_PARAM_ASSERT(mod->ctx == recipient->ctx);\n\n    return send_msg", "C18", "C18.1-CONSUME"),
    ("c18_refill_uncapped", "Lib/core/ctx.c", "            if (mod->tb.tokens < mod->tb.burst) {\n                mod->tb.tokens++;\n            }", "            mod->tb.tokens++;", "C18", "C18.2-COUNTER"),
    ("c18_rate0_keeps_tokens", "Lib/core/mod.c", "        mod->tb.rate = 0;\n        mod->tb.burst = UINT64_MAX;\n        mod->tb.tokens = UINT64_MAX;\n        memset(&mod->tb.timer, 0, sizeof(mod->tb.timer));",
     "        mod->tb.rate = 0;\n        mod->tb.burst = UINT64_MAX;\n        memset(&mod->tb.timer, 0, sizeof(mod->tb.timer));", "C18", "C18.4-OFF"),
    ("c18_rate0_no_dereg_key", "Lib/core/mod.c", "        deregister_internal_tmr(mod, &mod->tb.timer, &mod->tb);", "        m_mod_src_deregister_tmr(mod, &mod->tb.timer);", "C09", "C09.8-INTERNAL-KEYSPACE"),
    ("c09_tmrcmp_one_keyspace", "Lib/core/src.c", "    if (key_internal != src_internal) {\n        return M_CMP(key_internal, src_internal);\n    }\n", "", "C09", "C09.8-INTERNAL-KEYSPACE"),
    ("c09_tmrcmp_no_userptr", "Lib/core/src.c", "    if (key_internal && key->userptr != src->userptr) {\n        return M_CMP((uintptr_t)key->userptr, (uintptr_t)src->userptr);\n    }\n", "", "C09", "C09.8-INTERNAL-KEYSPACE"),
    ("c09_batch_wrong_userptr", "Lib/core/evts.c", "deregister_internal_tmr(mod, &mod->batch.timer, &mod->batch);", "deregister_internal_tmr(mod, &mod->batch.timer, &mod->tb);", "C09", "C09.8-INTERNAL-KEYSPACE"),
    ("c03_oneshot_not_armed", "Lib/core/poll/epoll.c", "    if (tmp->flags & M_SRC_ONESHOT) {\n        ev->events |= EPOLLONESHOT;\n    }\n", "", "C03", "C03.4-ONESHOT"),
    ("c04_copy_borrows_sub", "Lib/core/ps.c", "        m->sub = m_mem_ref(sub); //", "        m->sub = sub; //", "C04", "C04.2-REFPTR-STORE"),
    ("c20_ctx_src_not_removed", "Lib/core/src.c", "        poll_set_new_evt(&c->ppriv, *src, RM);\n        m_mem_unrefp((void **)src);", "        m_mem_unrefp((void **)src);", "C20", "C20.4-RELEASE"),
    ("c19_dereg_skips_stop", "Lib/core/mod.c", "            /* Stop module */\n            stop(m, true);", "            if (m_mod_is(m, M_MOD_RUNNING | M_MOD_PAUSED)) {\n                stop(m, true);\n            }", "C19", "C19.2-ONE-PER-TRANSITION"),
    ("c02_copy_rewrites_topic", "Lib/core/ps.c", "        m->sub = m_mem_ref(sub); //", "        if (sub) m->msg.topic = sub->ps_src.topic;\n        m->sub = m_mem_ref(sub); //", "C02", "C02.3-COPY"),
    ("c03_poll_wait_retries", "Lib/core/poll/epoll.c", "    return epoll_wait(ep->fd, (struct epoll_event *) ep->pevents, priv->max_events, timeout);", "    int r;\n    do {\n        r = epoll_wait(ep->fd, (struct epoll_event *) ep->pevents, priv->max_events, timeout);\n    } while (r == -1 && errno == EINTR);\n    return r;", "C03", "C03.1-ERRNO"),
    ("c03_sigmask_unblock", "Lib/core/poll/cmn_linux.c", "    sigprocmask(SIG_BLOCK, &mask, NULL);", "    sigprocmask(SIG_BLOCK, &mask, NULL);\n    if (tmp->flags & M_SRC_ONESHOT) sigprocmask(SIG_UNBLOCK, &mask, NULL);", "C03", "C03.6-SIGMASK"),
    ("c04_cb_fastpath_leaks_queue", "Lib/core/ps.c", "    if (m_queue_len(evts) == 0) {\n        goto end;\n    }", "    if (!m_mod_is(mod, M_MOD_RUNNING)) {\n        return;\n    }\n    if (m_queue_len(evts) == 0) {\n        goto end;\n    }", "C04", "C04.3-OWN"),
    ("c04_bind_borrows", "Lib/core/mod.c", "    return m_list_insert(ref->bound_mods, m_mem_ref(mod));", "    return m_list_insert(ref->bound_mods, mod);", "C04", "C04.2-REFPTR-STORE"),
    ("c09_manage_srcs_early_return", "Lib/core/mod.c", "    int ret = 0;\n\n    for (int i = 0; i < M_SRC_TYPE_END; i++) {\n        m_itr_foreach(mod->srcs[i], {", "    int ret = 0;\n\n    if (flag == RM && m_mod_is(mod, M_MOD_PAUSED)) {\n        return 0;\n    }\n    for (int i = 0; i < M_SRC_TYPE_END; i++) {\n        m_itr_foreach(mod->srcs[i], {", "C09", "C09.5-STOP-DROPS"),
    ("c09_wrapper_masks_flags", "Lib/core/src.c", "    return register_mod_src(mod, M_SRC_TYPE_PATH, pt, flags, userptr);", "    return register_mod_src(mod, M_SRC_TYPE_PATH, pt, flags & ~0x3f, userptr);", "C09", "C09.9-PASS-THROUGH"),
    ("c06_started_after_workers", "Lib/thpool/thpool.c", "        pool->init_state |= INITED_STARTED;\n        if (!(flags & M_THPOOL_LAZY)) {\n            /* Start worker threads */\n            err = add_threads(pool, thread_count);\n        }", "        if (!(flags & M_THPOOL_LAZY)) {\n            /* Start worker threads */\n            err = add_threads(pool, thread_count);\n        }\n        pool->init_state |= INITED_STARTED;", "C06", "C06.5-JOIN-BEFORE-FREE"),
    # ---- C19
    ("c19_started_on_refuse", "Lib/core/mod.c", "        if (m_mod_is(mod, M_MOD_RUNNING | M_MOD_PAUSED)) {\n            stop(mod, true);\n        }\n        ret = 0;",
     "        tell_system_pubsub_msg(NULL, c, mod, M_PS_MOD_STARTED);\n        if (m_mod_is(mod, M_MOD_RUNNING | M_MOD_PAUSED)) {\n            stop(mod, true);\n        }\n        ret = 0;", "C19", "C19.2-ONE-PER-TRANSITION"),
    ("c19_wrong_sender", "Lib/core/mod.c", "        tell_system_pubsub_msg(NULL, c, mod, M_PS_MOD_STOPPED);", "        tell_system_pubsub_msg(NULL, c, NULL, M_PS_MOD_STOPPED);", "C19", "C19.3-SENDER-FLAGS"),
    ("c19_tick_on_start", "Lib/core/ctx.c", "        tell_system_pubsub_msg(NULL, c, NULL, M_PS_CTX_STARTED);", "        tell_system_pubsub_msg(NULL, c, NULL, M_PS_CTX_TICK);", "C19", "C19.1-SITES"),
    # ---- C20
    ("c20_close_without_autoclose", "Lib/core/src.c", "    if (t->flags & M_SRC_FD_AUTOCLOSE) {\n        int fd = -1;", "    if (t->flags & (M_SRC_FD_AUTOCLOSE | M_SRC_ONESHOT)) {\n        int fd = -1;", "C20", "C20.1-WHO-CLOSES"),
    ("c20_dup_not_autoclose", "Lib/core/src.c", "                fd_src->fd = dup(fd);\n                src->flags |= M_SRC_FD_AUTOCLOSE;", "                fd_src->fd = dup(fd);", "C20", "C20.2-WHO-OPENS"),
    ("c20_no_reset_after_close", "Lib/core/poll/epoll.c", "            close(fd);\n            /* \n             * Reset to -1. Note that fd_src has same\n             * memory space as other fds (inside union)\n             */\n            tmp->fd_src.fd = -1;", "            close(fd);", "C20", "C20.4-RELEASE"),
    ("c20_extra_open", "Lib/core/ctx.c", "    return dup(poll_get_fd(&c->ppriv));", "    int fd = dup(poll_get_fd(&c->ppriv));\n    c->ppriv.max_events = dup(fd);\n    return fd;", "C20", "C20.2-WHO-OPENS"),
]
